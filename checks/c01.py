"""C01 — the in-memory filespace behaves as an abstract file tree on every history.

Theorems: lean/Goat/Props/C01.lean — the model lean/Goat/Model/MemFS.lean (one function per method of
memfs.Filespace / FilespaceWrapper, raw path bytes in, Go control flow) refines the point-wise
specification lean/Goat/Spec/FS.lean for every call, every history (`∀ ops : List …`), every path
spelling and every view depth.

Snapshot clause: lean/Goat/Model/MemFSHeap.lean is a second, heap-level model of the same Go code (every
slice is an object with an id, the caller holds handles and may write through them at any time); section 5
of Props/C01.lean proves on it, for all histories, the separation invariant (`snapshot_inv`), the simulation
heap model = value model (`snapshot_sim`), and the three sentences of the clause (`handed_out_stable`,
`handed_in_stable`, `copy_shares_nothing`), plus `handed_out_shows_result` and `listing_sync` (a directory's
node array always holds the directory's entries); `snapshot_prefix_variant_false` shows the invariant false
for the code before c1f9074/e4e01df.

Correspondence (every run, THREE-way): harness/cmd/fs `drive` (real memfs) against the compiled value model
`m_fs` AND against the compiled heap model `m_fsheap` (same op lines; in `m_fsheap` the probes keep/mutate/
recheck act on heap objects of the model, so an alias in the implementation that the model does not have —
or the reverse — is a differing `recheck`/`readfile`/`readdir`/`dump` line) on
  (a) the corpus, (b) `pathenum`: path.Clean / CleanPath / ReduceAbsPath on every string up to a bound
  over {a . /}, (c) sharded random histories (16 methods, child views at any depth, all spellings,
  alias probes keep/mutate/recheck, full `dump` walks), (d) every op sequence of length <= 2 (quick) /
  <= 3 (thorough) over {WriteFile, MkdirAll, Remove, RemoveAll, Copy, ReadDir} x 2 names x 6 spellings,
  (e) nested views (harness/internal/fsdrv/nest.go): `Filespace(p)` on a child view rooted 1..3 levels down with
  unreduced spellings (inner `..`, leading `/`, `.`, empty elements) that stay inside the view (must open
  base ++ reduce p) or pass its root while staying inside the filespace (`../s`, `w/../../s`, `/../s`: must
  fail); every such call is followed by a mutation and a dump through the new handle and a dump of the root, so
  a view handed out where none may exist is a differing result line.  Random (in (c) and in the oracle stream)
  and exhaustive (`fs gennest`: every spelling of <= 4 (quick) / 5 (thorough) elements over {a s .. . ""}).
  Model side: `MemFS.openView` takes the raw bytes and reduces them relative to the view (theorems view_of_view,
  view_escape_refused; the history theorem memfs_run_refines covers both through FS.viewsAfter).
When the two sides disagree on ok/err of a `view` line the judge exercises the handle (a marker write through it,
its dump, the dump of every root): the disagreement is about the handle table, which no dump of a root shows.
Spec vs implementation without the Lean model: `fs oracle` (flat reference written from the sentences of
the property; listings as sets, snapshots by construction).

Structural tie (every run, DESIGN 1.4): `harness/cmd/fsfacts facts C01` (go/ast) rewrites
lean/Goat/Tie/ExtractedFSC01.lean from the sources under test — normal forms of getData / setData / getNodes /
copyFile / copyDir / FileHandler.Write / Read, the slice events of WriteFile / Writer / addNode / mkdir /
removeNodeByName, a census of the functions that mention `.data` / `.nodes`, the path discipline of every method of
Filespace and FilespaceWrapper, ReduceAbsPath — and the theorems `tie_*` of lean/Goat/Tie/FSC01.lean compare them
by `decide` with the copy/share table in the header of Model/MemFSHeap.lean.  They are obligations of the check: a
failing one is followed by the search below and ends as `no-failing-input-found` when nothing concrete turns up.

The model is *proved* to refine the Spec, so an implementation/model difference in an observable value is
a counterexample to the property; it is minimised (ddmin) and re-judged by the independent reference
(`fs refcheck`).  A difference that is only about ok/err of a call the property does not constrain, with
identical trees afterwards, is reported as `no-failing-input-found`.
"""
import concurrent.futures
import glob
import json
import os
import re
import subprocess

import fs_tie
import lib

META = dict(
    level_claimed=dict(
        category="proof",
        text="Lean 4 theorems: every method of the memfs model refines a point-wise `Path -> Option Entry` "
             "specification (results and post-state expressed through the pre-state), well-formedness (unique, "
             "real sibling names) is preserved, lifted by induction to all op lists over a root filespace and "
             "child views of any depth, with the property's sentences as corollaries (write_creates_parents, "
             "write_replaces, mkdir_idempotent, remove_only_file_or_empty_dir, removeAll_subtree, copy_deep, "
             "queries_agree, no_phantom).  The snapshot clause is proved on a second, heap-level model of the same "
             "code (slices are heap objects, the caller holds handles and writes through them anywhere in a "
             "history): separation invariant on all histories (snapshot_inv: caller-held ids and tree ids are "
             "disjoint, no id at two tree positions), simulation heap model = value model on all histories "
             "(snapshot_sim), handed_out_stable, handed_in_stable, copy_shares_nothing, listing_sync (node arrays "
             "in step with the tree), and the invariant disproved for the pre-fix code "
             "(snapshot_prefix_variant_false).  Both models are tied to /repo on "
             "every run by a three-way differential over random histories (all 16 methods, all spellings, views, "
             "alias probes) and an exhaustive small scope, and by a structural tie: go/ast normal forms of the copy "
             "points (WriteFile/setData copy in, getData/getNodes copy out, copyFile/copyDir copy, handle Write "
             "appends, Writer installs a fresh slice, removeNodeByName shifts in place), of the `.data`/`.nodes` "
             "census and of the path discipline of every method, regenerated from the sources on every run and "
             "compared with the model's assumptions by `decide` (lean/Goat/Tie/FSC01.lean, theorems tie_*).",
        design_ref="DESIGN.md 3 C01"),
    level_note="Trusted: Lean kernel (axioms propext/Classical.choice/Quot.sound only); the two hand-written models' "
               "correspondence to /repo (differential; generator reach printed in the histogram); Go slice/map "
               "semantics as modelled. The snapshot clause is a theorem about the heap-level model "
               "(Model/MemFSHeap.lean), for every `append` growth policy; that this model places its copies and its "
               "sharing where memfs does (WriteFile/setData/getData/getNodes/copyFile copy, removeNodeByName shifts in "
               "place, Writer installs a fresh slice) is read off the source (file:line table in the model's header) "
               "and checked on every run (a) by the structural tie lean/Goat/Tie/FSC01.lean — SYNTACTIC: go/ast normal forms of "
               "exactly those functions compared by `decide`, trusted as a reading of the text of the named functions, "
               "blind to what they call — and (b) by the alias-probe differential implementation vs m_fsheap; neither "
               "is a proof that the Go code has the model's semantics. Trusted about Go: "
               "`make`+`copy` yields storage disjoint from everything else, `append` writes only into its first "
               "argument's array or a fresh one and only reads its second, the os.FileInfo interface gives no write "
               "access to a node. Not in the heap model: a caller buffer passed to Reader.Read that is also held "
               "elsewhere (Read buffers are fresh), capacity-dependent behaviour of code that is not in /repo now.",
    technique="Lean 4 proof (refinement to a point-wise spec, induction over histories) + structural tie (go/ast "
              "normal forms of the copy points and path discipline vs hand-written expectations, `decide`) + "
              "differential correspondence (random + exhaustive small scope) + reference oracle",
)

NSHARDS = 16
GENCMD = dict(rand="gen", exh="genx", nest="gennest")   # campaign kind -> generator sub-command of `fs`


class ImplTimeout(Exception):
    """the implementation-side driver did not finish (an interface call spins for ever)"""


def _sh(ctx, argv, stdin=None, stdout=None, stderr=None, env=None):
    e = ctx.goenv()
    e.setdefault("GOMEMLIMIT", "3GiB")
    if env:
        e.update(env)
    fin = open(stdin, "rb") if stdin else subprocess.DEVNULL
    fout = open(stdout, "wb") if stdout else subprocess.DEVNULL
    ferr = open(stderr, "wb") if stderr else subprocess.PIPE
    try:
        p = subprocess.run(argv, stdin=fin, stdout=fout, stderr=ferr, env=e, timeout=ctx.pick(400, 2400))
        return p.returncode, (p.stderr or b"").decode("utf-8", "replace") if not stderr else ""
    except subprocess.TimeoutExpired:
        return 124, "timeout"
    finally:
        for h in (fin, fout, ferr):
            if hasattr(h, "close"):
                h.close()


def _pair(ctx, go, model, ops, tag, stats=None, nohash=False):
    """run both drivers on an op file; returns (impl_out, model_out)"""
    a, b = ctx.path(tag + ".impl"), ctx.path(tag + ".model")
    argv = [go, "drive"]
    if stats:
        argv += ["-stats", stats]
        if nohash:
            argv += ["-nohash"]
    rc, err = _sh(ctx, argv, stdin=ops, stdout=a)
    if rc == 124:
        raise ImplTimeout(ops)
    if rc != 0:
        raise RuntimeError("implementation driver failed rc=%d %s" % (rc, err[-500:]))
    rc, err = _sh(ctx, [model], stdin=ops, stdout=b)
    if rc != 0:
        raise RuntimeError("model driver failed rc=%d %s" % (rc, err[-500:]))
    return a, b


def _first_diff(a, b):
    """index of the first differing result line (None if equal)"""
    if subprocess.call(["cmp", "-s", a, b]) == 0:
        return None
    with open(a, "rb") as fa, open(b, "rb") as fb:
        i = 0
        while True:
            la, lb = fa.readline(), fb.readline()
            if la != lb:
                return i
            if not la:
                return None
            i += 1


def _history_at(ops, idx):
    """the op lines of the history (from its `reset`) that contains result line number idx"""
    cur, i = [], 0
    hit = False
    for l in open(ops, "r", errors="replace"):
        l = l.rstrip("\n")
        if not l or l.startswith("#"):
            continue
        if l == "reset":
            if hit:
                break
            cur = []
        cur.append(l)
        if i == idx:
            hit = True
        i += 1
    return cur


def _heap_out(ctx, heap, ops, tag):
    """run the heap-level model on an op file; returns its output path"""
    c = ctx.path(tag + ".heap")
    rc, err = _sh(ctx, [heap], stdin=ops, stdout=c)
    if rc != 0:
        raise RuntimeError("heap model driver failed rc=%d %s" % (rc, err[-500:]))
    return c


def _shard(ctx, go, model, kind, n, shard, heap=None):
    """one shard of a campaign: generate, run all sides, compare.  Returns a dict."""
    tag = "%s%02d" % (kind, shard)
    ops, gstat = ctx.path(tag + ".ops"), ctx.path(tag + ".gstat")
    rc, err = _sh(ctx, [go, GENCMD[kind], str(n), str(shard), str(NSHARDS)], stdout=ops, stderr=gstat)
    if rc != 0:
        raise RuntimeError("generator failed: rc=%d" % rc)
    stats = ctx.path(tag + ".stats")
    try:
        a, b = _pair(ctx, go, model, ops, tag, stats=stats, nohash=(kind != "rand"))
    except ImplTimeout:
        return dict(kind=kind, shard=shard, ops=ops, diff="timeout", gstat="",
                    stats=dict(histories=0, nontrivial=0, lines=0, histogram={}))
    d = _first_diff(a, b)
    hd, c = None, None
    if heap:
        c = _heap_out(ctx, heap, ops, tag)
        hd = _first_diff(a, c)
    res = dict(kind=kind, shard=shard, ops=ops, impl=a, model=b, diff=d, hdiff=hd, stats=json.load(open(stats)),
               gstat=open(gstat).read(), heap_lines=ctx.count_lines(c) if c else 0)
    if c:
        os.unlink(c)
    if d is None and hd is None and not (kind == "rand" and shard == 0):
        for f in (ops, a, b):
            os.unlink(f)
    return res


def _differs(ctx, go, model, lines, tag="dd"):
    ops = ctx.path(tag + ".ops")
    open(ops, "w").write("\n".join(lines) + "\n")
    a, b = _pair(ctx, go, model, ops, tag)
    return _first_diff(a, b) is not None


def _with_dumps(lines):
    """the op lines followed by a dump of every handle they bind: the views first (a view the specification
    says was not opened answers `nofs` there), then the root filespaces"""
    lines = [l for l in lines]
    while lines and lines[-1].startswith("dump "):
        lines.pop()
    return (lines + ["dump %s" % l.split(" ")[1] for l in lines if l.startswith("view ")]
            + ["dump %s" % l.split(" ")[1] for l in lines if l.startswith("new ")])


def _handle_probe(cut, impl_line, model_line):
    """When the two sides disagree about whether `Filespace(p)` handed out a view (ok against err), the
    disagreement is about the handle table, which no dump of a root shows: exercise the handle.  A write of a
    marker through it, then (by _with_dumps) its own dump and the dump of every root: a handle that must not
    exist answers `nofs` to all of them and the roots are unchanged."""
    f = cut[-1].split(" ") if cut else []
    if len(f) == 4 and f[0] == "view" and {impl_line, model_line} == {"ok", "err"}:
        return cut + ["write %s 70726f6265 01" % f[1]]
    return cut


def _judge(ctx, go, model, hist, what):
    """minimise a disagreeing history, ask the independent reference, record the violation"""
    # The histories of this family are sequential and the answers deterministic functions of the lines: a
    # difference seen in the campaign is re-run alone before anything is made of it.  One that does not show
    # again in 5 runs of the same lines came from the harness (an answer `hang` from a watchdog that expired
    # while the whole machine stood still - DESIGN 7.2), not from the code: it is recorded, not reported.
    if not any(_differs(ctx, go, model, hist, tag="re%d" % k) for k in range(5)):
        ctx.notes.append("%s: a difference seen in the campaign did not show again in 5 runs of the same "
                         "history (%d lines); not reported" % (what, len(hist)))
        ctx.extra.setdefault("transient_differences", []).append(dict(where=what, lines=hist[:40]))
        return False
    small = ctx.ddmin(hist, lambda ls: _differs(ctx, go, model, ls), keep_prefix=0)
    ops = ctx.path("min.ops")
    open(ops, "w").write("\n".join(small) + "\n")
    a, b = _pair(ctx, go, model, ops, "min")
    ia, mb = open(a).read().split("\n"), open(b).read().split("\n")
    d = _first_diff(a, b)
    # cut after the first differing line and look at the whole tree of every root filespace afterwards
    cut = small[:d + 1] if d is not None else small
    if d is not None and d < len(ia) and d < len(mb):
        cut = _handle_probe(cut, ia[d], mb[d])
    probe = _with_dumps(cut)
    open(ops, "w").write("\n".join(probe) + "\n")
    out = ctx.path("min.ref")
    _sh(ctx, [go, "refcheck"], stdin=ops, stdout=out)
    ref = [l.rstrip("\n") for l in open(out)]
    fails = [l for l in ref if l.startswith("FAIL ")]
    impl_line = ia[d] if d is not None and d < len(ia) else ""
    model_line = mb[d] if d is not None and d < len(mb) else ""
    concrete, why = False, ""
    if impl_line in ("panic", "hang", "nil"):
        concrete, why = True, "the implementation answered `%s`" % impl_line
    elif any(f.startswith("FAIL value") for f in fails):
        concrete, why = True, ("an observable value (content, listing, tree, query answer or kept buffer) differs "
                               "from the abstract tree; the model is proved to refine the specification, and the "
                               "independent reference agrees with the model")
    elif any(f.startswith("FAIL verdict") and "want=ok got=err" in f for f in fails):
        concrete, why = True, "a call the property says succeeds was refused"
    elif fails:
        why = ("only the ok/err verdict of a call the property does not constrain differs, the trees afterwards "
               "are identical")
    else:
        why = ("the independent reference agrees with the implementation: the Lean model (not the property) is "
               "contradicted on this input")
    ann = ["impl:  " + impl_line[:600], "model: " + model_line[:600]] + ["ref: " + f[:600] for f in fails[:3]]
    ctx.violation("impl-vs-spec" if concrete else "impl-vs-model",
                  "%s: implementation and model differ on result line %s of the minimised history (%d lines)\n%s"
                  % (what, d, len(small), why), lines=probe, annotations=ann, concrete=concrete)
    return concrete


def _oracle(ctx, go, n):
    """Spec vs implementation (no Lean model), sharded"""
    def one(shard):
        out = ctx.path("oracle%02d.out" % shard)
        rc, err = _sh(ctx, [go, "oracle", str(n), str(shard), str(NSHARDS)], stdout=out)
        if rc == 124:
            return ["FAIL value line=0 op=? want=termination got=oracle shard %d did not finish (an interface call never "
                    "returns)" % shard]
        if rc != 0:
            raise RuntimeError("oracle failed: " + err[-300:])
        return [l.rstrip("\n") for l in open(out)]
    concrete = False
    with concurrent.futures.ThreadPoolExecutor(NSHARDS) as ex:
        outs = list(ex.map(one, range(NSHARDS)))
    total = dict(histories=0, cases=0, fails=0)
    reported = 0
    for lines in outs:
        for l in lines:
            if l.startswith("oracle "):
                for tok in l.split()[1:]:
                    k, _, v = tok.partition("=")
                    if k in total:
                        total[k] += int(v)
                    else:
                        ctx.histogram["oracle:" + k] += int(v)
        # output is a sequence of blocks: FAIL lines of one history, then its `H` lines
        blocks, cur = [], None
        for l in lines:
            if l.startswith("FAIL "):
                if cur is None or cur[1]:
                    cur = ([], [])
                    blocks.append(cur)
                cur[0].append(l)
            elif l.startswith("H ") and cur is not None:
                cur[1].append(l[2:])
        for fails, hist in blocks:
            if reported >= 2:
                break
            reported += 1

            # minimise towards the strongest class seen: a value difference is not traded for a verdict one
            cls = "FAIL value" if any(f.startswith("FAIL value") for f in fails) else "FAIL "

            def still(ls, cls=cls):
                ops = ctx.path("odd.ops")
                open(ops, "w").write("\n".join(_with_dumps(ls)) + "\n")
                out = ctx.path("odd.out")
                _sh(ctx, [go, "refcheck"], stdin=ops, stdout=out)
                return any(l.startswith(cls) for l in open(out))
            core = ctx.ddmin(hist, still)
            # a `view` the reference refuses and the implementation grants: exercise the handle right after it (see
            # _handle_probe) so that the replay shows what is reachable through it, not only that it exists
            ops = ctx.path("odd.ops")
            open(ops, "w").write("\n".join(_with_dumps(core)) + "\n")
            out = ctx.path("odd.out")
            _sh(ctx, [go, "refcheck"], stdin=ops, stdout=out)
            granted = set(m.group(1) for l in open(out) if l.startswith("FAIL verdict") and "want=err got=ok" in l
                          for m in [re.search(r" op=view (\d+) ", l)] if m)
            probed = []
            for l in core:
                probed.append(l)
                ff = l.split(" ")
                if ff[0] == "view" and len(ff) == 4 and ff[1] in granted:
                    probed.append("write %s 70726f6265 01" % ff[1])
            small = _with_dumps(probed)
            ops = ctx.path("odd.ops")
            open(ops, "w").write("\n".join(small) + "\n")
            out = ctx.path("odd.out")
            _sh(ctx, [go, "refcheck"], stdin=ops, stdout=out)
            fails = [l.rstrip("\n") for l in open(out) if l.startswith("FAIL ")] or fails
            value = any(f.startswith("FAIL value") for f in fails) or any("want=ok got=err" in f for f in fails)
            concrete |= value
            ctx.violation("impl-vs-spec" if value else "impl-vs-model",
                          "property oracle (flat reference written from the property's sentences, no Lean model): "
                          "the implementation differs\n" + "\n".join(f[:500] for f in fails[:3]),
                          lines=small, annotations=[f[:600] for f in fails[:3]], concrete=value)
    ctx.evaluations += total["cases"]
    ctx.extra["oracle"] = total
    return concrete


def run(ctx):
    try:
        _run(ctx)
    finally:
        fs_tie.restore(ctx)   # a run against a scratch worktree leaves the extracted facts of /repo behind


def _run(ctx):
    failed = fs_tie.obligations(ctx)   # Props/C01 + the structural tie Goat.Tie.FSC01 (regenerated from ctx.repo)
    go = ctx.build_go("fs")
    model = ctx.build_model("m_fs")
    heap = ctx.build_model("m_fsheap")
    n_rand = ctx.pick(3000, 300000)
    n_exh = ctx.pick(2, 3)
    n_path = ctx.pick(8, 11)
    n_nest = ctx.pick(4, 5)
    n_oracle = ctx.pick(3000, 100000)
    ctx.rule = ("random: %d histories (reset, new 0 mem, 5..38 ops over the 16 Filespace methods + view/dump/keep/"
                "mutate/recheck, names {a,b,c}, depth<=4, spelling mutator, ~10%% climbing paths, contents incl. "
                "empty/1 byte/00 80 ff/4 KiB), %d shards from VERIF_SEED; exhaustive: every op sequence of length <= %d "
                "over {write,mkdir,remove,removeall,readdir}x12 path strings + copy x 12 x 12 (2 names x 6 spellings), "
                "each followed by a dump; pathenum: Clean/CleanPath/ReduceAbsPath on every string of length <= %d over "
                "{a . /}; nested views (random table entry, weight 6 of 108, and in the oracle stream): Filespace(p) on a "
                "view rooted 1..3 levels down (one call or a chain of views of views) with an unreduced spelling — "
                "inside (`x/y/../../t`, `/./t/z/..//u`: must open base++reduce p), self, escape (`../s`, `w/../../s`, "
                "`/../s`, `../<own name>`: the walk passes the view's root but stays inside the filespace: must fail), "
                "over (leaves the filespace) — each followed by a mutation and a dump THROUGH the new handle and a dump "
                "of the root; nested exhaustive: depths 1..3 x {one call, chain} x every spelling of <= %d elements over "
                "{a s .. . \"\"} with/without leading `/`, same follow-up.  non-trivial = the history has at least one "
                "successful mutation and one error; distinct = distinct op-line sequences (64-bit digest)"
                % (n_rand, NSHARDS, n_exh, n_path, n_nest))
    concrete_found = False
    try:
        # --- corpus + path functions (single stream)
        ops = ctx.path("corpus.ops")
        with open(ops, "w") as h:
            for f in sorted(glob.glob(os.path.join(lib.ROOT, "corpus", "C01", "*.ops"))):
                h.write("reset\n")
                h.writelines(l for l in open(f) if l.strip() and not l.startswith("#"))
            h.write("reset\npathenum %d\n" % n_path)
        a, b = _pair(ctx, go, model, ops, "corpus")
        d = _first_diff(a, b)
        ctx.evaluations += ctx.count_lines(a)
        ctx.extra["pathenum_strings"] = sum(3 ** k for k in range(n_path + 1))
        if d is not None:
            la = open(a).read().split("\n")
            lb = open(b).read().split("\n")
            if len(la[d].split(" ")) == 4 and len(lb[d].split(" ")) == 4 and not la[d].startswith(("tree", "list", "stat")):
                ctx.violation("impl-vs-model", "path.Clean / CleanPath / ReduceAbsPath differ from their Lean models "
                              "(columns: input clean cleanpath reduce)",
                              lines=["path reduce " + la[d].split(" ")[0], "path clean " + la[d].split(" ")[0]],
                              annotations=["impl:  " + la[d], "model: " + lb[d]], concrete=False)
            else:
                concrete_found |= _judge(ctx, go, model, _history_at(ops, d), "corpus")
        c = _heap_out(ctx, heap, ops, "corpus")
        hd = _first_diff(a, c)
        heap_lines = ctx.count_lines(c)
        if hd is not None and d is None:
            concrete_found |= _judge(ctx, go, heap, _history_at(ops, hd), "corpus (heap-level model m_fsheap)")
        # --- random + exhaustive campaigns, sharded over the cores
        jobs = ([("rand", n_rand, s) for s in range(NSHARDS)] + [("exh", n_exh, s) for s in range(NSHARDS)]
                + [("nest", n_nest, s) for s in range(NSHARDS)])
        with concurrent.futures.ThreadPoolExecutor(NSHARDS) as ex:
            results = list(ex.map(lambda j: _shard(ctx, go, model, *j, heap=heap), jobs))
    except RuntimeError as e:
        ctx.fatal(str(e))
    judged = 0
    exh = dict(histories=0, nontrivial=0, lines=0)
    rnd = dict(histories=0, nontrivial=0, lines=0)
    nst = dict(histories=0, nontrivial=0, lines=0)
    gen_counts = {}
    for r in results:
        st = r["stats"]
        acc = dict(rand=rnd, exh=exh, nest=nst)[r["kind"]]
        for k in acc:
            acc[k] += st[k]
        ctx.evaluations += st["lines"]
        for k, v in st["histogram"].items():
            ctx.histogram[dict(rand="", exh="exh:", nest="nestx:")[r["kind"]] + k] += v
        for hx_ in st.get("hashes", []):
            ctx.distinct.add(bytes.fromhex(hx_.rjust(16, "0")))
        for line in r["gstat"].split("\n"):
            if line.startswith("genstat "):
                for tok in line.split()[1:]:
                    k, _, v = tok.partition("=")
                    gen_counts[k] = gen_counts.get(k, 0) + int(v)
            elif line.startswith("exhstat ") and r["shard"] == 0:
                ctx.extra["exhaustive_space"] = dict(t.split("=") for t in line.split()[1:])
            elif line.startswith("neststat ") and r["shard"] == 0:
                ctx.extra["nested_view_space"] = dict(t.split("=") for t in line.split()[1:])
        if r["diff"] == "timeout":
            ctx.violation("impl-vs-model", "%s shard %d: the implementation-side driver did not finish within the time "
                          "limit (an interface call that never returns and keeps a core busy); the op file is the "
                          "generator output `fs %s %d %d %d` with VERIF_SEED=%d"
                          % (r["kind"], r["shard"], GENCMD[r["kind"]],
                             dict(rand=n_rand, exh=n_exh, nest=n_nest)[r["kind"]], r["shard"], NSHARDS, ctx.seed),
                          concrete=False)
        elif r["diff"] is not None and judged < 3:
            judged += 1
            concrete_found |= _judge(ctx, go, model, _history_at(r["ops"], r["diff"]),
                                     "%s shard %d" % (r["kind"], r["shard"]))
        elif r.get("hdiff") is not None and judged < 3:
            # implementation and value model agree, the heap-level model answers differently
            judged += 1
            concrete_found |= _judge(ctx, go, heap, _history_at(r["ops"], r["hdiff"]),
                                     "%s shard %d (heap-level model m_fsheap)" % (r["kind"], r["shard"]))
        heap_lines += r.get("heap_lines", 0)
    for k, v in gen_counts.items():
        ctx.histogram["gen:" + k] = v
    ctx.extra["random_run"] = rnd
    ctx.extra["exhaustive_run"] = exh
    ctx.extra["nested_view_run"] = nst
    ctx.extra["heap_model"] = dict(driver="m_fsheap", result_lines_compared=heap_lines,
                                   shards_differing=sum(1 for r in results if r.get("hdiff") is not None),
                                   note="every op file of the corpus, the random and the exhaustive campaign is also "
                                        "run through the heap-level model; its result stream is compared line by line "
                                        "with the implementation's")
    ctx.exhaustive = False  # the enumerated scope is complete to its bound; the property's domain is unbounded
    # enumerated sequences (both enumerations) are distinct by construction
    ctx.distinct_extra = exh["nontrivial"] + nst["nontrivial"]
    ctx.extra["distinct_nontrivial_breakdown"] = dict(random=len(ctx.distinct), enumerated=exh["nontrivial"],
                                                      enumerated_nested_views=nst["nontrivial"])
    # coverage gaps: every op must have been seen succeeding and failing
    gaps = []
    for cmd in ("write", "writer", "mkdir", "remove", "removeall", "copy", "copyfile", "copydir", "view"):
        for res in ("ok", "err"):
            if not ctx.histogram.get("%s:%s" % (cmd, res)):
                gaps.append("%s:%s" % (cmd, res))
    for key in ("readfile:data", "readfile:err", "readdir:list", "readdir:err", "reader:rd", "reader:err",
                "lstat:stat", "lstat:err", "isexist:t", "isexist:f", "isfile:t", "isfile:f", "isdir:t", "isdir:f",
                "dump:tree", "dump:err", "recheck:data", "recheck:list", "mutate:ok"):
        if not ctx.histogram.get(key):
            gaps.append(key)
    # samples: the first history of shard 0 with both streams
    r0 = [r for r in results if r["kind"] == "rand" and r["shard"] == 0][0]
    try:
        hist = _history_at(r0["ops"], 0)
        ia = open(r0["impl"]).read().split("\n")[:len(hist)]
        mb = open(r0["model"]).read().split("\n")[:len(hist)]
        ctx.samples.append(dict(ops=[h[:200] for h in hist], impl=[x[:200] for x in ia], model=[x[:200] for x in mb]))
    except OSError:
        pass
    # --- Spec vs implementation without the model
    try:
        concrete_found |= _oracle(ctx, go, n_oracle)
    except RuntimeError as e:
        ctx.fatal(str(e))
    # the nested-view family (fsdrv/nest.go): measured reach per campaign, and what would silently cut it
    fam = {k: v for k, v in sorted(ctx.histogram.items())
           if any(k.startswith(pre + t) for pre in ("", "nestx:", "oracle:") for t in ("nest:", "nestuse:"))}
    ctx.extra["nested_view_family"] = fam
    for pre, kinds in (("", ("inside:ok", "self:ok", "escape:err", "over:err")),
                       ("nestx:", ("inside:ok", "escape:err", "over:err")),
                       ("oracle:", ("inside:ok", "self:ok", "escape:err", "over:err"))):
        for k in kinds:
            if not fam.get(pre + "nest:" + k):
                gaps.append(pre + "nest:" + k)
        for k in ("inside:tree", "inside:ok", "escape:nofs"):
            if not fam.get(pre + "nestuse:" + k):
                gaps.append(pre + "nestuse:" + k)
    unbound = sum(v for k, v in fam.items() if "nestuse:" not in k and k.endswith(":nofs"))
    opened = sum(v for k, v in fam.items() if "nestuse:" not in k)
    if opened and unbound * 10 > opened:
        ctx.notes.append("nested-view family: %d of %d tagged `view` lines went through an unbound parent (`nofs`): the "
                         "generator's idea of where its handles are rooted is off" % (unbound, opened))
    rejected = {k: v for k, v in ctx.histogram.items() if k.endswith(":bad-op")}
    ctx.extra["rejected_lines"] = dict(bad_op=sum(rejected.values()), by_word=rejected,
                                       view_through_unbound_parent=unbound)
    if rejected:
        ctx.notes.append("the line protocol rejected %d generated lines (bad-op): %s"
                         % (sum(rejected.values()), ", ".join(sorted(rejected))))
    if gaps:
        ctx.notes.append("coverage gap: no case of " + ", ".join(gaps))
    ctx.assumptions += [
        "value model: Go slices and maps behave as values (no aliasing).  heap model (snapshot clause): `make`+`copy` "
        "gives storage disjoint from everything allocated before; `append(s, x...)` writes only into the array of s "
        "(when it has room) or into a fresh array, and only reads x; which of the two happens is a parameter "
        "(`Cfg.realloc`) the theorems quantify over; `append(a[:i], a[i+1:]...)` shifts inside the array of a",
        "heap model: a directory carries both its node array (heap object) and the logical content `k` of "
        "d.nodes[:len]; ReadDir copies `k.entries` and removeNodeByName takes the position from `k` — proved equal to "
        "reading the array (listing_sync) for the repaired code; Reader.Read buffers are fresh caller buffers; "
        "os.FileInfo values of listings are observed as (Name, IsDir) and give no write access",
        "the tie heap model <-> /repo is (a) the differential implementation vs m_fsheap with alias probes "
        "(keep/mutate/recheck after write, writer, readfile, readdir, reader) and (b) the structural tie "
        "lean/Goat/Tie/FSC01.lean: the copy/share points listed with file:line in lean/Goat/Model/MemFSHeap.lean are "
        "extracted from the sources on every run and compared by `decide` (syntactic: the text of the named functions)",
        "the harness observes the filespace through the public interface only; FileInfo of listed entries is observed "
        "as (Name, IsDir), Lstat as (Name, IsDir, Size of a file)",
        "Writer/Reader handles are used atomically (open, writes/reads, close)",
    ]
    ctx.trusted_base.append("the flat Go reference of `fs oracle` (written from the property's sentences) as second "
                            "opinion when implementation and model differ")
    ctx.trusted_base.append("Go slice semantics as modelled in Model/MemFSHeap.lean (append into spare capacity or a "
                            "fresh array, copy, re-slicing); placement of copies in the heap model = placement in "
                            "memfs (structural tie tie_* + differential)")
    if failed:
        ctx.obligation_violations(failed, searcher=lambda: concrete_found)
    if not ctx.quick():
        ctx.leanchecker(["Goat.Props.C01", fs_tie.tie_module(ctx)])
        if any(not o["ok"] for o in ctx.obligations) and not failed:
            ctx.obligation_violations([o for o in ctx.obligations if not o["ok"]])


def replay(ctx, path):
    go = ctx.build_go("fs")
    model = ctx.build_model("m_fs")
    heap = ctx.build_model("m_fsheap")
    ops = ctx.path("replay.ops")
    open(ops, "w").write("\n".join(lib.replay_ops(path)) + "\n")
    a, b = _pair(ctx, go, model, ops, "replay")
    c = _heap_out(ctx, heap, ops, "replay")
    rc = 0
    lines = [l for l in open(ops).read().split("\n") if l]
    for o, x, y, z in zip(lines, open(a).read().split("\n"), open(b).read().split("\n"),
                          open(c).read().split("\n")):
        print("op    ", o[:300])
        print("impl  ", x[:300])
        print("model ", y[:300])
        print("heap  ", z[:300])
        if x != y or x != z or x in ("panic", "hang"):
            rc = 1
    out = ctx.path("replay.ref")
    _sh(ctx, [go, "refcheck"], stdin=ops, stdout=out)
    for l in open(out):
        if l.startswith(("FAIL", "refcheck")):
            print("ref   ", l.rstrip("\n")[:400])
            if l.startswith("FAIL"):
                rc = 1
    print("replay:", "still failing" if rc else "implementation, both models and reference agree")
    return rc


META["level_claimed"]["text"] += (' Added: view_escape_refused (a sub-view path that leaves the view is refused, for every spelling) with the nested-view family (views of views, exhaustive spellings up to 4/5 elements) on the correspondence side.')
