"""C02 — the disk filespace obeys the same contract as the in-memory one.

Theorems: lean/Goat/Props/C02.lean — the model lean/Goat/Model/DiskFS.lean (every method of
diskfs.Filespace = ReduceAbsPath + the host calls it makes, the composite algorithms of diskfs.WriteFile,
Writer, disk.Copy / CopyDirectory / CopyFile step by step, over an explicit POSIX-like host) refines the
point-wise specification lean/Goat/Spec/FS.lean under the property's precondition `Pre`; with C01's
`memfs_run_refines` the memory model and the disk model answer alike and end with equal trees on every
history inside `Pre` (any length, any spelling, child views of any depth); outside `Pre` no call panics, no
call changes a path that is not addressed, nothing outside the root directory of the host is touched.

Correspondence (every run), all on the same op files (`fs` line protocol; even ids = disk filespace in a
fresh directory under /var/tmp with sentinels next to the root, odd ids = its memory twin):
  (a) corpus/C02/*.ops (past failures, run first),
  (b) `disk gen`: sharded random histories, 4 of 5 entirely inside `Pre`, the others leaving it; real
      diskfs + real memfs (`disk drive`) against the compiled Lean models (`m_disk`), line by line, with a
      full tree walk of both sides after every mutating call and snapshots of the host above the root,
  (c) `disk oracle`: the property evaluated on the implementation alone (no Lean model): inside `Pre`
      disk = mem = flat reference, results step by step and full trees after every call (ReadDir as a set);
      outside `Pre` no panic, no change outside the addressed paths, host above the root byte-identical.

Structural tie (every run, DESIGN 1.4): `harness/cmd/fsfacts facts C02` (go/ast) rewrites
lean/Goat/Tie/ExtractedFSC02.lean from the sources under test — the path discipline and the host calls of every
method of diskfs.Filespace, the flag sets of its os.OpenFile calls, FileHandler.Close, disk.Copy / CopyDirectory /
CopyFile / IsExist / IsDir / IsFile / MkdirAll, ReduceAbsPath — and the theorems `tie_*` of lean/Goat/Tie/FSC02.lean
compare them by `decide` with the steps Model/DiskFS.lean mirrors.  They are obligations of the check: a failing
one is followed by the search below and ends as `no-failing-input-found` when nothing concrete turns up.

A difference found by (c), or a difference of (b) that (c)'s judge confirms on the minimised history, is a
counterexample to the property (`impl-vs-spec`); a difference of (b) that the judge does not confirm is
reported as `impl-vs-model … no-failing-input-found`.
"""
import concurrent.futures
import glob
import json
import os
import subprocess

import fs_tie
import lib

META = dict(
    level_claimed=dict(
        category="proof",
        text="proof, partial. Lean 4 theorems about an executable model of diskfs.Filespace over an explicit "
             "POSIX-like host (flat path map with the failure conditions of the system calls used): under the "
             "property's precondition Pre every call refines the point-wise filespace specification "
             "(disk_refines_pre); by induction over all histories and with C01's memfs_run_refines the memory "
             "model and the disk model produce the same results and equal trees, also behind child views "
             "(mem_disk_agree); no call panics, every call changes only addressed paths, and nothing outside the "
             "root directory of the host changes (no_panic, disk_fail_clean, host_confined); outside Pre calls "
             "are refused except in the listed tolerated classes (disk_refused_outside_pre_partial).  Every backend "
             "pair — any memory handle (root or child view at any base) against any disk handle (root or child view) "
             "— agrees on every history inside the precondition, the only difference being the name Lstat reports "
             "for the pair's own root (pair_agree, pair_step_only_difference); every call, inside or outside Pre, "
             "reads the host only at and below the root directory (host_reads_confined, host_reads_confined_run; the "
             "root directory must exist: host_reads_root_needed).  The model "
             "is tied to /repo on every run by the differential and by a structural tie: go/ast normal forms of every "
             "method of diskfs.Filespace (each path argument reduced first and the error returned; the host call made "
             "on root+reduced; Writer's O_WRONLY|O_CREATE|O_TRUNC; WriteFile = MkdirAll(dir) then write; Remove/"
             "RemoveAll refuse the root) and of disk.Copy/CopyDirectory (walk collected before the first copy)/CopyFile, "
             "regenerated from the sources and compared with the model's steps by `decide` "
             "(lean/Goat/Tie/FSC02.lean, theorems tie_*).",
        design_ref="DESIGN.md 3 C02"),
    level_note="PARTIAL: that the Linux file system behaves like the modelled host (os.MkdirAll, OpenFile flags, "
               "ioutil.ReadDir, os.Remove/RemoveAll, Stat/Lstat, filepath.Walk order, trailing-slash rules) is an "
               "ASSUMPTION validated by the differential on every run, not a theorem; so is the correspondence of "
               "the hand-written model to /repo, which is checked (a) by that differential and (b) by the structural "
               "tie lean/Goat/Tie/FSC02.lean — SYNTACTIC: go/ast normal forms of the methods of diskfs.Filespace and of "
               "the helpers in filesystem/disk compared by `decide` with the steps the model mirrors, trusted as a "
               "reading of the text of those functions, blind to what os/ioutil/filepath do. Names with NUL bytes, names longer than 255 bytes, paths beyond "
               "PATH_MAX, permissions, links and a full disk are outside the model and are not generated. The "
               "moment at which a Reader reports io.EOF (with the last bytes in memory, with the next empty read on "
               "disk) is left open by io.Reader and is not compared. Trusted: Lean kernel (axioms "
               "propext/Classical.choice/Quot.sound only), the harness, the flat Go reference used by the oracle.",
    technique="Lean 4 proof (refinement of a host-level model to the point-wise spec under Pre, induction over "
              "histories, simulation with the C01 memory model) + structural tie (go/ast normal forms of diskfs/disk "
              "vs hand-written expectations, `decide`) + three-way differential correspondence "
              "(real diskfs / real memfs / compiled Lean models) + property oracle on the implementation alone",
)

NSHARDS = 16


def _sh(ctx, argv, stdin=None, stdout=None, stderr=None, timeout=None):
    e = ctx.goenv()
    e.setdefault("GOMEMLIMIT", "3GiB")
    e["C02_SCRATCH"] = ctx.c02_scratch
    fin = open(stdin, "rb") if stdin else subprocess.DEVNULL
    fout = open(stdout, "wb") if stdout else subprocess.DEVNULL
    ferr = open(stderr, "wb") if stderr else subprocess.PIPE
    try:
        p = subprocess.run(argv, stdin=fin, stdout=fout, stderr=ferr, env=e,
                           timeout=timeout or ctx.pick(300, 2400))
        return p.returncode, (p.stderr or b"").decode("utf-8", "replace") if not stderr else ""
    except subprocess.TimeoutExpired:
        return 124, "timeout"
    finally:
        for h in (fin, fout, ferr):
            if hasattr(h, "close"):
                h.close()


class ImplTimeout(Exception):
    """the implementation-side driver did not finish in time"""


def _pair(ctx, go, model, ops, tag, stats=None):
    """run the real code and the Lean models on an op file; returns (impl_out, model_out)"""
    a, b = ctx.path(tag + ".impl"), ctx.path(tag + ".model")
    argv = [go, "drive"] + (["-stats", stats] if stats else [])
    rc, err = _sh(ctx, argv, stdin=ops, stdout=a)
    if rc == 124:
        raise ImplTimeout(ops)
    if rc != 0:
        raise RuntimeError("implementation driver failed rc=%d %s" % (rc, err[-500:]))
    rc, err = _sh(ctx, [model], stdin=ops, stdout=b)
    if rc != 0:
        raise RuntimeError("model driver failed rc=%d %s" % (rc, err[-500:]))
    return a, b


def _first_diff(a, b):
    if subprocess.call(["cmp", "-s", a, b]) == 0:
        return None
    with open(a, "rb") as fa, open(b, "rb") as fb:
        i = 0
        while True:
            la, lb = fa.readline(), fb.readline()
            if la != lb:
                return i
            if not la:
                return None
            i += 1


def _history_at(ops, idx):
    """the op lines of the history (from its `reset`) that contains result line number idx"""
    cur, i, hit = [], 0, False
    for l in open(ops, "r", errors="replace"):
        l = l.rstrip("\n")
        if not l or l.startswith("#"):
            continue
        if l == "reset":
            if hit:
                break
            cur = []
        cur.append(l)
        if i == idx:
            hit = True
        i += 1
    return cur


def _twin(l):
    """the memory-side line of a disk-side call line, or None"""
    t = l.split(" ")
    if t[0] in ("reset", "new", "dump", "hostsnap") or len(t) < 3:
        return None
    try:
        if int(t[1]) % 2:
            return None
        t[1] = str(int(t[1]) + 1)
        if t[0] == "view":
            if int(t[2]) % 2:
                return None
            t[2] = str(int(t[2]) + 1)
    except ValueError:
        return None
    return " ".join(t)


def _units(lines):
    """group a history into units that must stay together: a call on both sides, or a single line"""
    out, i = [], 0
    while i < len(lines):
        if i + 1 < len(lines) and _twin(lines[i]) == lines[i + 1]:
            out.append(lines[i] + "\n" + lines[i + 1])
            i += 2
        else:
            out.append(lines[i])
            i += 1
    return out


def _flat(units):
    return [l for u in units for l in u.split("\n")]


def _judge(ctx, go, lines, tag="judge"):
    """the oracle's verdict on a history: list of FAIL lines"""
    ops, out = ctx.path(tag + ".ops"), ctx.path(tag + ".out")
    open(ops, "w").write("\n".join(lines) + "\n")
    rc, err = _sh(ctx, [go, "judge"], stdin=ops, stdout=out)
    if rc == 124:
        return ["FAIL value line=0 op=? want=termination got=the history does not finish"]
    if rc != 0:
        raise RuntimeError("judge failed: " + err[-300:])
    return [l.rstrip("\n") for l in open(out) if l.startswith("FAIL ")]


def _differs(ctx, go, model, lines, tag="dd"):
    ops = ctx.path(tag + ".ops")
    open(ops, "w").write("\n".join(lines) + "\n")
    a, b = _pair(ctx, go, model, ops, tag)
    return _first_diff(a, b) is not None


def _keep(units):
    """number of leading units (reset / new / the preamble that makes the memory twin a view) every candidate keeps"""
    n = 0
    while n < len(units) and (units[n].split(" ")[0] in ("reset", "new") or " 101 " in units[n] + " "):
        n += 1
    return n


def _report_oracle(ctx, go, hist, fails, what):
    """minimise a history the oracle rejects and record the violation (concrete: the implementation alone)"""
    units = _units(hist)
    small = _flat(ctx.ddmin(units, lambda us: bool(_judge(ctx, go, _flat(us), "ddj")), keep_prefix=_keep(units)))
    fails = _judge(ctx, go, small, "ddj") or fails
    value = any(f.startswith("FAIL value") for f in fails) or any("got=disk=err" in f or "got=disk=ok" in f for f in fails)
    ctx.violation("impl-vs-spec",
                  "%s: the property evaluated on the implementation alone fails (real diskfs against real memfs and "
                  "the flat reference; no Lean model involved)\n%s" % (what, "\n".join(f[:600] for f in fails[:3])),
                  lines=small, annotations=[f[:700] for f in fails[:3]], concrete=True)
    return value


def _judge_diff(ctx, go, model, hist, what):
    """implementation and model differ on a history: ask the oracle, minimise, record"""
    fails = _judge(ctx, go, hist)
    if fails:
        _report_oracle(ctx, go, hist, fails, what + " (found as an implementation/model difference)")
        return True
    units = _units(hist)
    small = _flat(ctx.ddmin(units, lambda us: _differs(ctx, go, model, _flat(us)), keep_prefix=_keep(units)))
    ops = ctx.path("min.ops")
    open(ops, "w").write("\n".join(small) + "\n")
    a, b = _pair(ctx, go, model, ops, "min")
    d = _first_diff(a, b)
    ia, mb = open(a).read().split("\n"), open(b).read().split("\n")
    ann = []
    if d is not None:
        ann = ["op:    " + (small[d] if d < len(small) else "")[:300], "impl:  " + ia[d][:600], "model: " + mb[d][:600]]
    bad = d is not None and ia[d] in ("panic", "hang", "nil")
    ctx.violation("impl-vs-spec" if bad else "impl-vs-model",
                  "%s: the real code and the Lean model differ on result line %s of the minimised history (%d lines); "
                  "the oracle (property on the implementation alone) accepts this history, so the difference lies "
                  "outside what the property constrains or in the host assumptions of the model" % (what, d, len(small)),
                  lines=small, annotations=ann, concrete=bad)
    return bad


def _gen_shard(ctx, go, model, n, shard):
    tag = "gen%02d" % shard
    ops, gstat, stats = ctx.path(tag + ".ops"), ctx.path(tag + ".gstat"), ctx.path(tag + ".stats")
    rc, err = _sh(ctx, [go, "gen", str(n), str(shard), str(NSHARDS)], stdout=ops, stderr=gstat)
    if rc != 0:
        raise RuntimeError("generator failed: rc=%d" % rc)
    try:
        a, b = _pair(ctx, go, model, ops, tag, stats=stats)
    except ImplTimeout:
        return dict(shard=shard, ops=ops, diff="timeout", gstat="",
                    stats=dict(histories=0, nontrivial=0, lines=0, histogram={}))
    d = _first_diff(a, b)
    res = dict(shard=shard, ops=ops, impl=a, model=b, diff=d, stats=json.load(open(stats)), gstat=open(gstat).read())
    if d is None and shard != 0:
        for f in (ops, a, b):
            os.unlink(f)
    return res


def _oracle_shard(ctx, go, n, shard):
    out = ctx.path("oracle%02d.out" % shard)
    rc, err = _sh(ctx, [go, "oracle", str(n), str(shard), str(NSHARDS)], stdout=out)
    if rc == 124:
        return ["FAIL value line=0 op=? want=termination got=oracle shard %d did not finish" % shard]
    if rc != 0:
        raise RuntimeError("oracle failed: " + err[-300:])
    return [l.rstrip("\n") for l in open(out)]


def _blocks(lines):
    """(fails, history) blocks of an oracle output"""
    blocks, cur = [], None
    for l in lines:
        if l.startswith("FAIL "):
            if cur is None or cur[1]:
                cur = ([], [])
                blocks.append(cur)
            cur[0].append(l)
        elif l.startswith("H ") and cur is not None:
            cur[1].append(l[2:])
    return blocks


def _corpus_lines():
    lines = []
    for f in sorted(glob.glob(os.path.join(lib.ROOT, "corpus", "C02", "*.ops"))):
        lines.append("reset")
        lines += [l.rstrip("\n") for l in open(f) if l.strip() and not l.startswith("#")]
    return lines


def _rmtree(d):
    """remove a scratch directory (rm copes with trees thousands of levels deep, shutil.rmtree does not)"""
    subprocess.call(["rm", "-rf", d])


def run(ctx):
    ctx.c02_scratch = "/var/tmp/c02-run-%d" % os.getpid()
    _rmtree(ctx.c02_scratch)
    os.makedirs(ctx.c02_scratch)
    try:
        _run(ctx)
    finally:
        _rmtree(ctx.c02_scratch)
        fs_tie.restore(ctx)   # a run against a scratch worktree leaves the extracted facts of /repo behind


def _run(ctx):
    failed = fs_tie.obligations(ctx)   # Props/C02 + the structural tie Goat.Tie.FSC02 (regenerated from ctx.repo)
    go = ctx.build_go("disk")
    model = ctx.build_model("m_disk")
    n_gen = ctx.pick(2400, 40000)
    n_oracle = ctx.pick(2400, 40000)
    ctx.rule = ("histories: reset, new 0 disk (real diskfs in a fresh directory under /var/tmp with sentinel files and "
                "directories next to its root), new 1 mem, then 6..35 calls each made on BOTH filespaces (16 methods incl. "
                "Filespace = child views at any depth, used for later calls), names {a,b,c} + rare legal exotic names and "
                "the sentinels' names, depth <= 5, every path re-spelled (., //, leading /, x/.., trailing /), ~6%% climbing "
                "or root spellings, contents incl. empty / 1 byte / 00 80 ff / 4 KiB; arguments drawn against a tracked "
                "reference tree so that 4 of 5 (gen) resp. 2 of 3 (oracle) histories stay inside the precondition Pre and "
                "the others leave it (missing source, missing destination parent, existing copy destination, type "
                "conflicts, Writer below a missing parent, RemoveAll of nothing, Reader of a directory, views of files, "
                "views whose directory is gone). gen: %d histories against the Lean models (dump of both trees after every "
                "mutating call, host snapshots); oracle: %d histories, property on the implementation alone; %d shards "
                "each from VERIF_SEED. non-trivial = the history has at least one successful mutation and one error; "
                "distinct = distinct op-line sequences (64-bit digest)" % (n_gen, n_oracle, NSHARDS))
    concrete = False
    try:
        # --- corpus first: the oracle's verdict on every file, then real code against the models
        corpus = _corpus_lines()
        if corpus:
            ctx.extra["corpus_lines"] = len(corpus)
            hists, cur = [], None
            for l in corpus:
                if l == "reset":
                    cur = []
                    hists.append(cur)
                cur.append(l)
            for hl in hists:
                fails = _judge(ctx, go, hl, "corpusj")
                if fails:
                    concrete |= _report_oracle(ctx, go, hl, fails, "corpus")
                    break
            ops = ctx.path("corpus.ops")
            open(ops, "w").write("\n".join(corpus) + "\n")
            a, b = _pair(ctx, go, model, ops, "corpus")
            ctx.evaluations += ctx.count_lines(a)
            d = _first_diff(a, b)
            if d is not None and not ctx.violations:
                concrete |= _judge_diff(ctx, go, model, _history_at(ops, d), "corpus")
        # --- the two campaigns, sharded over the cores (each process works in its own temp directories).
        # A witness of the corpus that fails again is reported at once: the campaigns would only find it again
        # (and, for the defects recorded there, slowly: thousands of nested directories per call).
        if ctx.violations:
            ctx.notes.append("a corpus witness fails: the random campaigns were not run")
            n_gen = n_oracle = 0
        with concurrent.futures.ThreadPoolExecutor(NSHARDS) as ex:
            gens = list(ex.map(lambda s: _gen_shard(ctx, go, model, n_gen, s), range(NSHARDS)))
        with concurrent.futures.ThreadPoolExecutor(NSHARDS) as ex:
            orcs = list(ex.map(lambda s: _oracle_shard(ctx, go, n_oracle, s), range(NSHARDS)))
        # --- oracle results
        total = dict(histories=0, cases=0, fails=0, inside=0, outside=0, after=0, treewalks=0, hostsnaps=0)
        reported = 0
        for lines in orcs:
            for l in lines:
                if l.startswith("oracle "):
                    for tok in l.split()[1:]:
                        k, _, v = tok.partition("=")
                        if k in total:
                            total[k] += int(v)
                        else:
                            ctx.histogram["oracle:" + k] += int(v)
            for fails, hist in _blocks(lines):
                if reported >= 2:
                    break
                reported += 1
                if hist:
                    concrete |= _report_oracle(ctx, go, hist, fails, "oracle")
                else:
                    ctx.violation("impl-vs-spec", "oracle: " + "\n".join(fails[:3]), concrete=False)
        ctx.evaluations += total["cases"]
        ctx.extra["oracle"] = total
        # --- correspondence results
        judged = 0
        acc = dict(histories=0, nontrivial=0, lines=0)
        gen_counts = {}
        for r in gens:
            st = r["stats"]
            for k in acc:
                acc[k] += st[k]
            ctx.evaluations += st["lines"]
            for k, v in st["histogram"].items():
                ctx.histogram[k] += v
            for h_ in st.get("hashes", []):
                ctx.distinct.add(bytes.fromhex(h_.rjust(16, "0")))
            for line in r["gstat"].split("\n"):
                if line.startswith("genstat "):
                    for tok in line.split()[1:]:
                        k, _, v = tok.partition("=")
                        gen_counts[k] = gen_counts.get(k, 0) + int(v)
            if r["diff"] == "timeout":
                ctx.violation("impl-vs-model", "gen shard %d: the implementation-side driver did not finish within the "
                              "time limit; the op file is the output of `disk gen %d %d %d` with VERIF_SEED=%d"
                              % (r["shard"], n_gen, r["shard"], NSHARDS, ctx.seed), concrete=False)
            elif r["diff"] is not None and judged < 2 and reported < 2:
                judged += 1
                concrete |= _judge_diff(ctx, go, model, _history_at(r["ops"], r["diff"]), "gen shard %d" % r["shard"])
        for k, v in gen_counts.items():
            ctx.histogram["gen:" + k] = v
        ctx.extra["correspondence_run"] = acc
        ctx.exhaustive = False
        # samples: the first history of shard 0 with both streams
        r0 = gens[0]
        if "impl" in r0 and os.path.getsize(r0["ops"]):
            hist = _history_at(r0["ops"], 0)
            ia = open(r0["impl"]).read().split("\n")[:len(hist)]
            mb = open(r0["model"]).read().split("\n")[:len(hist)]
            ctx.samples.append(dict(ops=[h[:160] for h in hist[:40]], impl=[x[:160] for x in ia[:40]],
                                    model=[x[:160] for x in mb[:40]]))
    except RuntimeError as e:
        ctx.fatal(str(e))
    # coverage gaps: every mutating call seen succeeding and failing, every query both ways, both regimes
    gaps = []
    for cmd in ("write", "writer", "mkdir", "remove", "removeall", "copy", "copyfile", "copydir", "view"):
        for res in ("ok", "err"):
            if not ctx.histogram.get("%s:%s" % (cmd, res)):
                gaps.append("%s:%s" % (cmd, res))
    for key in ("readfile:data", "readfile:err", "readdir:list", "readdir:err", "reader:rd", "reader:err", "lstat:stat",
                "lstat:err", "isexist:t", "isexist:f", "isfile:t", "isfile:f", "isdir:t", "isdir:f", "dump:tree",
                "hostsnap:host", "gen:copy:into-source", "gen:histories:left-pre", "gen:histories:memview-vs-diskroot"):
        if not ctx.histogram.get(key):
            gaps.append(key)
    for cmd in ("writer", "removeall", "copyfile", "copydir", "copy", "reader", "lstat", "view"):
        if not ctx.histogram.get("gen:outside:" + cmd):
            gaps.append("outside Pre: " + cmd)
    if gaps:
        ctx.notes.append("coverage gap: no case of " + ", ".join(gaps))
    ctx.assumptions += [
        "the Linux file system under /var/tmp behaves like the host of Goat/Model/DiskFS.lean (missing component = "
        "ENOENT, file on the way = ENOTDIR, create needs an existing parent directory, open-for-write of a directory "
        "fails, Remove needs an empty directory, RemoveAll of nothing succeeds, ReadDir and filepath.Walk in byte "
        "order of names, a trailing slash demands a directory): validated by the differential of every run, not proved",
        "names are free of NUL and '/', at most 255 bytes, paths shorter than PATH_MAX; no links, permissions, quotas; "
        "nothing else writes to the filespace's directory during a history",
        "Writer/Reader handles are used atomically (open, writes/reads, close); io.EOF timing of Read is not compared",
        "FileInfo is observed as (Name, IsDir) in listings and (Name, IsDir, Size of a file) for Lstat; the name of a "
        "root filespace's own directory differs by construction (ROOT / the directory's name) and lies outside Pre",
    ]
    ctx.trusted_base.append("the flat Go reference fsdrv.Ref (twin of Goat/Spec/FS.lean) that tells the oracle what the "
                            "specified tree is and hence which calls lie inside Pre")
    if failed:
        ctx.obligation_violations(failed, searcher=lambda: concrete)
    if not ctx.quick():
        ctx.leanchecker(["Goat.Props.C02", fs_tie.tie_module(ctx)])
        if any(not o["ok"] for o in ctx.obligations) and not failed:
            ctx.obligation_violations([o for o in ctx.obligations if not o["ok"]])


def replay(ctx, path):
    ctx.c02_scratch = "/var/tmp/c02-run-%d" % os.getpid()
    os.makedirs(ctx.c02_scratch, exist_ok=True)
    try:
        go = ctx.build_go("disk")
        model = ctx.build_model("m_disk")
        lines = lib.replay_ops(path)
        if lines and lines[0] != "reset":
            lines = ["reset"] + lines
        ops = ctx.path("replay.ops")
        open(ops, "w").write("\n".join(lines) + "\n")
        a, b = _pair(ctx, go, model, ops, "replay")
        rc = 0
        for o, x, y in zip(lines, open(a).read().split("\n"), open(b).read().split("\n")):
            print("op    ", o[:300])
            print("impl  ", x[:300])
            if x != y:
                print("model ", y[:300])
                rc = 1
            if x in ("panic", "hang", "nil"):
                rc = 1
        for f in _judge(ctx, go, lines, "replayj"):
            print("oracle", f[:600])
            rc = 1
        print("replay:", "still failing" if rc else "real disk, real mem, the Lean models and the oracle agree")
        return rc
    finally:
        _rmtree(ctx.c02_scratch)
