"""C03 — a filespace never reaches outside its root, whatever path it is given.

Theorems: lean/Goat/Props/C03.lean
  (a) lexical, all byte strings: ReduceAbsPath yields real names only; the string a view builds (ANY stored base,
      "/", the reduced argument) resolves to the base's normal form followed by the argument's; it fails exactly
      when the walk leaves the root; path.Clean keeps the normal form of a non-climbing path;
  (b) on the specification lean/Goat/Spec/FS.lean: `confined` (a call through a view rooted at `base` changes no
      path that is not at or below `base`, all 16 methods, both arguments of the copies), `result_local` (answers
      and effects are a function of the tree below `base`: nothing outside is read or listed);
  (c) on the view-stack model lean/Goat/Model/Views.lean (memory wrapper, sub-path view, read-only mask, encrypted
      view, cache child, disk; a stack is a list of layers of any depth): `stack_refines` by induction on the list,
      hence `stack_confined`; `stack_delegates_under` (whatever the bottom is, it is only asked about paths at or
      below the stack's root); `climbing_rejected`, `root_removal_refused`, `readonly_never_mutates`,
      `encrypted_delegates_names`, `view_of_stack` (views of views).

Structural tie (every run, DESIGN 1.4): `harness/cmd/fsfacts facts C03` (go/ast) rewrites
lean/Goat/Tie/ExtractedFSC03.lean from the sources under test — for EVERY method of the memory wrapper, the sub-path
view, the disk filespace, the read-only mask and the encrypted view what it does with each path parameter (reduced
first and the error returned / handed on unchanged / never touched) and what it then calls, the constructors
NewFilespaceWrapper / NewSubFS / NewReadonlyFS, Cache.Filespace, ReduceAbsPath — and the theorems `tie_*` of
lean/Goat/Tie/FSC03.lean compare them by `decide` with the path plumbing Model/Views.lean assumes.  They are
obligations of the check: a failing one is followed by the search below (differential, sweep, oracle) and ends as
`no-failing-input-found` when nothing concrete turns up.

Every run (harness/cmd/views, model driver m_views):
  1. differential: random histories through random view stacks (1..4 layers over mem / spy / disk / cache), real code
     against the model, line by line.  Over mem every answer, every dump and every `chk` is compared; over the spy
     bottom the exact calls that reach the bottom; over opaque bottoms (disk, anything at or above a cache) the
     model predicts what the stack refuses (`q` words: model `refused` => implementation `refused`).
  2. exhaustive sweep (property on the implementation alone): 21 fixed stacks x 19 operation/argument positions x
     every path string of <= N segments over {a, in, ., .., ""} with/without leading/trailing "/", after EACH call
     everything outside the child root byte-identical (bottom filespace, cache view, host directory above a disk
     root), no sentinel content or name in any answer or inside the root, no panic, no hang.
  3. oracle: random histories through random stacks (real ciphers, disk, cache) with the same check after every call.
"""
import concurrent.futures
import glob
import json
import os
import re
import subprocess

import fs_tie
import lib

META = dict(
    level_claimed=dict(
        category="proof",
        text="Lean 4 theorems, all unbounded: (a) for all byte strings, ReduceAbsPath returns real names only and the "
             "path a view builds from ANY stored base string and a reduced argument resolves to base ++ argument (or "
             "climbs as a whole when the base climbs); it fails iff walking the segments leaves the root; (b) on the "
             "point-wise filespace specification, a call through a view rooted at `base` (all 16 methods, both "
             "arguments of the copies) changes no path outside `base` (`confined`) and its answers and effects are a "
             "function of the tree below `base` (`result_local`: nothing outside is read or listed); (c) on the "
             "executable view-stack model (memory wrapper, sub-path view, read-only mask, encrypted view, cache child, "
             "disk root as layers with the path plumbing of their Go code; stacks of any depth), by induction on the "
             "list of layers a call is the specification's call at the concatenated root or fails cleanly "
             "(`stack_refines`), hence confined (`stack_confined`); whatever the bottom filespace is it is only handed "
             "paths at or below the stack's root (`stack_delegates_under`); climbing arguments and removal of the "
             "view's own root are refused for every kind; the read-only mask never reaches the bottom with a mutation; "
             "the encrypted view delegates names unchanged; a view of a view is rooted at or below its parent. The "
             "model is tied to /repo on every run by a differential over random view stacks (mem, spy, disk, cache "
             "bottoms) and by a structural tie: go/ast normal forms of every method of the five view kinds (every path "
             "argument reduced first incl. both arguments of the copies, rebasing on basePath+reduced, Remove/RemoveAll "
             "of the own root refused, the read-only mask's mutators never touch the inner filespace, its child and the "
             "cache's child are sub-path views, the encrypted view passes names unchanged) and of ReduceAbsPath, "
             "regenerated from the sources and compared with the model's assumptions by `decide` "
             "(lean/Goat/Tie/FSC03.lean, theorems tie_*); the property itself is evaluated on the implementation by an "
             "exhaustive sweep and a random oracle with sentinels outside every root.",
        design_ref="DESIGN.md 3 C03"),
    level_note="Trusted: Lean kernel (axioms propext/Classical.choice/Quot.sound only); the hand-written view-stack "
               "model's correspondence to /repo (differential; generator reach in the histogram; structural tie "
               "lean/Goat/Tie/FSC03.lean — SYNTACTIC: go/ast normal forms of the view methods compared by `decide`, "
               "trusted as a reading of the text of those methods, blind to what they call). The semantic theorems "
               "(c) are proved over any bottom filespace that refines the specification: for the memory filespace that "
               "is a theorem (C01), for the host file system below a disk root and for the write-back cache it is an "
               "ASSUMPTION (the cache is known not to be a plain filespace, C06/C07) — for those two the proof gives "
               "the lexical statement only (every path handed to the bottom lies at or below the stack's root, "
               "`stack_delegates_under`) and confinement of what the bottom then does is decided by the sweep and the "
               "oracle on the real code (host directory above the disk root, remote and merged cache view outside the "
               "child root, byte for byte). The encrypted view is modelled as pure delegation of names (identity cipher "
               "in the differential, real ciphers in sweep/oracle). Symbolic links on disk are outside the property's "
               "lexical notion of a climbing path and are not generated. `Filespace()` of the read-only mask and of the "
               "cache never fails (a climbing argument yields a dead view); the theorems state that as: a dead view "
               "fails every call. Former KF-C03-1 (liveness, not confinement: Copy*(x, x) through a cache whose buffer holds x "
               "deadlocked) is repaired in fscache (the cache refuses overlapping copy arguments); its witness is "
               "corpus/C03/cache-self-copy.ops and such calls are generated and swept like any other.",
    technique="Lean 4 proof (lexical lemmas on all byte strings, point-wise frame/locality theorems on the spec, "
              "induction over view stacks) + structural tie (go/ast normal forms of every view method vs hand-written "
              "expectations, `decide`) + differential correspondence (random stacks, spy bottom) + exhaustive "
              "small-scope confinement sweep + random oracle with sentinels",
)

NSHARDS = 16
CALLWORDS = {"write", "writer", "reader", "mkdir", "remove", "removeall", "readfile", "readdir", "isexist", "isfile",
             "isdir", "lstat", "copy", "copyfile", "copydir", "dump"}
KF_ID = "KF-C03-1"


def _sh(ctx, argv, stdin=None, stdout=None, timeout=None):
    e = ctx.goenv()
    e.setdefault("GOMEMLIMIT", "3GiB")
    fin = open(stdin, "rb") if stdin else subprocess.DEVNULL
    fout = open(stdout, "wb") if stdout else subprocess.DEVNULL
    try:
        p = subprocess.run(argv, stdin=fin, stdout=fout, stderr=subprocess.PIPE, env=e,
                           timeout=timeout or ctx.pick(600, 3000))
        return p.returncode, (p.stderr or b"").decode("utf-8", "replace")
    except subprocess.TimeoutExpired:
        return 124, "timeout"
    finally:
        for h in (fin, fout):
            if hasattr(h, "close"):
                h.close()


def _lines(path):
    return [l.rstrip("\n") for l in open(path, "r", errors="replace")]


def _ops(path):
    return [l for l in _lines(path) if l and not l.startswith("#")]


def compare(ops, impl, model):
    """line-by-line comparison with the documented tolerances; returns [(index, op, impl, model)].
    Tolerated:  model `any` (a call handed to an opaque bottom) against implementation refused/done;
                in a history over a disk bottom, `view` answered err by the implementation and ok by the model (a disk
                filespace opens views on existing directories only, the model does not know the host) — the id then
                stays unbound on the implementation side and every later line through it answers nofs / bad-op."""
    res = []
    disk, unbound = False, set()
    n = min(len(ops), len(impl), len(model))
    for i in range(n):
        o, a, b = ops[i], impl[i], model[i]
        if o == "reset":
            disk, unbound = False, set()
        f = o.split(" ")
        if f[0] == "new" and len(f) >= 3 and f[2] == "disk":
            disk = True
        if a == b:
            continue
        if b == "any" and a in ("refused", "done"):
            continue
        if f[0] == "view" and len(f) == 4:
            if f[2] in unbound and a == "nofs":
                unbound.add(f[1])
                continue
            if disk and a == "err" and b == "ok":
                unbound.add(f[1])
                continue
        if f[0] == "new" and len(f) >= 4 and f[3] in unbound and a == "bad-op":
            unbound.add(f[1])
            continue
        if f[0] == "q" and len(f) >= 2 and f[1] in unbound and a == "nofs":
            continue
        if f[0] in CALLWORDS and len(f) >= 2 and f[1] in unbound and a == "nofs":
            continue
        res.append((i, o, a, b))
    if len(impl) != len(model) or len(impl) < len(ops):
        res.append((n, "<end of stream>", "%d result lines" % len(impl), "%d result lines" % len(model)))
    return res


def _pair(ctx, go, model, ops, tag, stats=None):
    a, b = ctx.path(tag + ".impl"), ctx.path(tag + ".model")
    argv = [go, "drive"]
    if stats:
        argv += ["-stats", stats]
    rc, err = _sh(ctx, argv, stdin=ops, stdout=a)
    if rc == 124:
        raise TimeoutError(ops)
    if rc != 0:
        raise RuntimeError("implementation driver failed rc=%d %s" % (rc, err[-500:]))
    rc, err = _sh(ctx, [model], stdin=ops, stdout=b)
    if rc != 0:
        raise RuntimeError("model driver failed rc=%d %s" % (rc, err[-500:]))
    return a, b


def _history_at(ops_lines, idx):
    """the op lines of the history (from its `reset`) that contains line number idx"""
    start = idx
    while start > 0 and ops_lines[start] != "reset":
        start -= 1
    end = idx + 1
    while end < len(ops_lines) and ops_lines[end] != "reset":
        end += 1
    return ops_lines[start:end]


def _scan(ctx, go, lines, tag="scan"):
    """the property on the implementation alone: FAIL lines of `views scan`"""
    ops = ctx.path(tag + ".ops")
    open(ops, "w").write("\n".join(lines) + "\n")
    out = ctx.path(tag + ".out")
    rc, err = _sh(ctx, [go, "scan"], stdin=ops, stdout=out)
    if rc != 0:
        return ["FAIL scan-crashed rc=%d %s" % (rc, err[-200:])]
    return [l for l in _lines(out) if l.startswith("FAIL ")]


def _differs(ctx, go, model, lines, tag="dd"):
    ops = ctx.path(tag + ".ops")
    open(ops, "w").write("\n".join(lines) + "\n")
    try:
        a, b = _pair(ctx, go, model, ops, tag)
    except TimeoutError:
        return True
    return bool(compare(lines, _lines(a), _lines(b)))


def _reached_outside_root(ctx, model, small, diffs):
    """spy bottoms: the first differing `calls` line against the root of the handle of the call before it"""
    for i, o, x, y in diffs:
        if not o.startswith("calls ") or i == 0 or not x.startswith("calls"):
            continue
        f = small[i - 1].split(" ")
        if len(f) < 2 or f[0] in ("view", "new", "reset", "dump", "calls", "chk"):
            continue
        h = f[2] if f[0] == "q" else f[1]
        probe = small[:i - 1] + ["isdir %s -" % h, "calls 0"]
        ops = ctx.path("root.ops")
        open(ops, "w").write("\n".join(probe) + "\n")
        out = ctx.path("root.model")
        rc, err = _sh(ctx, [model], stdin=ops, stdout=out)
        last = (_lines(out) or [""])[-1]
        m = re.match(r"calls isdir:([0-9a-f-]*)$", last)
        if rc != 0 or not m:
            continue
        root = bytes.fromhex(m.group(1)) if m.group(1) not in ("-", "") else b""
        rsegs = [t for t in root.split(b"/") if t]
        for item in x.split(" ")[1:]:
            word, _, hp_ = item.partition(":")
            for hx_ in hp_.split(":"):
                if not re.fullmatch(r"[0-9a-f]*|-", hx_):
                    continue
                reached = bytes.fromhex(hx_) if hx_ not in ("-", "") else b""
                segs = [t for t in reached.split(b"/") if t]
                if segs[:len(rsegs)] != rsegs:
                    return ("the call `%s` through handle %s, whose root is `%s`, reached `%s` in the bottom filespace"
                            % (" ".join(f[:4]), h, root.decode("latin1"), reached.decode("latin1")))
    return None


def _judge_diff(ctx, go, model, hist, what):
    """implementation and model disagree: minimise, then ask the property itself (scan)"""
    small = ctx.ddmin(hist, lambda ls: _differs(ctx, go, model, ls), keep_prefix=1)
    ops = ctx.path("min.ops")
    open(ops, "w").write("\n".join(small) + "\n")
    a, b = _pair(ctx, go, model, ops, "min")
    d = compare(small, _lines(a), _lines(b))
    fails = _scan(ctx, go, small, "minscan")
    ann = ["line %d `%s`  impl: %s  model: %s" % (i, o[:200], x[:200], y[:200]) for i, o, x, y in d[:4]]
    ann += ["property: " + f[:400] for f in fails[:3]]
    concrete = bool(fails)
    # a recording ("spy") bottom shows which paths a call really reached.  The model's root of the handle the
    # call went through is known (theorem stack_delegates_under: every path that reaches the bottom is
    # root ++ the caller's normal form): a path reached outside that root is the property failing outright.
    escaped = None if concrete else _reached_outside_root(ctx, model, small, d)
    if escaped:
        concrete = True
        ann.append("property: " + escaped)
    why = ("the implementation changes, reveals or reaches something outside the view's root (or panics/hangs) on this input"
           if concrete else
           "outside of every root is unchanged and nothing leaks on this input: only the modelled answer differs "
           "(the view-stack model, and with it the proof, no longer describes the code)")
    ctx.violation("impl-vs-spec" if concrete else "impl-vs-model",
                  "%s: implementation and view-stack model differ (minimised history, %d lines)\n%s"
                  % (what, len(small), why), lines=small, annotations=ann, concrete=concrete)
    return concrete


def _report_fail_blocks(ctx, go, out_lines, what, limit=2):
    """FAIL …/H … blocks printed by `sweep` and `oracle`: each is a concrete counterexample with its replay"""
    blocks, cur = [], None
    for l in out_lines:
        if l.startswith("FAIL "):
            if cur is None or cur[1]:
                cur = ([], [])
                blocks.append(cur)
            cur[0].append(l)
        elif l.startswith("H ") and cur is not None:
            cur[1].append(l[2:])
    n = 0
    for fails, hist in blocks:
        if n >= limit:
            break
        n += 1
        small = hist
        kinds = {f.split(" ")[1] for f in fails if len(f.split(" ")) > 1} - {"guard", "build"}
        if hist and kinds:
            # keep the same kind of failure while shrinking (a history cut to pieces fails its guards trivially)
            def still(ls):
                return any(len(f.split(" ")) > 1 and f.split(" ")[1] in kinds for f in _scan(ctx, go, ls, "oddmin"))
            small = ctx.ddmin(hist, still, keep_prefix=1)
            fails = [f for f in _scan(ctx, go, small, "oddmin") if f.split(" ")[1] in kinds] or fails
        ctx.violation("impl-vs-spec", "%s: on the real code something outside a view's root changed, leaked, or a call "
                      "panicked/hung\n%s" % (what, "\n".join(f[:500] for f in fails[:3])),
                      lines=small, annotations=[f[:600] for f in fails[:3]], concrete=True)
    return len(blocks)


def _kv(line):
    d = {}
    for tok in line.split()[1:]:
        k, _, v = tok.partition("=")
        d[k] = v
    return d


def run(ctx):
    try:
        _run(ctx)
    finally:
        fs_tie.restore(ctx)   # a run against a scratch worktree leaves the extracted facts of /repo behind


def _run(ctx):
    failed = fs_tie.obligations(ctx)   # Props/C03 + the structural tie Goat.Tie.FSC03 (regenerated from ctx.repo)
    go = ctx.build_go("views")
    model = ctx.build_model("m_views")
    n_gen = ctx.pick(1600, 32000)
    n_oracle = ctx.pick(1600, 32000)
    segs_light, segs_heavy, segs_extra = ctx.pick(4, 5), ctx.pick(3, 4), ctx.pick(3, 4)
    ctx.rule = (
        "differential: %d random histories in %d shards from VERIF_SEED: reset, a random view stack of 1..4 layers "
        "{Filespace(p), sub-path view, memory wrapper, read-only mask, encrypted view (identity cipher), cache} over "
        "mem/spy/disk, layer paths spelled in ./in/ /in in/x/.. in/in . \"\", a parent tree with sentinel files around "
        "every level above the child root, then 6..30 calls (15 words + view/dump; inside handles: pool {a,in,b}, "
        "~15%% climbing, ~7%% root spellings, each followed by `chk`; outside handles: pool {a,b,c}, followed by a new "
        "`guard`); spy bottom: `calls` after every op. sweep: every fixed stack x 19 op/argument positions x every "
        "string of <= %d segments (stacks with disk or cache: <= %d, the non-core memory stacks: <= %d) over "
        "{a,in,.,..,\"\"} plus every string of <= 3 segments over {inx,in,..,a} (a sibling whose name extends the "
        "root's name), with/without leading/trailing /, `chk` after every call, fresh environment whenever the inside changed. oracle: %d histories of the same "
        "generator with real ciphers, disk and cache bottoms, run in-process with `chk` after every inside call. "
        "non-trivial = the history has a successful mutation and a refused call; distinct = distinct op-line "
        "sequences (64-bit digest)" % (n_gen, NSHARDS, segs_light, segs_heavy, segs_extra, n_oracle))
    concrete_found = False

    # --- known finding witness (runs in the background: the hang is observed through the 20 s watchdog)
    kf = [f for f in ctx.known_findings() if f.get("id") == KF_ID]
    pool = concurrent.futures.ThreadPoolExecutor(NSHARDS + 1)
    kf_future = None
    if kf:
        def kf_run():
            ops = ctx.path("kf.ops")
            open(ops, "w").write("\n".join(kf[0]["witness"]) + "\n")
            out = ctx.path("kf.out")
            _sh(ctx, [go, "drive"], stdin=ops, stdout=out, timeout=120)
            return _lines(out)
        kf_future = pool.submit(kf_run)

    # --- corpus (exact replays of past failures; run first)
    try:
        for f in sorted(glob.glob(os.path.join(lib.ROOT, "corpus", "C03", "*.ops"))):
            lines = _ops(f)
            ops = ctx.path("corpus.ops")
            open(ops, "w").write("\n".join(lines) + "\n")
            a, b = _pair(ctx, go, model, ops, "corpus")
            ctx.evaluations += len(lines)
            d = compare(lines, _lines(a), _lines(b))
            fails = _scan(ctx, go, lines, "corpusscan")
            if fails:
                concrete_found = True
                ctx.violation("impl-vs-spec", "corpus %s: %s" % (os.path.basename(f), fails[0][:400]), lines=lines,
                              annotations=[x[:500] for x in fails[:3]], concrete=True)
            elif d:
                concrete_found |= _judge_diff(ctx, go, model, lines, "corpus " + os.path.basename(f))
            ctx.histogram["corpus:files"] += 1
    except (RuntimeError, TimeoutError) as e:
        ctx.fatal("corpus: %s" % e)

    # --- the three campaigns, sharded
    def diff_shard(shard):
        tag = "gen%02d" % shard
        ops, gstat, stats = ctx.path(tag + ".ops"), ctx.path(tag + ".gstat"), ctx.path(tag + ".stats")
        with open(gstat, "wb") as eh:
            p = subprocess.run([go, "gen", str(n_gen), str(shard), str(NSHARDS)], stdout=open(ops, "wb"), stderr=eh,
                               env=ctx.goenv())
        if p.returncode != 0:
            raise RuntimeError("generator failed rc=%d" % p.returncode)
        try:
            a, b = _pair(ctx, go, model, ops, tag, stats=stats)
        except TimeoutError:
            return dict(shard=shard, timeout=True)
        ol = _ops(ops)
        d = compare(ol, _lines(a), _lines(b))
        res = dict(shard=shard, timeout=False, diffs=d, stats=json.load(open(stats)), gstat=open(gstat).read(),
                   nlines=len(ol))
        if d:
            res["hist"] = _history_at(ol, d[0][0])
        if shard == 0:
            h = _history_at(ol, 0)
            res["sample"] = dict(ops=[x[:160] for x in h[:40]], impl=[x[:160] for x in _lines(a)[:len(h)][:40]],
                                 model=[x[:160] for x in _lines(b)[:len(h)][:40]])
        for f in (ops, a, b):
            os.unlink(f)
        return res

    def sweep_shard(shard):
        out = ctx.path("sweep%02d.out" % shard)
        rc, err = _sh(ctx, [go, "sweep", str(segs_light), str(shard), str(NSHARDS), str(segs_heavy), str(segs_extra)], stdout=out)
        if rc == 124:
            return ["FAIL hang sweep shard %d did not finish" % shard]
        if rc != 0:
            raise RuntimeError("sweep failed rc=%d %s" % (rc, err[-300:]))
        return _lines(out)

    def oracle_shard(shard):
        out = ctx.path("oracle%02d.out" % shard)
        rc, err = _sh(ctx, [go, "oracle", str(n_oracle), str(shard), str(NSHARDS)], stdout=out)
        if rc == 124:
            return ["FAIL hang oracle shard %d did not finish" % shard]
        if rc != 0:
            raise RuntimeError("oracle failed rc=%d %s" % (rc, err[-300:]))
        return _lines(out)

    try:
        # sweep first (the longest), the two random campaigns interleaved behind it
        f_sweep = [pool.submit(sweep_shard, s) for s in range(NSHARDS)]
        f_diff = [pool.submit(diff_shard, s) for s in range(NSHARDS)]
        f_orac = [pool.submit(oracle_shard, s) for s in range(NSHARDS)]
        sweeps = [f.result() for f in f_sweep]
        diffs = [f.result() for f in f_diff]
        oracles = [f.result() for f in f_orac]
    except RuntimeError as e:
        ctx.fatal(str(e))

    # --- differential results
    rnd = dict(histories=0, nontrivial=0, lines=0)
    gen_counts = {}
    judged = 0
    for r in diffs:
        if r.get("timeout"):
            ctx.violation("impl-vs-model", "differential shard %d: the implementation-side driver did not finish "
                          "(`views gen %d %d %d | views drive`, VERIF_SEED=%d)" % (r["shard"], n_gen, r["shard"], NSHARDS,
                                                                                  ctx.seed), concrete=False)
            continue
        st = r["stats"]
        for k in rnd:
            rnd[k] += st[k]
        ctx.evaluations += st["lines"]
        for k, v in st["histogram"].items():
            ctx.histogram[k] += v
        for h_ in st.get("hashes", []):
            ctx.distinct.add(bytes.fromhex(h_.rjust(16, "0")))
        for line in r["gstat"].split("\n"):
            if line.startswith("genstat "):
                for k, v in _kv(line).items():
                    gen_counts[k] = gen_counts.get(k, 0) + int(v)
        if r["diffs"] and judged < 2:
            judged += 1
            concrete_found |= _judge_diff(ctx, go, model, r["hist"], "differential shard %d" % r["shard"])
        if "sample" in r:
            ctx.samples.append(r["sample"])
    for k, v in gen_counts.items():
        ctx.histogram["gen:" + k] = v
    ctx.extra["differential_run"] = rnd

    # --- sweep results
    sw = dict(cases=0, calls=0, rebuilds=0, fails=0, skipped_selfcopy=0)
    shape = {}
    allsweep = []
    for lines in sweeps:
        allsweep += lines
        for l in lines:
            if l.startswith("sweep "):
                kv = _kv(l)
                for k in sw:
                    sw[k] += int(kv.get(k, 0))
                shape = {k: kv[k] for k in ("stacks", "light", "extra", "heavy", "positions") if k in kv}
    nblocks = _report_fail_blocks(ctx, go, allsweep, "exhaustive sweep")
    concrete_found |= nblocks > 0
    for l in allsweep:
        if l.startswith("FAIL hang sweep"):
            ctx.violation("impl-vs-spec", l, concrete=False)
    ctx.evaluations += sw["calls"]
    ctx.distinct_extra += sw["cases"]  # enumerated (stack, position, string) triples are distinct by construction
    ctx.exhaustive = False  # complete to the segment bound only; the property's domain is unbounded
    rc, stacks_txt = ctx.capture([go, "stacks"])
    ctx.extra["sweep"] = dict(
        totals=sw, stacks=[l for l in stacks_txt.split("\n") if l.strip()],
        strings_light="%s core stacks x %s strings (<= %d segments)" % tuple(shape.get("light", "0:0").split(":") + [segs_light]),
        strings_extra="%s further memory stacks x %s strings (<= %d segments)" % tuple(shape.get("extra", "0:0").split(":") + [segs_extra]),
        strings_heavy="%s stacks x %s strings (<= %d segments)" % tuple(shape.get("heavy", "0:0").split(":") + [segs_heavy]),
        positions=int(shape.get("positions", 0)),
        note="cases = (stack, op/argument position, string) triples actually executed; calls include the battery run "
             "through every successfully opened view of the view")
    ctx.histogram["sweep:cases"] = sw["cases"]
    ctx.histogram["sweep:calls"] = sw["calls"]

    # --- oracle results
    tot = dict(histories=0, cases=0, fails=0)
    allor = []
    for lines in oracles:
        allor += lines
        for l in lines:
            if l.startswith("oracle "):
                for k, v in _kv(l).items():
                    if k in tot:
                        tot[k] += int(v)
                    else:
                        ctx.histogram["oracle:" + k] += int(v)
    nblocks = _report_fail_blocks(ctx, go, allor, "oracle")
    concrete_found |= nblocks > 0
    for l in allor:
        if l.startswith("FAIL hang oracle"):
            ctx.violation("impl-vs-spec", l, concrete=False)
    ctx.evaluations += tot["cases"]
    ctx.extra["oracle"] = tot

    # --- coverage gaps
    gaps = []
    for word in ("write", "writer", "mkdir", "remove", "removeall", "copy", "copyfile", "copydir", "view"):
        for res in ("ok", "err"):
            if not ctx.histogram.get("%s:%s" % (word, res)):
                gaps.append("%s:%s" % (word, res))
    for key in ("readfile:data", "readfile:err", "readdir:list", "readdir:err", "reader:rd", "lstat:stat", "isexist:t",
                "isexist:f", "isdir:t", "isfile:t", "dump:tree", "chk:same", "guard:ok", "calls:calls", "q:refused",
                "q:done", "gen:stack:mem", "gen:stack:spy", "gen:stack:disk", "gen:stack:opaque", "gen:stack:readonly",
                "gen:layers:4", "oracle:gen:stack:disk", "oracle:chk:same"):
        if not ctx.histogram.get(key):
            gaps.append(key)
    if gaps:
        ctx.notes.append("coverage gap: no case of " + ", ".join(gaps))

    # --- known finding
    if kf_future is not None:
        try:
            out = kf_future.result(timeout=180)
        except Exception as e:  # noqa: BLE001
            out = ["<witness run failed: %s>" % e]
        last = out[-1] if out else ""
        if last == "hang":
            ctx.known(KF_ID, "Copy(x, x) through a write-back cache whose buffer holds x never returns (liveness; "
                             "nothing outside any root is touched); self-copies through cache stacks are not generated")
        else:
            ctx.notes.append("%s witness no longer hangs (last answer `%s`): the exclusion of self-copies through "
                             "cache stacks can be dropped" % (KF_ID, last))
    pool.shutdown(wait=False)

    ctx.assumptions += [
        "the host file system below a disk root, and the write-back cache below a cache child, touch only what lies at "
        "or below the paths they are handed (checked by sweep and oracle on the real code, not proved)",
        "symbolic links are not created: the property's notion of climbing is lexical",
        "the encrypted view changes contents only; its ciphers are C05's subject",
        "Writer/Reader handles are used atomically (open, writes/reads, close)",
    ]
    ctx.trusted_base.append("the sentinel observation of `views` (guard/chk: walk of the bottom filespace through its "
                            "public interface, OS-level walk of the directory above a disk root)")
    if failed:
        ctx.obligation_violations(failed, searcher=lambda: concrete_found)
    if not ctx.quick():
        ctx.leanchecker(["Goat.Props.C03", fs_tie.tie_module(ctx)])
        if any(not o["ok"] for o in ctx.obligations) and not failed:
            ctx.obligation_violations([o for o in ctx.obligations if not o["ok"]])


def replay(ctx, path):
    go = ctx.build_go("views")
    model = ctx.build_model("m_views")
    lines = lib.replay_ops(path)
    ops = ctx.path("replay.ops")
    open(ops, "w").write("\n".join(lines) + "\n")
    rc = 0
    try:
        a, b = _pair(ctx, go, model, ops, "replay")
        ia, mb = _lines(a), _lines(b)
        bad = {i for i, _, _, _ in compare(lines, ia, mb)}
        for i, o in enumerate(lines):
            x = ia[i] if i < len(ia) else "<missing>"
            y = mb[i] if i < len(mb) else "<missing>"
            print("op    ", o[:300])
            print("impl  ", x[:300])
            print("model ", y[:300], "   <== differs" if i in bad else "")
        if bad:
            rc = 1
    except TimeoutError:
        print("implementation driver did not finish")
        rc = 1
    for f in _scan(ctx, go, lines, "replayscan"):
        print("property ", f[:400])
        rc = 1
    print("replay:", "still failing" if rc else "implementation and model agree; nothing outside any root changed")
    return rc
