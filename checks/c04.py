"""C04 — streams and cross-filespace copies are byte-exact and replace old content.

Theorems: lean/Goat/Props/C04.lean about lean/Goat/Model/Stream.lean (writer/reader handles of the memory
and disk backends, the io.Copy loop with an arbitrary chunking oracle, fshelper.StreamCopy, fshelper.Copy
over an arbitrary visiting order, fshelper.Copier.Do), for ALL fault plans; and (Model/Stream.lean section 10,
Props/C04 section 7) ONE memory file with an open reader next to a thread that rewrites the same file, under
ALL schedules, with the locking discipline as a parameter: reader_isolated_from_rewrite,
writer_waits_for_open_reader, streamCopy_source_rewritten for every discipline but snapshot + in-place truncation
(the current memfs: a handle holds the file's lock from open to Close), snapshot_truncate_in_place_mixes for that one.

Correspondence (every run): harness/cmd/stream `drive` — the real memfs / diskfs (temp dirs under /var/tmp) /
encryptfs over memory and over disk / fscache over memory as source and destination, Writer/Reader,
fshelper.StreamCopy / Copy / Copier through a fault-injecting, chunk-limiting Filespace decorator — against
the compiled model `m_stream` on
  (a) the corpus, (b) sharded random cases (`gen`), (c) fault-enumeration blocks: for a small case of each
  helper EVERY call index of every stage (0 .. number of calls, hard and short; a short writer Close loses the
  last chunk — a backend that delivers its last bytes on Close), (d) open-reader blocks: `rdq` / `scopyq` — a
  Reader (a StreamCopy's source reader) on mem / encmem / cache / rcache stays open while ANOTHER goroutine
  rewrites the same file through Writer, started after `split` reads, for EVERY split of a small file; the
  harness goes on when that goroutine has finished or is parked on the file's lock (the runtime's wait reason of
  the goroutine; the yield point memfs.writer.open is recorded), and the result line carries whether the
  rewriter was held up (`wait`) or not (`free`), every buffer the reader delivered and the final content.
Each line is one self-contained case (fresh filesystems), so a disagreeing line is its own minimal history;
its trees and contents are then shrunk (ddmin over tree entries).
Spec vs implementation without the Lean model: `stream oracle` evaluates the property's clauses on the
implementation with expectations known by construction from the case line (writer: ReadFile and Reader with
every buffer size in {1,2,3,7,4096} equal the chunks' concatenation for absent/shorter/longer/equal/empty old
content, a directory is refused; copy helper returned nil => destination equals the source laid over the old
destination, byte for byte, source untouched; under every single injected fault: error or complete copy; a
fault-free copy between compatible trees succeeds; a reader that is open while its file is rewritten delivers a
prefix of — at EOF exactly — the content it was opened on, the file holds the new chunks' concatenation after both
have closed, a StreamCopy whose source is rewritten meanwhile leaves a complete copy of the old or of the new
content; no panic, no hang).

Structural tie (every run, DESIGN 1.4): `harness/cmd/fsfacts facts C04` (go/ast) rewrites
lean/Goat/Tie/ExtractedFSC04.lean from the sources under test — the whole canonical bodies of fshelper.StreamCopy,
Copy (with its OnDir/OnFile callbacks), Copier.Do / copyFile / copyDirectory, the memory handle's Write / Read /
Close and the slice events of the memory Writer, the os.OpenFile flag sets and Close of the disk handle — and the
theorems `tie_*` of lean/Goat/Tie/FSC04.lean compare them by `decide` with the branches Model/Stream.lean mirrors.
They are obligations of the check: a failing one is followed by the search below and ends as
`no-failing-input-found` when nothing concrete turns up.

A model/implementation difference is judged by that oracle (`stream check` on the shrunk line): a failing
clause, a panic or a hang is a counterexample (impl-vs-spec); otherwise the difference concerns something the
property does not constrain (e.g. what is left behind after a reported error) and is reported as
`no-failing-input-found`.
"""
import concurrent.futures
import glob
import json
import os
import subprocess

import fs_tie
import lib

META = dict(
    level_claimed=dict(
        category="proof",
        text="Lean 4 theorems over all contents, chunkings, read-buffer sizes, pre-existing destination states "
             "(arbitrary `Path -> Option Entry`), both destination kinds and reader styles, all source trees, all "
             "visiting orders (permutations of the source's nodes) and ALL fault plans (any set of failing calls at "
             "any stage and index; a single injected fault is a special case): writer_exact, writer_replaces, "
             "reader_exact, ioCopy_exact, ioCopy_ok_complete, streamCopy_exact, streamCopy_ok_complete, "
             "treeCopy_ok_complete / treeCopy_exact / treeCopy_fault (ok => destination = source laid over the old "
             "destination, nothing outside changes), copier_exact.  Open handles on one memory file (an open reader "
             "next to a thread rewriting the same file through Writer/Write*/Close; all old and new contents, array "
             "capacities, chunkings, buffer sizes and ALL schedules = any number of rewriter steps before the open, "
             "before every Read and before the Close, a thread that needs the lock waits; the locking discipline is a "
             "parameter): reader_isolated_from_rewrite (for every discipline except snapshot + in-place truncation — "
             "in particular the current memfs, whose handles hold the file's lock from open to Close — the reads are "
             "exactly the sequential reads of the content the file had at the open, old or new, whole; afterwards the "
             "file holds the chunks' concatenation; nobody hangs), writer_waits_for_open_reader, "
             "streamCopy_source_rewritten (under every fault plan the helper's outcome IS the sequential StreamCopy of "
             "the old or of the new content: never a mix), snapshot_truncate_in_place_mixes (evaluated witness for the "
             "excluded discipline: new bytes followed by the old tail; StreamCopy returns nil on it).  The model is tied to /repo on every run by a "
             "differential over five backends as source and destination, random trees and chunkings, an "
             "enumeration of every fault position for small cases and of every point at which a rewrite can start "
             "next to an open reader (two goroutines, steered by the runtime's goroutine wait state), and by a structural tie: go/ast normal forms of "
             "StreamCopy (reader, writer, io.Copy, both Close calls in order; the io.Copy error and both Close errors "
             "returned), Copier.copyFile (the same function), Copy (OnDir = MkdirAll, OnFile = MkdirAll(dir) + "
             "StreamCopy for every file, one consumer, result = ToError(Errors()) after Wait), Copier.Do's dispatch, the "
             "memory Writer's truncation and appending Write, the disk Writer's O_WRONLY|O_CREATE|O_TRUNC, regenerated "
             "from the sources and compared with the model's branches by `decide` (lean/Goat/Tie/FSC04.lean, tie_*).",
        design_ref="DESIGN.md 3 C04"),
    level_note="Trusted: Lean kernel (axioms propext/Classical.choice/Quot.sound only); the hand-written model's "
               "correspondence to /repo (differential; generator reach printed in the histogram; structural tie "
               "lean/Goat/Tie/FSC04.lean — SYNTACTIC: go/ast normal forms of the helpers and stream handles compared by "
               "`decide`, trusted as a reading of the text of those functions, blind to what they call). io.Copy is MODELLED "
               "(the generic read/write loop of the standard library, its contract trusted; the ReadFrom/WriteTo fast "
               "paths of *os.File are exercised by the `raw` cases of the correspondence only). AES-GCM / the ext "
               "cipher are opaque: an encrypted filespace is observed from its plain side and modelled as the backend "
               "below it. The filesystems under the helpers are the point-wise Spec states of C01/C02 (memfs refines "
               "them by C01's theorems; for diskfs that is C02's assumption). That the walk hands every node of the "
               "source to exactly one callback, one callback at a time (Consumers: 1), and lists every error, is "
               "C08's theorem and enters as the hypothesis `order.Perm (nodesOf t)`; the source tree has unique "
               "sibling names (C01's invariant). "
               "Open reader next to a rewrite: the model interleaves whole Read/Write/open/Close calls of ONE reader and "
               "ONE rewriting thread on ONE memory file (Go's slice aliasing modelled by detaching a sharing reader when "
               "the file gets a new array); which discipline a backend has is hand-assigned in the driver (mem, cache "
               "buffer: lock; encmem, cache-remote: private copy) and checked by the `wait`/`free` token of the "
               "differential; diskfs has no handle lock (the operating system's semantics of an open file apply) and "
               "is outside this family.",
    technique="Lean 4 proof (induction over chunk lists / fuel / visiting order; progress-towards-overlay invariant) "
              "+ structural tie (go/ast normal forms of the copy helpers and stream handles vs hand-written expectations, "
              "`decide`) + small-step two-thread model of a memory file's handles with ALL schedules (simulation of the "
              "copy loop over an abstract reader) + differential correspondence with fault-position enumeration and "
              "two-goroutine open-reader/rewrite cases gated by the goroutine wait state + implementation-only oracle",
)

NSHARDS = 16


def _sh(ctx, argv, stdin=None, stdout=None, stderr=None, timeout=None):
    e = ctx.goenv()
    e.setdefault("GOMEMLIMIT", "3GiB")
    fin = open(stdin, "rb") if stdin else subprocess.DEVNULL
    fout = open(stdout, "wb") if stdout else subprocess.DEVNULL
    ferr = open(stderr, "wb") if stderr else subprocess.PIPE
    try:
        p = subprocess.run(argv, stdin=fin, stdout=fout, stderr=ferr, env=e,
                           timeout=timeout or ctx.pick(600, 3000))
        return p.returncode, (p.stderr or b"").decode("utf-8", "replace") if not stderr else ""
    except subprocess.TimeoutExpired:
        return 124, "timeout"
    finally:
        for h in (fin, fout, ferr):
            if hasattr(h, "close"):
                h.close()


def _pair(ctx, go, model, ops, tag, stats=None):
    a, b = ctx.path(tag + ".impl"), ctx.path(tag + ".model")
    argv = [go, "drive"] + (["-stats", stats] if stats else [])
    rc, err = _sh(ctx, argv, stdin=ops, stdout=a)
    if rc != 0:
        raise RuntimeError("implementation driver failed rc=%d %s" % (rc, err[-500:]))
    rc, err = _sh(ctx, [model], stdin=ops, stdout=b)
    if rc != 0:
        raise RuntimeError("model driver failed rc=%d %s" % (rc, err[-500:]))
    return a, b


def _diffs(ops, a, b, limit=4):
    """(op line, impl line, model line) of the first differing cases"""
    if subprocess.call(["cmp", "-s", a, b]) == 0:
        return []
    res = []
    with open(ops, "r", errors="replace") as fo, open(a, "r", errors="replace") as fa, \
            open(b, "r", errors="replace") as fb:
        lines = (l for l in fo if l.strip() and not l.startswith("#"))
        for o in lines:
            x, y = fa.readline(), fb.readline()
            if x != y:
                res.append((o.rstrip("\n"), x.rstrip("\n"), y.rstrip("\n")))
                if len(res) >= limit:
                    break
    return res


def _shard(ctx, go, model, n, blocks, shard):
    tag = "s%02d" % shard
    ops, gstat, stats = ctx.path(tag + ".ops"), ctx.path(tag + ".gstat"), ctx.path(tag + ".stats")
    rc, err = _sh(ctx, [go, "gen", str(n), str(shard), str(NSHARDS), str(blocks)], stdout=ops, stderr=gstat)
    if rc != 0:
        raise RuntimeError("generator failed rc=%d" % rc)
    a, b = _pair(ctx, go, model, ops, tag, stats=stats)
    d = _diffs(ops, a, b)
    res = dict(shard=shard, diffs=d, stats=json.load(open(stats)), gstat=open(gstat).read(), sample=None)
    if shard == 0:
        with open(ops, errors="replace") as fo, open(a, errors="replace") as fa, open(b, errors="replace") as fb:
            res["sample"] = [(fo.readline().strip(), fa.readline().strip(), fb.readline().strip()) for _ in range(6)]
    for f in (ops, a, b):
        os.unlink(f)
    return res


def _check_lines(ctx, go, lines, tag="chk"):
    """oracle mode on the given case lines: (FAIL lines, result lines)"""
    ops, out = ctx.path(tag + ".ops"), ctx.path(tag + ".out")
    open(ops, "w").write("\n".join(lines) + "\n")
    rc, err = _sh(ctx, [go, "check"], stdin=ops, stdout=out, timeout=600)
    if rc != 0:
        raise RuntimeError("stream check failed rc=%d %s" % (rc, err[-300:]))
    txt = [l.rstrip("\n") for l in open(out, errors="replace")]
    return [l for l in txt if l.startswith("FAIL ")], [l[2:] for l in txt if l.startswith("R ")]


def _one(ctx, go, model, line, tag="one"):
    ops = ctx.path(tag + ".ops")
    open(ops, "w").write(line + "\n")
    a, b = _pair(ctx, go, model, ops, tag)
    return open(a, errors="replace").readline().rstrip("\n"), open(b, errors="replace").readline().rstrip("\n")


# positions of the tree tokens per case kind (token index in the split line)
TREES = dict(scopy=(3, 4), tcopy=(3, 4), copier=(3, 5))


def _shrink(ctx, line, still):
    """shrink the trees of a copy case (ddmin over the entries of each tree token, then halve contents)"""
    f = line.split(" ")
    if f[0] not in TREES:
        if f[0] == "wr" and len(f) > 3:
            chunks = ctx.ddmin(f[3:], lambda cs: still(" ".join(f[:3] + cs)))
            cand = " ".join(f[:3] + chunks)
            return cand if still(cand) else line
        return line
    for idx in TREES[f[0]]:
        if f[idx] == "-":
            continue
        ents = f[idx].split(",")

        def with_ents(es, idx=idx):
            g = list(f)
            g[idx] = ",".join(es) if es else "-"
            return " ".join(g)
        if still(with_ents([])):
            f[idx] = "-"
            continue
        small = ctx.ddmin(ents, lambda es: still(with_ents(es)))
        if still(with_ents(small)):
            f[idx] = ",".join(small)
        # shorter contents
        ents = f[idx].split(",")
        for i, e in enumerate(ents):
            if "=" in e:
                p, d = e.split("=")
                while d != "-" and len(d) > 2:
                    half = d[:max(2, (len(d) // 4) * 2)]
                    cand = ents[:i] + [p + "=" + half] + ents[i + 1:]
                    if half != d and still(with_ents(cand)):
                        d = half
                        ents = cand
                    else:
                        break
        f[idx] = ",".join(ents)
    return " ".join(f)


def _judge(ctx, go, model, line, what):
    """a case on which implementation and model differ: shrink it, ask the oracle, record the violation"""
    def differs(l):
        x, y = _one(ctx, go, model, l, "dd")
        return x != y and x != "bad-op" and y != "bad-op"
    try:
        small = _shrink(ctx, line, differs) if differs(line) else line
    except RuntimeError:
        small = line
    x, y = _one(ctx, go, model, small, "min")
    fails, _ = _check_lines(ctx, go, [small], "minchk")
    concrete, why = False, ""
    if x in ("panic", "hang"):
        concrete, why = True, "the implementation answered `%s`" % x
    elif fails:
        concrete, why = True, "the property's own clause fails on the implementation: " + fails[0][5:400]
    else:
        why = ("every clause of the property evaluated on the implementation holds for this case; the difference is in "
               "something the property does not constrain (or the model is wrong)")
    ctx.violation("impl-vs-spec" if concrete else "impl-vs-model",
                  "%s: implementation and model differ\n%s" % (what, why), lines=[small],
                  annotations=["impl:  " + x[:600], "model: " + y[:600]] + ["oracle: " + f[:600] for f in fails[:3]],
                  concrete=concrete)
    return concrete


def _oracle_shard(ctx, go, n, blocks, shard):
    out = ctx.path("oracle%02d.out" % shard)
    rc, err = _sh(ctx, [go, "oracle", str(n), str(shard), str(NSHARDS), str(blocks)], stdout=out)
    if rc == 124:
        return ["FAIL the oracle shard did not finish", "L #shard %d" % shard]
    if rc != 0:
        raise RuntimeError("oracle failed: " + err[-300:])
    return [l.rstrip("\n") for l in open(out, errors="replace")]


def _oracle(ctx, go, model, outs):
    total = {}
    blocks_ = []
    for lines in outs:
        cur = []
        for l in lines:
            if l.startswith("oracle "):
                for tok in l.split()[1:]:
                    k, _, v = tok.partition("=")
                    total[k] = total.get(k, 0) + int(v)
            elif l.startswith("FAIL "):
                cur.append(l)
            elif l.startswith("L "):
                blocks_.append((cur, l[2:]))
                cur = []
    ctx.evaluations += total.get("cases", 0)
    for k, v in total.items():
        if k not in ("cases", "fails"):
            ctx.histogram["oracle:" + k] += v
    ctx.extra["oracle"] = total
    concrete = False
    for fails, line in blocks_[:3]:
        def still(l):
            fl, _ = _check_lines(ctx, go, [l], "odd")
            return bool(fl)
        try:
            small = _shrink(ctx, line, still) if not line.startswith("#") and still(line) else line
            fl, res = _check_lines(ctx, go, [small], "omin") if not small.startswith("#") else (fails, [""])
        except RuntimeError:
            small, fl, res = line, fails, [""]
        fl = fl or fails
        concrete = True
        ctx.violation("impl-vs-spec",
                      "property oracle (expectations by construction, no Lean model): a clause of C04 fails on the "
                      "implementation\n" + "\n".join(f[:500] for f in fl[:3]),
                      lines=[small], annotations=[f[:600] for f in fl[:3]] + ["impl: " + (res[0] if res else "")[:400]],
                      concrete=True)
    return concrete


def run(ctx):
    try:
        _run(ctx)
    finally:
        fs_tie.restore(ctx)   # a run against a scratch worktree leaves the extracted facts of /repo behind


def _run(ctx):
    failed = fs_tie.obligations(ctx)   # Props/C04 + the structural tie Goat.Tie.FSC04 (regenerated from ctx.repo)
    go = ctx.build_go("stream")
    model = ctx.build_model("m_stream")
    n_rand = ctx.pick(9000, 130000)
    n_blocks = ctx.pick(3, 28)          # per shard
    n_oracle = ctx.pick(4000, 45000)
    o_blocks = ctx.pick(2, 10)
    ctx.rule = ("each case is one line with fresh filesystems.  random: %d cases over 16 shards from VERIF_SEED — wr "
                "(Writer over absent/file/dir/no-parent, 0..5 chunks), wrq (a Writer or a StreamCopy queued behind an open "
                "Writer on the same path of a memory-like backend, gated by the yield point memfs.writer.open), rdq / scopyq (a "
                "Reader / the source reader of a StreamCopy on mem|encmem|cache|rcache stays open while another goroutine, "
                "started after 0..n reads, rewrites the same file through Writer with chunks shorter than / as long as / "
                "longer than the old content; the harness continues once that goroutine has finished or is parked on the "
                "file's lock), rd (Reader, "
                "0..8 buffer sizes incl. 0 and 40000), "
                "scopy/tcopy/copier (fshelper.StreamCopy/Copy/Copier.Do) over source and destination backends "
                "{mem,disk,encmem,encdisk,cache}^2, trees of 0..30 nodes (names a-d, depth<=4, contents 0 B..70 kB), "
                "destinations derived from the source (absent / shorter / longer / equal-length / empty / other kind, "
                "plus unrelated nodes), chunkings raw | - | 1..6 sizes of {1,2,3,7,4096}, 30%% with a random single "
                "fault; fault blocks: %d per shard, each enumerating for one small case per helper EVERY call index "
                "(0..number of calls, the last not firing) of every stage it reaches, hard and (read / write / writer-Close "
                "that loses its last chunk) short; open-reader blocks: %d per shard, each enumerating for one file of "
                "6..10 bytes EVERY start point of the rewrite (before read 0..4 and before Close) x 4 backends x 3 rewrites "
                "(fits / equal / outgrows the old array) for a Reader and 5 start points x 4 backends for StreamCopy.  "
                "non-trivial = a writer over something existing or with >=2 chunks, a "
                "queued writer where both streams write, a reader with >=2 reads of a non-empty file, a copy of a "
                "non-empty source, an open reader (copy) of a non-empty file next to a non-empty rewrite; "
                "distinct = distinct case lines (64-bit digest)"
                % (n_rand, n_blocks, n_blocks))
    concrete_found = False
    try:
        # --- corpus
        ops = ctx.path("corpus.ops")
        with open(ops, "w") as h:
            for f in sorted(glob.glob(os.path.join(lib.ROOT, "corpus", "C04", "*.ops"))):
                h.writelines(l for l in open(f) if l.strip() and not l.startswith("#"))
        a, b = _pair(ctx, go, model, ops, "corpus")
        ctx.evaluations += ctx.count_lines(a)
        for o, x, y in _diffs(ops, a, b, limit=3):
            concrete_found |= _judge(ctx, go, model, o, "corpus")
        cl = [l.rstrip("\n") for l in open(ops) if l.strip()]
        fails, _ = _check_lines(ctx, go, cl, "corpuschk")
        ctx.evaluations += len(cl)
        if fails:
            # find the failing corpus lines one by one
            for l in cl:
                fl, _ = _check_lines(ctx, go, [l], "corpus1")
                if fl:
                    concrete_found = True
                    ctx.violation("impl-vs-spec", "corpus case: a clause of C04 fails on the implementation\n"
                                  + "\n".join(f[:500] for f in fl[:3]), lines=[l], annotations=[f[:600] for f in fl[:3]],
                                  concrete=True)
                    if len(ctx.violations) >= 3:
                        break
        ctx.log("corpus done")
        # --- random cases + fault blocks (differential) and the implementation-only oracle, sharded; the disk
        # backends wait for fsync most of the time, so the two campaigns share the machine
        with concurrent.futures.ThreadPoolExecutor(2 * NSHARDS) as ex:
            fd = [ex.submit(_shard, ctx, go, model, n_rand, n_blocks, s) for s in range(NSHARDS)]
            fo = [ex.submit(_oracle_shard, ctx, go, n_oracle, o_blocks, s) for s in range(NSHARDS)]
            results = [f.result() for f in fd]
            oracle_outs = [f.result() for f in fo]
        ctx.log("campaigns done")
    except RuntimeError as e:
        ctx.fatal(str(e))
    faults, pairs, stages, gen_counts = {}, {}, {}, {}
    lines = 0
    judged = 0
    for r in results:
        st = r["stats"]
        lines += st["lines"]
        for k, v in st["histogram"].items():
            ctx.histogram[k] += v
        for acc, key in ((faults, "faults"), (pairs, "pairs"), (stages, "stages")):
            for k, v in st[key].items():
                acc[k] = acc.get(k, 0) + v
        for hx_ in st.get("hashes") or []:
            ctx.distinct.add(bytes.fromhex(hx_.rjust(16, "0")))
        for line in r["gstat"].split("\n"):
            if line.startswith("genstat "):
                for tok in line.split()[1:]:
                    k, _, v = tok.partition("=")
                    gen_counts[k] = gen_counts.get(k, 0) + int(v)
        for o, x, y in r["diffs"]:
            if judged < 3:
                judged += 1
                try:
                    concrete_found |= _judge(ctx, go, model, o, "shard %d" % r["shard"])
                except RuntimeError as e:
                    ctx.fatal(str(e))
        if r["sample"]:
            for o, x, y in r["sample"][:4]:
                ctx.samples.append(dict(op=o[:300], impl=x[:300], model=y[:300]))
    ctx.evaluations += lines
    for k, v in gen_counts.items():
        ctx.histogram["gen:" + k] = v
    ctx.extra["fault_positions"] = dict(
        enumerated_in_blocks=gen_counts.get("faultpos", 0), blocks=gen_counts.get("faultblock", 0),
        with_fault_total=faults.get("positions", 0), by_outcome=faults, by_stage=stages)
    ctx.extra["backend_pairs"] = pairs
    ctx.extra["open_reader_rewrite"] = dict(
        start_points_enumerated_in_blocks=gen_counts.get("queuepos", 0), blocks=gen_counts.get("queueblock", 0),
        rewriter_held_up={k: ctx.histogram.get(k, 0) for k in ("rdq-sched:wait", "rdq-sched:free", "rdq-sched:stuck",
                                                               "scopyq-sched:wait", "scopyq-sched:free",
                                                               "scopyq-sched:stuck")},
        by_backend={k: v for k, v in ctx.histogram.items() if k.startswith("qbackend:")},
        yield_point_memfs_writer_open_reached=ctx.histogram.get("rdq-hook:memfs.writer.open", 0))
    ctx.extra["differential_lines"] = lines
    ctx.exhaustive = False
    missing = [a + ">" + b for a in ("mem", "disk", "encmem", "encdisk", "cache")
               for b in ("mem", "disk", "encmem", "encdisk", "cache") if not pairs.get(a + ">" + b)]
    gaps = ["pair " + m for m in missing]
    for key in ("wr:ok", "wr:err", "wrq:ok", "wrq:err", "rdq:ok", "scopyq:ok", "rdq-sched:wait", "rdq-sched:free",
                "scopyq-sched:wait", "scopyq-sched:free", "qbackend:mem", "qbackend:encmem", "qbackend:cache",
                "qbackend:rcache", "rd:rd", "scopy:ok", "scopy:err", "tcopy:ok", "tcopy:err", "copier:ok", "copier:err",
                "chunking:raw", "wr-old:dir:err", "wr-old:file:ok", "wr-old:noparent:ok", "wr-old:noparent:err"):
        if not ctx.histogram.get(key):
            gaps.append(key)
    for s in ("openReader", "read", "closeReader", "list", "srcView", "openWriter", "write", "closeWriter", "mkdir",
              "dstView"):
        if not stages.get(s):
            gaps.append("fault stage " + s)
    if faults.get("fired_ok"):
        ctx.notes.append("%d injected faults fired and the helper still returned nil with a complete copy "
                         "(allowed by the property; the model agrees on each)" % faults["fired_ok"])
    n_stuck = ctx.histogram.get("rdq-sched:stuck", 0) + ctx.histogram.get("scopyq-sched:stuck", 0)
    if n_stuck:
        ctx.notes.append("%d open-reader cases in which the rewriting goroutine neither finished nor parked on a lock "
                         "within 20 s" % n_stuck)
    if gaps:
        ctx.notes.append("coverage gap: no case of " + ", ".join(gaps))
    for bad in ("panic", "hang", "setup-err"):
        n_bad = sum(v for k, v in ctx.histogram.items() if k.endswith(":" + bad) and not k.startswith("oracle:"))
        if n_bad and bad == "setup-err":
            ctx.notes.append("%d cases could not be set up (harness problem, not judged)" % n_bad)
    # --- Spec vs implementation without the model
    try:
        concrete_found |= _oracle(ctx, go, model, oracle_outs)
    except RuntimeError as e:
        ctx.fatal(str(e))
    ctx.assumptions += [
        "io.Copy is the modelled generic loop (32 KiB buffer, ErrShortWrite, EOF handling); its ReadFrom/WriteTo fast "
        "paths are only exercised (raw cases), not modelled",
        "an encrypted filespace is observed from its plain side: AES-GCM / ext cipher opaque",
        "the cache is used with disjoint source and destination (overlapping/self copies through the cache hang: "
        "KF-C06-7 territory, property C06) and with pre-existing destination state in its buffer",
        "tree copies: the walk's visiting order is an arbitrary permutation of the source's nodes and callbacks run one "
        "at a time (C08; fshelper.Copy sets Consumers: 1); on `err` the destination depends on that order and is not "
        "compared between implementation and model",
        "an injected Close failure has closed the underlying stream (the decorator calls it first); the decorated "
        "writer is write-behind by one chunk, so that a `short` Close fault is a Close that fails to deliver its last "
        "bytes (diskfs syncs, the encrypting writer seals and writes, on Close)",
        "overlapping stream handles on one path are exercised as `a second stream queued behind an open writer` (the "
        "model runs the two one after the other) and as `a reader that stays open while another goroutine rewrites the "
        "same file` (rdq / scopyq; the model interleaves the two threads step by step) on the backends whose streams "
        "are memfs handles: mem, encmem, cache with the file in its buffer or in its remote memfs.  diskfs / encdisk "
        "have no handle lock — an open *os.File next to O_TRUNC + writes of the same file follows the operating "
        "system's semantics, about which the property says nothing — and are not part of that family",
        "whether the rewriting goroutine is held up is read off the Go runtime's wait reason of that goroutine "
        "(sync.Mutex.Lock / sync.RWMutex.Lock / semacquire, observed twice 0.3 ms apart) after it has been started: only "
        "ever waited for, up to 20 s; one reader and one rewriter per case",
        "path names are plain [a-z0-9]+ segments (spellings are C01/C03's subject)",
    ]
    ctx.trusted_base.append("the harness's fault-injecting Filespace decorator and its reference expectation "
                            "(overlay of the source on the old destination) in `stream oracle`")
    if failed:
        ctx.obligation_violations(failed, searcher=lambda: concrete_found)
    if not ctx.quick():
        ctx.leanchecker(["Goat.Props.C04", fs_tie.tie_module(ctx)])
        if any(not o["ok"] for o in ctx.obligations) and not failed:
            ctx.obligation_violations([o for o in ctx.obligations if not o["ok"]])


def replay(ctx, path):
    go = ctx.build_go("stream")
    model = ctx.build_model("m_stream")
    lines = lib.replay_ops(path)
    ops = ctx.path("replay.ops")
    open(ops, "w").write("\n".join(lines) + "\n")
    a, b = _pair(ctx, go, model, ops, "replay")
    rc = 0
    for o, x, y in zip(lines, open(a, errors="replace"), open(b, errors="replace")):
        print("op    ", o[:400])
        print("impl  ", x.strip()[:400])
        print("model ", y.strip()[:400])
        if x != y or x.strip() in ("panic", "hang"):
            rc = 1
    fails, _ = _check_lines(ctx, go, lines, "replaychk")
    for f in fails:
        print("oracle", f[:500])
        rc = 1
    print("replay:", "still failing" if rc else "implementation and model agree, every clause of the property holds")
    return rc
