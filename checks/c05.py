"""C05 — encrypted filespace: round-trip, secrecy, integrity, no crash on bad data.  PARTIAL (see META).

Theorems: lean/Goat/Props/C05.lean about lean/Goat/Model/Encrypt.lean (everything around the AEAD; the AEAD,
the key hash and the random source are parameters with their laws as hypotheses).

Correspondence (harness/cmd/enc drive  vs  m_enc), line by line on the same generated operations:
  fs    the REAL encryptfs over the real memfs/diskfs, with the real extcfs tag dispatch, and a transparent test
        AEAD (same toy as in Lean) injected through the public cipherfs.Cipher / extcfs.NewCipher interface:
        stored bytes, read result, chunks served and handle leaks are compared byte for byte; sweeps over EVERY
        truncation length and EVERY byte position of a small stored file
  aes   the REAL aesgcm256cfs / extcfs.NewDefaultCipher reading generated (valid, truncated, corrupted, junk)
        stored bytes; the model is instantiated with an AEAD whose `open` answers what AES-GCM answers for the
        nonce/ciphertext split (computed with the standard library and an independent SHA3-256)
  xkey  real AES-GCM, settings pairs from a colliding pool, against the model with an ideal AEAD
  ns    every Filespace method: the call the underlying filespace receives, and that its answer is passed on
  hist  histories with SEVERAL OPEN HANDLES on the real encryptfs + real AES-GCM (readers on different files /
        filespaces opened before earlier ones are drained, overwrites and stream writers in between, chunks of
        several writers interleaved, any close order; sizes 0 … 64 KiB+1) against Model/EncHandles.lean, where a
        reader is a snapshot of its file taken at open; every answer (digest of the bytes delivered) is compared
Spec vs implementation (harness/cmd/enc oracle): the property's clauses on the real code alone (see oracle.go).

Known finding KF-C05-1 (key material is a plain concatenation) is replayed on every run; any wrong-key
acceptance OUTSIDE that class is a violation.
"""
import concurrent.futures
import glob
import os

import lib

META = dict(
    level_claimed=dict(
        category="proof",
        text="PARTIAL. Proved in Lean 4 for all plaintexts/chunkings/stored byte strings of any length, both "
             "ciphers, all four write/read path pairs: round trip, totality of the framing (no panic for any stored "
             "bytes, no source handle left open), propagation of an AEAD refusal to an error on both read paths, "
             "which key reaches open (other_key, under 'the concatenations secret++host++salt differ'), nonce in "
             "front (different nonces give different stored bytes), plaintext enters the store only through seal, "
             "delegation of the name-space methods; the unrestricted other-key claim is DISPROVED "
             "(key_concat_collision, KF-C05-1). NOT proved but assumed (trusted base, exercised on the real code "
             "by the oracle on every run): confidentiality and authenticity of AES-256-GCM, collision resistance of "
             "SHA3-256, freshness of crypto/rand. The AEAD, the hash and the random source are parameters of the "
             "model with their laws as hypotheses (a lawful toy instance shows non-vacuity); the model is tied to "
             "/repo by byte-for-byte differential runs through the real encryptfs/extcfs/memfs/diskfs with the toy "
             "AEAD injected, and through the real AES-GCM ciphers with the AEAD's answers supplied as an oracle.",
        design_ref="DESIGN.md 3 C05"),
    level_note="Trusted: Lean kernel (axioms propext/Classical.choice/Quot.sound only); the hand-written model's "
               "correspondence to /repo (differential; reach printed in coverage.histogram); AES-256-GCM "
               "(crypto/aes, crypto/cipher) authenticity+confidentiality, SHA3-256 collision resistance and "
               "crypto/rand freshness are ASSUMPTIONS, exercised (every truncation / single-byte corruption of "
               "small files, wrong keys, substring search, double writes) but not proved; the harness's own "
               "SHA3-256 and toy cipher; the underlying filespace returning what was stored (C01/C02/C04).",
    technique="Lean 4 proof (parametric in the AEAD; soundness/invertibility predicates preserved by the tag "
              "dispatch) + byte-for-byte differential correspondence + property oracle on the real AES-GCM",
)

KF_ID = "KF-C05-1"


def _strip(line):
    return line.split(" | ", 1)[0].rstrip("\n")


def _drive_sharded(ctx, go, ops_lines, tag, shards, args=("drive",), who="implementation"):
    """run `enc drive` (or the model driver) over contiguous shards in parallel; returns the result lines in order"""
    n = len(ops_lines)
    if n == 0:
        return []
    shards = max(1, min(shards, n // 200 + 1))
    step = (n + shards - 1) // shards
    jobs = []
    for i in range(shards):
        part = ops_lines[i * step:(i + 1) * step]
        if not part:
            continue
        p_in, p_out = ctx.path("%s.%d.ops" % (tag, i)), ctx.path("%s.%d.impl" % (tag, i))
        with open(p_in, "w") as h:
            h.writelines(l + "\n" for l in part)
        jobs.append((p_in, p_out, len(part)))

    def one(job):
        rc, err = ctx.run_lines(go, list(args), job[0], job[1], timeout=3000)
        return rc, err

    with concurrent.futures.ThreadPoolExecutor(max_workers=len(jobs)) as ex:
        results = list(ex.map(one, jobs))
    out = []
    for (p_in, p_out, cnt), (rc, err) in zip(jobs, results):
        if rc != 0:
            ctx.fatal("%s driver failed rc=%d %s" % (who, rc, err[-500:]))
        lines = [l.rstrip("\n") for l in open(p_out)]
        if len(lines) != cnt:
            ctx.fatal("%s driver answered %d lines for %d ops" % (who, len(lines), cnt))
        out += lines
    return out


def _model(ctx, model, ops_lines, tag, shards=1):
    if shards > 1:      # every line is a self-contained case: the model can be run over shards as well
        return _drive_sharded(ctx, model, ops_lines, tag + ".m", shards, args=(), who="model")
    p_in, p_out = ctx.path(tag + ".all.ops"), ctx.path(tag + ".model")
    with open(p_in, "w") as h:
        h.writelines(l + "\n" for l in ops_lines)
    rc, err = ctx.run_lines(model, [], p_in, p_out)
    if rc != 0:
        ctx.fatal("model driver failed rc=%d %s" % (rc, err[-500:]))
    lines = [l.rstrip("\n") for l in open(p_out)]
    if len(lines) != len(ops_lines):
        ctx.fatal("model driver answered %d lines for %d ops" % (len(lines), len(ops_lines)))
    return lines


def _fields(res):
    return dict(t.split("=", 1) for t in res.split(" ") if "=" in t)


def _content(parts):
    if parts in ("_", ""):
        return ""
    return "".join("" if p.split("/")[0] == "-" else p.split("/")[0] for p in parts.split(","))


def _xkey_spec(op):
    """('same'|'err'|None, in_kf_class): what the property demands of an xkey line"""
    f = op.split(" ")
    h1, s1, t1, h2, s2, t2 = f[3], f[4], f[5], f[6], f[7], f[8]
    dec = lambda x: "" if x == "-" else x
    same_ss = (s1, t1) == (s2, t2)
    # idutil.HostID() is "" (confirmed by `enc hostid`), so the concatenation is secret ++ salt
    concat_eq = dec(s1) + dec(t1) == dec(s2) + dec(t2)
    if same_ss and h1 == h2:
        return "same", False
    if same_ss:
        return None, False          # only the host binding differs: no demand in the property
    return "err", concat_eq


def _early_eof(parts):
    """a consumer that stops at the first EOF flag would miss data"""
    if parts in ("_", ""):
        return False
    seen = False
    for p in parts.split(","):
        d, _, e = p.partition("/")
        if seen and d != "-":
            return True
        seen = seen or e == "1"
    return False


def _hist_verdict(op, impl, model):
    """a `hist` line: which differing answer contradicts the property by itself?  The model's answers are the
    property here (content at open time / error for another secret or a missing file); only HOW MANY bytes a
    single Read delivers and when it reports EOF is left open by io.Reader, so a difference confined to `rd`
    answers that are data on both sides is not a counterexample by itself (the oracle judges the bytes)."""
    if not (impl.startswith("h=") and model.startswith("h=")):
        return False, ""
    steps, ai, am = op.split(" ")[4].split(","), impl[2:].split(","), model[2:].split(",")
    for st, a, b in zip(steps, ai, am):
        if a == b:
            continue
        kind = st.split(":")[0]
        a_data, b_data = "/" in a, "/" in b
        if kind == "rd" and a_data and b_data:
            continue
        if kind in ("rd", "ra") and a_data and b_data:
            return True, ("step %s: the reader delivered %s, the file held %s when the reader was opened (len/fnv32)"
                          % (st, a, b))
        if kind in ("rd", "ra", "rf") and b_data:
            return True, "step %s: answered %s where the content %s must be read back" % (st, a, b)
        if kind in ("rf", "or") and b == "err" and a != "err":
            return True, "step %s: answered %s where another secret / a missing file must be refused" % (st, a)
        if kind == "rf":
            return True, "step %s: ReadFile answered %s, the file holds %s" % (st, a, b)
        if b == "ok":
            return True, "step %s: answered %s instead of ok" % (st, a)
    return False, ""


def _classify(op, impl, model):
    """is this implementation/model difference by itself a counterexample to the property?"""
    verb = op.split(" ", 1)[0]
    if "panic" in impl:
        return True, "the implementation panicked"
    if impl == "hang":
        return True, "the implementation blocked for ever (watchdog)"
    fi, fm = _fields(impl), _fields(_strip(model))
    if fi.get("leak") == "1":
        return True, "the source handle was left open (the file stays locked on memfs)"
    if fi.get("r") == "ok" and _early_eof(fi.get("parts", "_")):
        return True, "the decrypting reader reported EOF before it had delivered all data"
    if verb == "ns":
        return True, "a Filespace method is not passed to the underlying filespace exactly"
    if verb == "xkey":
        spec, kf = _xkey_spec(op)
        if spec == "err" and not kf and fi.get("r") in ("same", "other"):
            return True, "another secret/salt was answered with data (outside the class of %s)" % KF_ID
        if spec == "same" and fi.get("r") != "same":
            return True, "equal settings do not read back what was written"
        return False, ""
    if verb == "fs":
        f = op.split(" ")
        same_set = f[3:6] == f[10:13]
        if f[9] == "none" and same_set and fi.get("w") == "ok":
            want = _content(f[8].replace("_", ""))
            if fi.get("r") != "ok" or _content(fi.get("parts", "_")) != want:
                return True, "an untampered file is not read back identically with the same settings"
        if fm.get("r") == "err" and fi.get("r") == "ok":
            return True, "data was returned where the framing must refuse"
        return False, ""
    if verb == "hist":
        return _hist_verdict(op, impl, _strip(model))
    if verb == "aes":
        f = op.split(" ")
        if fm.get("r") == "err" and fi.get("r") == "ok":
            return True, "the real cipher returned data for stored bytes that must be refused"
        if fm.get("r") == "ok" and f[6] != "none" and fi.get("r") != "ok":
            return True, "the real cipher refuses stored bytes that AES-GCM authenticates"
        return False, ""
    return False, ""


def _oracle(ctx, go, tier):
    out = ctx.path("oracle.out")
    rc, err = ctx.run_lines(go, ["oracle", tier], None, out, timeout=3000)
    if rc != 0:
        ctx.fatal("oracle run failed: " + err[-500:])
    fails, summary, notes = [], "", []
    for l in open(out):
        if l.startswith("FAIL "):
            fails.append(l.rstrip("\n"))
        elif l.startswith("oracle "):
            summary = l.strip()
        elif l.startswith("NOTE "):
            notes.append(l.strip())
    if not summary:
        ctx.fatal("oracle printed no summary")
    for tok in summary.split()[1:]:
        k, _, v = tok.rpartition("=")
        if k == "cases":
            ctx.evaluations += int(v)
        elif k != "fails":
            ctx.histogram["oracle:" + k] += int(v)
    ctx.extra["oracle_summary"] = summary[:6000]
    ctx.extra["oracle_notes"] = notes
    return fails


def _kf_replay(ctx, go, model):
    """replay the witness of every listed finding on the implementation; print KNOWN-FINDING"""
    for kf in ctx.known_findings():
        wit = [l for l in kf.get("witness", []) if l.strip() and not l.startswith("#")]
        impl = _drive_sharded(ctx, go, wit, "kf", 1)
        mod = [_strip(l) for l in _model(ctx, model, wit, "kf")]
        accepted = [i for i, r in enumerate(impl) if r == "r=same"]
        ctx.extra.setdefault("known_finding_witness", []).append(
            dict(id=kf["id"], lines=len(wit), impl=sorted(set(impl)), model=sorted(set(mod))))
        if len(accepted) == len(wit) and impl == mod:
            ctx.known(kf["id"], "key material is the plain concatenation secret++host++salt: (secret \"st\", salt \"\") reads "
                                "what (secret \"s\", salt \"t\") wrote (%d witness lines: both ciphers, all four path pairs, both bases)"
                      % len(wit))
        else:
            bad = [(w, a, b) for w, a, b in zip(wit, impl, mod) if a != b or a != "r=same"]
            panicky = any("panic" in a or a == "hang" for _, a, _ in bad)
            ctx.violation("impl-vs-spec" if panicky else "impl-vs-model",
                          "the witness of %s no longer behaves as recorded (implementation %s, model %s): the finding "
                          "or the model is out of date" % (kf["id"], bad[0][1], bad[0][2]),
                          lines=[b[0] for b in bad[:4]], annotations=["impl: " + bad[0][1], "model: " + bad[0][2]],
                          concrete=panicky)


def run(ctx):
    failed = ctx.lean_obligations()
    go = ctx.build_go("enc")
    model = ctx.build_model("m_enc")
    n_rand = ctx.pick(60000, 1000000)
    shards = ctx.pick(8, 14)
    ctx.rule = ("corpus/C05 first; sweeps: every truncation length and every byte position (masks 01, 80) of a small "
                "stored file for toy/ext:7 x both read paths, every truncation and position for the real raw/tagged "
                "cipher, every Filespace method; then %d random ops from VERIF_SEED (55%% fs: cipher spec, base, two "
                "settings from a colliding pool, write/read path, chunking, read buffer sizes, entropy incl. too "
                "short, tamper none/trunc/flip/set; 25%% aes; 10%% xkey; 10%% ns — shares of the 20/22 that are not hist; 2/22 hist: "
                "1-3 filespaces over one base, 2-4 files, 6-23 steps among open reader / Read / read all / close / "
                "WriteFile / ReadFile / open writer / Write / close writer with up to 5 readers and 3 writers open at "
                "once, sizes from {0, 1-40, 15-17, ~512, ~1 KiB, 1024, ~4 KiB, 4096, 64 KiB+1, <3000, <9000}; before "
                "them the hist sweep: every ordered pair of sizes {0,1,16,600,1024,4096,65537} x both ciphers x four "
                "schedules (second reader on another file opened before the first is read; through a filespace with "
                "another secret; overwrite between two readers of one file; two writers alternating)). non-trivial = the write succeeded "
                "(fs) / any aes, xkey, ns line; distinct = distinct op lines.  Oracle: see oracle_summary."
                % n_rand)
    # ---------------------------------------------------------------- host id (model: hostIDActual = "")
    rc, out = ctx.capture([go, "hostid"])
    ctx.extra["idutil_HostID"] = out.strip()
    if out.strip() != "hostid=-":
        ctx.notes.append("idutil.HostID() no longer returns the empty string: the model's hostIDActual is out of date "
                         "(lines with hostOnly=1 will differ)")
    else:
        ctx.notes.append("observation (outside the property's demands): idutil.HostID() returns \"\" because its named "
                         "result shadows the package variable, so Settings.HostOnly adds nothing to the key material "
                         "(Lean: host_binding_inert; oracle class wrongkey:host-binding-only:reads=true)")
    # ---------------------------------------------------------------- known finding witness
    _kf_replay(ctx, go, model)
    # ---------------------------------------------------------------- correspondence
    ops = []
    for f in sorted(glob.glob(os.path.join(lib.ROOT, "corpus", "C05", "*.ops"))):
        ops += [l.rstrip("\n") for l in open(f) if l.strip() and not l.startswith("#")]
    n_corpus = len(ops)
    rc, err = ctx.run([go, "gen", str(n_rand)], stdout=ctx.path("gen.ops"))
    if rc != 0:
        ctx.fatal("generator failed: " + err[-500:])
    ops += [l.rstrip("\n") for l in open(ctx.path("gen.ops")) if l.strip()]
    ctx.extra["sweep_ops"] = len(ops) - n_corpus - n_rand      # systematic part of the generator
    ctx.extra["random_ops"] = n_rand
    impl = _drive_sharded(ctx, go, ops, "corr", shards)
    mod = _model(ctx, model, ops, "corr", shards)
    ctx.log("correspondence: %d ops (%d corpus)" % (len(ops), n_corpus))
    mism, kf_class, spec_viol = [], 0, []
    for i, (o, a, b) in enumerate(zip(ops, impl, mod)):
        verb = o.split(" ", 1)[0]
        branch = b.split(" | ", 1)[1] if " | " in b else "-"
        if verb == "ns":
            branch = o.split(" ")[1]
        ctx.evaluations += 1
        ctx.note_case(o, nontrivial=not (a.startswith("w=err") or a == "bad-op"), kind="%s:%s" % (verb, branch.replace(" ", ",")))
        if verb == "hist" and a.startswith("h="):
            for st, ans in zip(o.split(" ")[4].split(","), a[2:].split(",")):
                ctx.histogram["hist-step:%s:%s" % (st.split(":")[0], "data" if "/" in ans else ans)] += 1
        if a != _strip(b):
            mism.append((i, o, a, b))
        elif verb == "xkey":
            spec, kf = _xkey_spec(o)
            got = _fields(a).get("r")
            if spec is not None and got != spec:
                if kf and got == "same":
                    kf_class += 1        # inside the documented defect class, equal to the model
                else:
                    spec_viol.append((i, o, a, spec))
        if len(ctx.samples) < 7 and verb in ("fs", "aes", "xkey", "hist") and i % 997 == 0:
            ctx.samples.append(dict(op=o[:600], impl=a[:600], model=b[:600]))
    ctx.histogram["xkey:inside-" + KF_ID + "-class"] = kf_class
    ctx.extra["correspondence_ops"] = len(ops)
    ctx.extra["correspondence_mismatches"] = len(mism)
    ctx.extra["hist_ops"] = sum(1 for o in ops if o.startswith("hist "))
    ctx.extra["hist_bad_op"] = sum(1 for o, a in zip(ops, impl) if o.startswith("hist ") and a == "bad-op")
    if ctx.extra["hist_bad_op"]:
        ctx.notes.append("%d generated hist lines were not well formed (bad-op on both sides)" % ctx.extra["hist_bad_op"])
    zero = [k for k in ("hist:handles:1", "hist:handles:2", "hist:handles:3", "hist:handles:6", "fs:w:ok,r:ok", "fs:w:ok,r:auth", "fs:w:ok,r:short", "fs:w:ok,r:unknownTag", "fs:w:entropy",
                        "aes:r:ok", "aes:r:auth", "aes:r:short", "aes:r:unknownTag", "aes:r:io")
            if not ctx.histogram.get(k)]
    if zero:
        ctx.notes.append("model branches with zero hits in this campaign: " + ", ".join(zero))
    ctx.notes.append("model branch never expected: panic (framing_total); hits: %d" % sum(
        v for k, v in ctx.histogram.items() if "panic" in k))
    # ---------------------------------------------------------------- Spec vs implementation
    ofails = _oracle(ctx, go, "quick" if ctx.quick() else "thorough")
    # ---------------------------------------------------------------- verdicts
    concrete_found = False
    if ofails:
        concrete_found = True
        # a failed history of the class `handles` carries its own op line: it is replayed as such
        hist_lines = [f[f.index(": hist ") + 2:] for f in ofails if f.startswith("FAIL handles ") and ": hist " in f]
        ctx.violation("impl-vs-spec", "the property fails on the real code (oracle):\n" + "\n".join(f[:700] for f in ofails[:8]),
                      lines=hist_lines[:3] + ["oracle %s seed=%d" % ("quick" if ctx.quick() else "thorough", ctx.seed)],
                      annotations=["oracle: " + f[:300] for f in ofails[:8]], concrete=True)
    for i, o, a, spec in spec_viol[:3]:
        concrete_found = True
        ctx.violation("impl-vs-spec", "op %d: settings with another secret/salt (different concatenation) were not "
                                      "refused: expected %s" % (i, spec),
                      lines=[o], annotations=["spec: r=" + spec, "impl: " + a], concrete=True)
    # differences that contradict the property by themselves are reported first
    ranked = sorted(((not _classify(o, a, b)[0], i, o, a, b) for i, o, a, b in mism[:5000]), key=lambda t: t[:2])
    for _, i, o, a, b in ranked[:4]:
        conc, why = _classify(o, a, b)
        concrete_found |= conc
        ctx.violation("impl-vs-spec" if conc else "impl-vs-model",
                      "implementation and model differ on op %d%s" % (i, (": " + why) if why else ""),
                      lines=[o], annotations=["impl: " + a[:2000], "model: " + b[:2000]],
                      concrete=conc or bool(ofails))
    if failed:
        def searcher():
            if concrete_found:
                return True
            deep = _oracle(ctx, go, "thorough") if ctx.quick() else []
            if deep:
                ctx.violation("impl-vs-spec", "the property fails on the real code (deep oracle):\n" + "\n".join(deep[:8]),
                              lines=["oracle thorough seed=%d" % ctx.seed], concrete=True)
            return bool(deep)
        ctx.obligation_violations(failed, searcher=searcher)
    if not ctx.quick():
        ctx.leanchecker(["Goat.Props.C05"])
        if any(not o["ok"] for o in ctx.obligations) and not failed:
            ctx.obligation_violations([o for o in ctx.obligations if not o["ok"]])
    ctx.exhaustive = False
    ctx.assumptions += [
        "AES-256-GCM (crypto/aes + crypto/cipher) is authentic: Open under a key, nonce or ciphertext other than the sealing ones fails (parameter `a.open`; exercised by the oracle's exhaustive truncation/corruption and wrong-key cases, not proved)",
        "AES-256-GCM is confidential: Seal's output reveals nothing about the plaintext (exercised only by substring search)",
        "SHA3-256 does not collide on the key materials in use (hypothesis `hcoll` of other_key)",
        "crypto/rand delivers at least 12 bytes and fresh nonces (hypothesis `nonceSize <= ent.length`; fresh_nonce_distinct needs different draws; exercised by double writes)",
        "the underlying filespace returns what was stored (BaseOps.LoadStore; properties C01/C02/C04)",
        "a failing Close of the underlying stream is not modelled",
    ]
    ctx.trusted_base += [
        "Go crypto/aes, crypto/cipher (GCM), golang.org/x/crypto/sha3, crypto/rand: parameters of the model, laws assumed",
        "harness/cmd/enc: toy cipher (mirror of toyAEAD), independent SHA3-256 (self-tested against two vectors), spy filespace",
    ]


def replay(ctx, path):
    go = ctx.build_go("enc")
    model = ctx.build_model("m_enc")
    lines = lib.replay_ops(path)
    rc = 0
    ops = [l for l in lines if not l.startswith("oracle ")]
    for l in lines:
        if l.startswith("oracle "):
            f = l.split()
            env = {"VERIF_SEED": f[2].split("=")[1]} if len(f) > 2 and f[2].startswith("seed=") else {}
            out = ctx.path("oracle.replay")
            ctx.run_lines(go, ["oracle", f[1]], None, out, env=env, timeout=3000)
            for r in open(out):
                if r.startswith("FAIL ") or r.startswith("oracle "):
                    print(r.rstrip("\n")[:600])
                if r.startswith("FAIL "):
                    rc = 1
    if ops:
        impl = _drive_sharded(ctx, go, ops, "replay", 1)
        mod = _model(ctx, model, ops, "replay")
        for o, a, b in zip(ops, impl, mod):
            print("op    ", o[:600])
            print("impl  ", a[:600])
            print("model ", b[:600])
            if a != _strip(b) or "panic" in a or a == "hang" or "leak=1" in a:
                rc = 1
    print("replay:", "still failing" if rc else "implementation and model agree; no panic, hang or leaked handle")
    return rc


META["level_claimed"]["text"] += (' Added (Model/EncHandles.lean, histories with several open handles): reader_holds_content_at_open, open_reader_untouched (any history of any length that does not address the handle, any cipher), reader_delivers_content_at_open; correspondence family `hist` and oracle class `handles`.')
