"""C06 — write-back cache: nothing reaches the remote before Commit, everything after.  KNOWN FINDINGS (see META).

Theorems: lean/Goat/Props/C06.lean about lean/Goat/Model/Cache.lean (every method of fscache.Cache, Copier / SubFS,
Commit with the Go map iteration orders as parameters and an injected remote failure position).
Correspondence and oracle: checks/cache_common.py (shared with C07) — this check judges the lines that are about the
remote: `dump 0` after every operation (must not change outside Commit — no exception), Commit verdicts, the remote
tree after Commit / after a second Commit / after failed-then-successful Commit, and the verdicts of mutating calls.
"""
import cache_common as cc

META = dict(
    level_claimed=dict(
        category="proof",
        text="Lean 4 theorems about the executable mirror of fscache.Cache (all remote trees, op lists of any length, all "
             "spellings, child views): PROVED at full strength: remote_untouched (no sequence of cache operations changes the "
             "remote: clause (i) 'nothing before Commit'), commit_fail_reported (an injected remote failure makes Commit "
             "report an error), commit_clears_nothing. The clause 'after Commit the remote equals direct application' is "
             "DISPROVED for the code as it is (commit_equiv_false: one machine-checked witness per finding class "
             "KF-C06-1..12, recorded in known_findings.d/C06.json and replayed on every run) and PROVED as "
             "commit_equiv_partial / commit_retry_partial / commit_order_irrelevant_partial for the class of histories "
             "made of WriteFile / Writer / MkdirAll through the cache or child views in which every operation also succeeds "
             "when applied directly (see level_note for the exact hypotheses). The model is tied to /repo on every run by a "
             "line-by-line differential (real fscache over real memfs behind a failing-remote decorator vs the compiled "
             "model) over random histories, restricted-class histories and a failure-position sweep; the decidable defect "
             "predicates (Goat.Cache.defectsAt) classify every history: outside all classes implementation = model = "
             "direct application, inside a class implementation = model (the documented wrong behaviour is pinned).",
        design_ref="DESIGN.md 3 C06"),
    level_note="KNOWN FINDINGS: the 'everything after Commit' clause fails on the current code in 12 classes (unordered "
               "journals, no tombstones; repair = redesign), listed with witnesses; the check exits 0 printing them and "
               "still reports any change of the remote outside Commit, any deviation from the model, and any deviation "
               "from direct application outside the listed classes. Trusted: Lean kernel (axioms propext/Classical.choice/"
               "Quot.sound only); the hand-written model's correspondence to /repo (differential; reach printed in the "
               "histogram); the defect predicates' completeness is empirical (every explored history on which the model "
               "deviates from direct application is in a listed class), their soundness for the `_partial` class is a "
               "theorem only as far as Props/C06.lean states; memfs as remote and as buffer (C01); Go map iteration = some "
               "permutation; a failing remote call has no effect; fshelper.Copy's goroutine walk modelled sequentially "
               "(its outcome after an error, and copies with overlapping arguments, are kept out of the campaigns).",
    technique="Lean 4 proof (invariant over histories; refinement to the point-wise FS spec through the C01 theorems; "
              "disproof by evaluated witnesses) + differential correspondence with fault injection + reference oracle + "
              "decidable defect-class classification",
)

PROP = "C06"


def run(ctx):
    failed = ctx.lean_obligations()
    try:
        sides = cc.Sides(ctx)
        cc.replay_findings(ctx, sides, PROP)
        concrete = cc.corpus(ctx, sides, PROP)
        n = ctx.pick(1600, 110000)
        plan = [("gen", n), ("genclean", ctx.pick(500, 30000)), ("genryw", ctx.pick(200, 8000))]
        ctx.rule = ("corpus/C06 (witnesses of the findings) first; then per shard (16, seeds from VERIF_SEED) random histories: "
                    "0..12 nodes written on a memfs remote, `new 1 cache 0`, 3..14 mutating calls {write writer mkdir remove "
                    "removeall copy copyfile copydir view} through the cache or child views (names {a,b,c}, depth<=3, odd "
                    "spellings 1/3, climbing/root spellings 8%%, 60%% 'polite' draws that avoid type conflicts), each followed "
                    "by 1..3 reads of the 7 kinds, sometimes the full walk through the cache, always `dump 0`; 0..2 "
                    "intermediate commits + final commit twice, one in three with `failat k` and retry, `order s` for the "
                    "model; for short histories one variant per call index of the final Commit (failure-position sweep). "
                    "Plan: %s.  genclean = class of commit_equiv_partial, genryw = class of ryw_partial.  non-trivial = a "
                    "mutation succeeded and a call failed; distinct = distinct op-line sequences (64-bit digest)."
                    % ", ".join("%s %d" % p for p in plan))
        c2, results = cc.campaign(ctx, sides, PROP, plan)
        concrete |= c2
        cc.account(ctx, results)
        concrete |= cc.oracle(ctx, sides, PROP, [("oracle", ctx.pick(1200, 50000)), ("oracleclean", ctx.pick(400, 15000))])
    except RuntimeError as e:
        ctx.fatal(str(e))
    ctx.assumptions += [
        "the remote and the buffer are memory filespaces (property C01); a failing remote call has no effect and is one of "
        "Remove / RemoveAll / MkdirAll / Writer (the calls of Commit that can report an error)",
        "Go map iteration is some permutation of the keys (the model's Commit takes the four orders as parameters)",
        "the goroutine walk of fshelper.Copy performs the same callbacks as the sequential walk of the model when none "
        "fails; failing directory copies onto existing buffer children and copies with overlapping arguments (KF-C06-7) are "
        "not generated in bulk",
        "Writer/Reader handles are used atomically (open, writes/reads, close)",
    ]
    ctx.trusted_base.append("fsdrv.Ref, the flat reference of the `cache oracle` (direct application), as second opinion "
                            "independent of the Lean model")
    if failed:
        ctx.obligation_violations(failed, searcher=lambda: concrete)
    if not ctx.quick():
        ctx.leanchecker(["Goat.Props.C06"])
        if any(not o["ok"] for o in ctx.obligations) and not failed:
            ctx.obligation_violations([o for o in ctx.obligations if not o["ok"]])


def replay(ctx, path):
    return cc.replay(ctx, path, PROP)
