"""C06 — write-back cache: nothing reaches the remote before Commit, everything after.  KNOWN FINDINGS (see META).

Theorems: lean/Goat/Props/C06.lean about lean/Goat/Model/Cache.lean (every method of fscache.Cache, Copier / SubFS,
Commit with the Go map iteration orders as parameters and an injected remote failure position).
Correspondence and oracle: checks/cache_common.py (shared with C07) — this check judges the lines that are about the
remote: `dump 0` after every operation (must not change outside Commit — no exception), Commit verdicts, the remote
tree after Commit / after a second Commit / after failed-then-successful Commit, and the verdicts of mutating calls.
"""
import cache_common as cc

META = dict(
    level_claimed=dict(
        category="proof",
        text="Lean 4 theorems about the executable mirror of fscache.Cache (Goat/Model/Cache.lean; all remote trees, "
             "histories of any length, all path spellings, child views of any depth). PROVED AT FULL STRENGTH: "
             "remote_untouched (clause 1: no sequence of cache operations, succeeding or failing, changes the remote), "
             "commit_order_irrelevant (in every reachable state the Go map iteration order changes neither the verdict "
             "of Commit nor the tree it leaves when it succeeds), commit_fail_reported (a remote call that fails during "
             "Commit makes Commit report an error: every state, order and position), commit_changes_only_remote, failed_call_journals_nothing and overlapping_copy_refused (the repairs of KF-C06-5/8 and KF-C06-7 as theorems). "
             "The clause 'after a successful Commit the remote equals direct application' is DISPROVED for the code as it "
             "is (commit_equiv_false; findings_witnessed evaluates one witness per remaining finding class KF-C06-1, 2, 4, 6, 9..12 — KF-C06-3, 5, 7, 8 are repaired in /repo, repaired_findings evaluates their former witnesses — the same "
             "histories are replayed on the Go code on every run) and PROVED as commit_equiv_partial / "
             "commit_retry_partial / second_commit_unchanged_partial / commit_order_irrelevant_partial on the class: "
             "histories of WriteFile / Writer / MkdirAll / CopyFile through the cache or child views in which every "
             "operation also succeeds when applied directly (the negation of the defect predicates). Direct application is the point-wise FS specification (direct_is_spec, via the "
             "C01 refinement). The model is tied to /repo on every run by a line-by-line differential (real fscache over "
             "real memfs behind a failing-remote decorator vs the compiled model: remote walked after every operation, "
             "Commit with failure injected at every position, retries) and a reference oracle; decidable defect "
             "predicates (Goat.Cache.defectsAt) classify every history: outside all classes implementation = model = "
             "direct application, inside a class implementation = model (the documented wrong behaviour is pinned).",
        design_ref="DESIGN.md 3 C06"),
    level_note="KNOWN FINDINGS: 'everything after Commit' fails on the current code in 8 classes (unordered journals "
               "without tombstones, buffer-or-remote source resolution, the buffer's ignorance of the remote's node kinds; "
               "repair = redesign), listed with witnesses in known_findings.d/C06.json; the check exits 0 printing them "
               "and still reports (a) any change of, or mutating call on, the remote outside Commit, (b) any deviation "
               "from direct application outside the listed classes, (c) any deviation from the model anywhere. Trusted: "
               "Lean kernel (axioms propext/Classical.choice/Quot.sound only); the hand-written model's correspondence "
               "to /repo (differential; reach printed in the histogram); completeness of the defect predicates is "
               "EMPIRICAL (every explored history on which the model deviates from direct application is in a listed "
               "class; that the partial class contains no defect event is exercised by the genclean campaign); memfs as "
               "remote and buffer (C01); Go map iteration = some permutation; a failing remote call (Remove, RemoveAll, "
               "MkdirAll, Writer, and Write / Close on the remote's writers) has no effect beyond what was written before it; "
               "fshelper.Copy's goroutine walk modelled sequentially (its outcome after an error is kept out of the bulk campaigns). A failed Commit leaves an order-dependent "
               "remote: between a failed Commit and the next successful one remote-dependent answers are not compared.",
    technique="Lean 4 proof (overlay + journal invariants over histories through the C01 refinement; Commit loops as "
              "folds of pairwise commuting Kleisli steps; disproof by evaluated witnesses) + differential correspondence "
              "with fault injection + reference oracle + decidable defect-class classification",
)

PROP = "C06"


def run(ctx):
    failed = ctx.lean_obligations()
    try:
        sides = cc.Sides(ctx)
        cc.replay_findings(ctx, sides, PROP)
        concrete = cc.corpus(ctx, sides, PROP)
        n = ctx.pick(1600, 40000)
        plan = [("gen", n), ("genclean", ctx.pick(500, 12000)), ("genryw", ctx.pick(200, 4000))]
        ctx.rule = ("corpus/C06 (witnesses of the findings, and of the repaired ones as regression cases) first; then per shard (16, seeds from VERIF_SEED) random histories: "
                    "0..12 nodes written on a memfs remote, `new 1 cache 0`, 3..14 mutating calls {write writer mkdir remove "
                    "removeall copy copyfile copydir view} through the cache or child views (names {a,b,c}, depth<=3, odd "
                    "spellings 1/3, climbing/root spellings 8%%, 60%% 'polite' draws that avoid type conflicts), each followed "
                    "by 1..3 reads of the 7 kinds, sometimes the full walk through the cache, always `dump 0`; 0..2 "
                    "intermediate commits + final commit twice, one in three with `failat k` and retry, `order s` for the "
                    "model; for short histories one variant per call index of the final Commit (failure-position sweep). "
                    "Plan: %s.  genclean = class of commit_equiv_partial, genryw = class of ryw_partial.  non-trivial = a "
                    "mutation succeeded and a call failed; distinct = distinct op-line sequences (64-bit digest)."
                    % ", ".join("%s %d" % p for p in plan))
        c2, results = cc.campaign(ctx, sides, PROP, plan)
        concrete |= c2
        cc.account(ctx, results)
        concrete |= cc.oracle(ctx, sides, PROP, [("oracle", ctx.pick(1200, 16000)), ("oracleclean", ctx.pick(400, 6000))])
    except RuntimeError as e:
        ctx.fatal(str(e))
    ctx.assumptions += [
        "the remote and the buffer are memory filespaces (property C01); a failing remote call is one of Remove / RemoveAll "
        "/ MkdirAll / Writer (no effect) or a Write / Close on a writer the remote handed out (a failing Write writes "
        "nothing, a failing Close is reported after the data was written)",
        "Go map iteration is some permutation of the keys (the model's Commit takes the four orders as parameters)",
        "the goroutine walk of fshelper.Copy performs the same callbacks as the sequential walk of the model when none "
        "fails; failing directory copies onto existing buffer children are not generated in bulk",
        "Writer/Reader handles are used atomically (open, writes/reads, close)",
    ]
    ctx.trusted_base.append("fsdrv.Ref, the flat reference of the `cache oracle` (direct application), as second opinion "
                            "independent of the Lean model")
    if failed:
        ctx.obligation_violations(failed, searcher=lambda: concrete)
    if not ctx.quick():
        ctx.leanchecker(["Goat.Props.C06"])
        if any(not o["ok"] for o in ctx.obligations) and not failed:
            ctx.obligation_violations([o for o in ctx.obligations if not o["ok"]])


def replay(ctx, path):
    return cc.replay(ctx, path, PROP)
