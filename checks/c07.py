"""C07 — cache view reflects its own pending operations (read-your-writes).  KNOWN FINDINGS (see META).

Theorems: lean/Goat/Props/C07.lean about lean/Goat/Model/Cache.lean.
Correspondence and oracle: checks/cache_common.py (shared with C06) — this check judges the read-type lines through
the cache and its child views (isexist isfile isdir readfile reader readdir lstat, `dump <cache>` = the full walk) and
the verdicts of mutating calls.
"""
import cache_common as cc

META = dict(
    level_claimed=dict(
        category="proof",
        text="Lean 4 theorems about the executable mirror of fscache.Cache (all remote trees, op lists of any length, all "
             "spellings): PROVED at full strength: readDir_nodup (the merged listing never lists a name twice), "
             "read_after_write (data written through the cache is what ReadFile/Reader return, whatever the remote holds), "
             "view_is_subpath (a child view answers what the cache answers at base/path). The full read-your-writes "
             "statement is DISPROVED for the code as it is (ryw_false: one machine-checked witness per finding class "
             "KF-C07-1..6, recorded in known_findings.d/C07.json and replayed on every run) and PROVED as ryw_partial for "
             "the class of histories made of WriteFile / Writer / MkdirAll in which every operation also succeeds when "
             "applied directly (see level_note). The model is tied to /repo on every run by a line-by-line differential "
             "with reads of all seven kinds after every mutation; decidable defect predicates classify every history: "
             "outside all classes implementation = model = direct application, inside a class implementation = model.",
        design_ref="DESIGN.md 3 C07"),
    level_note="KNOWN FINDINGS: read-your-writes fails on the current code in 6 classes (removes are invisible while the "
               "remote still has the node; the buffer does not know the remote's node kinds; buffer-or-remote source "
               "resolution of copies; rooted climbing paths), listed with witnesses; the check exits 0 printing them and "
               "still reports any deviation from the model and any deviation from direct application outside the classes. "
               "Reads are judged up to the first deviation of a Commit (C06) in a history. Trusted: as C06.",
    technique="Lean 4 proof (overlay invariant over histories through the C01 refinement; disproof by evaluated "
              "witnesses) + differential correspondence + reference oracle + decidable defect-class classification",
)

PROP = "C07"


def run(ctx):
    failed = ctx.lean_obligations()
    try:
        sides = cc.Sides(ctx)
        cc.replay_findings(ctx, sides, PROP)
        concrete = cc.corpus(ctx, sides, PROP)
        plan = [("gen", ctx.pick(1600, 110000)), ("genryw", ctx.pick(500, 30000)), ("genclean", ctx.pick(200, 8000))]
        ctx.rule = ("corpus/C07 (witnesses of the findings) first; then the generators of C06 (see evidence/C06.json `rule`): "
                    "random histories over a populated memfs remote and a cache with child views, every mutating call followed "
                    "by 1..3 reads of the 7 kinds on the touched / neighbouring paths through random handles and sometimes the "
                    "full walk through the cache.  Plan: %s.  genryw = class of ryw_partial plus removes of nodes that exist "
                    "only in the buffer, no commits; genclean = class of commit_equiv_partial.  non-trivial = a mutation "
                    "succeeded and a call failed; distinct = distinct op-line sequences (64-bit digest)."
                    % ", ".join("%s %d" % p for p in plan))
        c2, results = cc.campaign(ctx, sides, PROP, plan)
        concrete |= c2
        cc.account(ctx, results)
        concrete |= cc.oracle(ctx, sides, PROP, [("oracle", ctx.pick(1200, 50000)), ("oracleryw", ctx.pick(400, 15000))])
    except RuntimeError as e:
        ctx.fatal(str(e))
    ctx.assumptions += [
        "the remote and the buffer are memory filespaces (property C01)",
        "listings are compared as sets with multiplicity (sorted): the order of a directory filled by fshelper.Copy or by "
        "Commit depends on goroutine scheduling / map iteration",
        "failing directory copies onto existing buffer children and copies with overlapping arguments (KF-C06-7) are not "
        "generated in bulk; reads between a failed Commit and the next successful one are not compared (`undet`)",
    ]
    ctx.trusted_base.append("fsdrv.Ref, the flat reference of the `cache oracle` (direct application), as second opinion "
                            "independent of the Lean model")
    if failed:
        ctx.obligation_violations(failed, searcher=lambda: concrete)
    if not ctx.quick():
        ctx.leanchecker(["Goat.Props.C07"])
        if any(not o["ok"] for o in ctx.obligations) and not failed:
            ctx.obligation_violations([o for o in ctx.obligations if not o["ok"]])


def replay(ctx, path):
    return cc.replay(ctx, path, PROP)
