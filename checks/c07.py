"""C07 — cache view reflects its own pending operations (read-your-writes).  KNOWN FINDINGS (see META).

Theorems: lean/Goat/Props/C07.lean about lean/Goat/Model/Cache.lean.
Correspondence and oracle: checks/cache_common.py (shared with C06) — this check judges the read-type lines through
the cache and its child views (isexist isfile isdir readfile reader readdir lstat, `dump <cache>` = the full walk) and
the verdicts of mutating calls.
"""
import cache_common as cc

META = dict(
    level_claimed=dict(
        category="proof",
        text="Lean 4 theorems about the executable mirror of fscache.Cache (Goat/Model/Cache.lean; all remote trees, "
             "histories of any length, all path spellings, child views of any depth). PROVED AT FULL STRENGTH: "
             "readDir_nodup ('created directories are listed once': after every history, Commits and injected failures "
             "included, the merged listing never lists a name twice), read_after_write ('written data is returned': "
             "whatever the remote holds and whatever is journalled, through any handle and spelling reaching the path), "
             "view_is_subpath / view_of_view (child views). The full read-your-writes statement is DISPROVED for the "
             "code as it is (ryw_false; findings_witnessed evaluates one witness per finding class KF-C07-1..6, replayed "
             "on the Go code on every run) and PROVED as ryw_partial: all seven read-type operations (IsExist IsFile IsDir "
             "ReadFile Reader ReadDir Lstat), through the cache or any child view, answer exactly what the FS "
             "specification answers on the direct tree after any history of WriteFile / Writer / MkdirAll / CopyFile and "
             "of Remove / RemoveAll of nodes that exist only in the buffer in which every operation also succeeds when "
             "applied directly (the negation of the defect predicates; for reads on the cache itself additionally: a "
             "climbing path still climbs after CleanPath, the negation of KF-C07-6). The model is tied to /repo on every "
             "run by a line-by-line differential with reads of all seven kinds after every mutation and a reference "
             "oracle; decidable defect predicates classify every history: outside all classes implementation = model = "
             "direct application, inside a class implementation = model.",
        design_ref="DESIGN.md 3 C07"),
    level_note="KNOWN FINDINGS: read-your-writes fails on the current code in 6 classes (removes do not hide nodes the "
               "remote still has; the buffer does not know the remote's node kinds; buffer-OR-remote source resolution "
               "of directory copies; copies overwrite; rooted climbing paths), listed with witnesses in "
               "known_findings.d/C07.json; the check exits 0 printing them and still reports any deviation from the "
               "model and any deviation from direct application outside the classes. Reads are judged up to the first "
               "deviation of a Commit (C06) in a history. Trusted: as C06 (Lean kernel; the model's correspondence; "
               "empirical completeness of the defect predicates; memfs; sequential model of fshelper.Copy).",
    technique="Lean 4 proof (overlay invariant over histories through the C01 refinement; disproof by evaluated "
              "witnesses) + differential correspondence + reference oracle + decidable defect-class classification",
)

PROP = "C07"


def run(ctx):
    failed = ctx.lean_obligations()
    try:
        sides = cc.Sides(ctx)
        cc.replay_findings(ctx, sides, PROP)
        concrete = cc.corpus(ctx, sides, PROP)
        plan = [("gen", ctx.pick(1600, 40000)), ("genryw", ctx.pick(500, 12000)), ("genclean", ctx.pick(200, 4000))]
        ctx.rule = ("corpus/C07 (witnesses of the findings) first; then the generators of C06 (see evidence/C06.json `rule`): "
                    "random histories over a populated memfs remote and a cache with child views, every mutating call followed "
                    "by 1..3 reads of the 7 kinds on the touched / neighbouring paths through random handles and sometimes the "
                    "full walk through the cache.  Plan: %s.  genryw = class of ryw_partial plus removes of nodes that exist "
                    "only in the buffer, no commits; genclean = class of commit_equiv_partial.  non-trivial = a mutation "
                    "succeeded and a call failed; distinct = distinct op-line sequences (64-bit digest)."
                    "  Concurrent family (`cache conc`, conc.go): per round a fresh cache over a remote that holds a file for a "
                    "random half of the pool, pending v0 on a random half; one writer goroutine (12..61 mutations on 1..3 hot "
                    "paths: WriteFile v1,v2,… / MkdirAll of one level / Remove of buffer-only nodes then WriteFile, through the "
                    "cache or the view), 2..6 reader goroutines (7 read kinds + copy source, cache and view, random spellings), "
                    "GOMAXPROCS 1..16; every answer must be the direct-application answer in some state of the read's window "
                    "[mutations completed at its start, mutations started at its end] (atomic counters)."
                    % ", ".join("%s %d" % p for p in plan))
        c2, results = cc.campaign(ctx, sides, PROP, plan)
        concrete |= c2
        cc.account(ctx, results)
        concrete |= cc.oracle(ctx, sides, PROP, [("oracle", ctx.pick(1200, 16000)), ("oracleryw", ctx.pick(400, 6000))])
        # "for all interleavings": one writer / several readers through the cache and a child view, linearised clause
        concrete |= cc.conc_family(ctx, sides, PROP, ctx.pick(1600, 24000))
    except RuntimeError as e:
        ctx.fatal(str(e))
    ctx.assumptions += [
        "the remote and the buffer are memory filespaces (property C01)",
        "listings are compared as sets with multiplicity (sorted): the order of a directory filled by fshelper.Copy or by "
        "Commit depends on goroutine scheduling / map iteration",
        "concurrent family: the linearisation points of a mutation lie between its call and its return; Writer streams and "
        "CopyFile are not among the writer's mutations (a stream is visible while it is written); the interleavings are "
        "whatever the Go scheduler produces under GOMAXPROCS 1..16, not enumerated",
        "failing directory copies onto existing buffer children are not generated in bulk; reads between a failed Commit and the next successful one are not compared (`undet`)",
    ]
    ctx.trusted_base.append("fsdrv.Ref, the flat reference of the `cache oracle` (direct application), as second opinion "
                            "independent of the Lean model")
    if failed:
        ctx.obligation_violations(failed, searcher=lambda: concrete)
    if not ctx.quick():
        ctx.leanchecker(["Goat.Props.C07"])
        if any(not o["ok"] for o in ctx.obligations) and not failed:
            ctx.obligation_violations([o for o in ctx.obligations if not o["ok"]])


def replay(ctx, path):
    return cc.replay(ctx, path, PROP)


META["level_claimed"]["text"] += (' Added: pending_writes_view (after any history, every intermediate state of a sequence of writes to one path reads the value written last through every handle and spelling) as the backbone of the concurrent family `conc` (one writer, several readers; a read must answer as some state between the mutations completed before it started and those started before it ended - sampled, not proved, for the real goroutines).')
