"""C08 — concurrent tree walk (filesystem/fsloop) visits every selected node exactly once and then stops.

Theorems: lean/Goat/Props/C08.lean about lean/Goat/Model/Loop.lean (producer programs = walk of an
arbitrary tree with an arbitrary fresh-producer/inline oracle, the producers' kill tests included;
producers + queues + n consumers + closer + strict lifecycle + environment acts kill / error event /
deadline as one transition system; invariant for all n, capacities, schedules with environment acts
at any position), plus the structural tie lean/Goat/Tie/C08.lean (go/ast facts regenerated from the
repository under test on every run).

Tie of the protocol model to the code:
  (1) facts: order of the two reads in Consumer.Loop, Wait -> NextStep -> close,close in the closer,
      Add-before-go, deferred Done; the control skeletons of Consumer.Loop, Producer.Loop, processList,
      processDir, processFile (where IsKilled is tested, lifecycle.Error(err) on every error path),
      Loop.Wait / Errors / KillSlot, the scope events connected in Run, jobsync.Lifecycle's
      Error / Kill / IsKilled / Errors / NewLifecycle and the constants — compared inside Lean;
  (2) gated schedule replay: harness/cmd/loop drives the REAL fsloop (built with -tags verif) with
      goroutines parked at the verifhook yield points / callbacks / ReadDir / filters and released in
      the order of a schedule line, with scope Kill / Error events (eventscope.Trigger) and the
      deadline injected between tokens and Wait probed; the same line drives the compiled Lean
      transition system (m_loop); compared: every observation of every step — also after a kill —
      and the final callbacks, Errors() and producer state;
  (3) ungated stress (shapes incl. wide 3000 > channel capacity 1000, limits 1..16, GOMAXPROCS,
      scope Kill / Error events at random moments) and the two real users fshelper.Copy /
      fsi18loader.Load, judged by the property's own clauses; the real jobsync.Lifecycle's API
      behaviour (strict Error, Kill, a short real deadline) against what the model assumes.
"""
import concurrent.futures
import glob
import os
import re

import lib

META = dict(
    level_claimed=dict(
        category="proof",
        text="Lean 4 theorems over all trees, filter predicates, fresh-producer/inline decisions, producer "
             "interleavings, numbers of consumers, channel capacities and schedules, with the environment acts scope "
             "Kill event / scope Error event / lifecycle deadline at any position of the schedule: producers enqueue "
             "exactly the selected nodes; invariant of the producer/queue/consumer/closer/lifecycle protocol; "
             "exactly-once when Wait returns with an empty Errors(), never repeated whatever happens; Wait enabled "
             "exactly when every consumer has signed off (no callback running, also after a kill), nothing starts "
             "afterwards; at most `consumers` callbacks at once (Pool.Add arithmetic); every callback error in "
             "Errors() when Wait returns (including a callback that was running when something else killed the "
             "lifecycle), every failed listing (Producer.Loop and inline descent) in Errors() or about to be reported "
             "by a producer that is still running after a kill; a walk that ended early has a non-empty Errors(); "
             "no deadlock without a kill; after a kill: bounded number of further actions, every consumer leaves "
             "within 13 own actions, Wait returns, and the only non-final stuck state is a producer blocked on a full "
             "channel (reachable: explicit schedule; excluded when the capacity covers the selected nodes); the pinned "
             "consumer order loses an item (explicit schedule).  The model is tied to /repo on every run by go/ast "
             "order facts and control skeletons checked inside Lean, a gated schedule replay of the real goroutines "
             "with injected kills against the compiled model (step-by-step equality, also after the kill), the real "
             "Lifecycle API, and ungated stress with random kills.",
        design_ref="DESIGN.md 3 C08"),
    level_note="Proof is about the protocol model. Trusted: Lean kernel (axioms propext/Classical.choice/Quot.sound), the "
               "atomicity of the modelled actions (channel operations, len(chan), RWMutex-guarded step, context cancel, "
               "WaitGroup) and sequential consistency of their interleaving, the correspondence of model and code "
               "(syntactic order facts + gated replay with one producer + ungated stress: bounded by the generators), "
               "the gate scheduler and the canonicalisation in harness/cmd/loop. The lifecycle's deadline is a constant "
               "(workers.DefaultTimeout, 2 min) on a private field: in the model it is an environment act at any moment; on the "
               "real code it is injected in gated replays by swapping the private context for an expired-deadline one "
               "(reflect/unsafe, all goroutines parked), and the real timer is exercised only on a stand-alone Lifecycle with a "
               "short lifetime. Not a clause of the property and therefore only reported: after a kill a producer blocked "
               "on a full channel (more than 1000 queued nodes) and the completion goroutine are never released.",
    technique="Lean 4 proof (invariant over a labelled transition system, induction on the tree) + structural facts "
              "(go/ast, decide) + gated schedule replay + stress",
)

SHARDS = 8
TMO = 1500


def _facts(ctx, go, repo):
    """regenerate lean/Goat/Tie/ExtractedC08.lean from the repository `repo`"""
    env = ctx.goenv()
    env["VERIF_REPO"] = repo
    rc, out = ctx.capture([go, "facts"], env=env)
    if rc != 0:
        ctx.fatal("facts extraction failed: " + out[-800:])
    path = os.path.join(lib.LEAN, "Goat", "Tie", "ExtractedC08.lean")
    old = open(path).read() if os.path.exists(path) else None
    if old != out:
        tmp = path + ".tmp%d" % os.getpid()
        open(tmp, "w").write(out)
        os.replace(tmp, path)
    return out


def _pair(ctx, go, model, ops, tag):
    a, b = ctx.path(tag + ".impl"), ctx.path(tag + ".model")
    rc, err = ctx.run_lines(go, ["drive"], ops, a, timeout=TMO)
    if rc != 0:
        # the process under test died (a panic in a goroutine of the implementation cannot be recovered by the
        # harness): the case being executed is the first one without a result line
        n_out = ctx.count_lines(a)
        first = re.search(r"^(panic: .*|fatal error: .*)$", err, re.M)
        why = first.group(1) if first else "exit status %d" % rc
        n_ops = len([l for l in open(ops) if l.strip() and not l.startswith("#")])
        with open(a, "a") as h:
            h.write("crash | crash oracle=FAIL(process-died:%s)\n" % why.replace(" ", "_"))
            for _ in range(max(0, n_ops - n_out - 1)):
                h.write("aborted\n")
    rc, err = ctx.run_lines(model, [], ops, b, timeout=TMO)
    if rc != 0:
        ctx.fatal("model driver failed rc=%d %s" % (rc, err[-500:]))
    return a, b


def _one(ctx, go, model, line, tag="one"):
    ops = ctx.path(tag + ".ops")
    open(ops, "w").write(line.rstrip("\n") + "\n")
    a, b = _pair(ctx, go, model, ops, tag)
    return open(a).read().strip(), open(b).read().strip()


def _minimise(ctx, go, model, line, want_fail):
    """delta-debug the schedule tokens of a disagreeing case line.  want_fail: the implementation's own oracle
    failed on the original line, and must still fail on the reduced one.  The tail of a run (after the schedule)
    is free-running and on a defective implementation its outcome may depend on timing, so a reduction is only
    accepted when it fails 4 times in a row, the result is re-run 10 more times, and the original line is kept
    if the reduced one is not stable."""
    m = re.match(r"(.* sched=)(.*)$", line.rstrip("\n"))
    if not m or not m.group(2):
        return line.rstrip("\n")
    head, toks = m.group(1), m.group(2).split(",")

    def bad(l):
        x, y = _one(ctx, go, model, l, "dd")
        return ("oracle=FAIL" in x) if want_fail else (x != y)

    def fails(ts, k=4):
        return all(bad(head + ",".join(ts)) for _ in range(k))
    try:
        red = ctx.ddmin(toks, fails)
        if red != toks and fails(red, 10):
            toks = red
    except Exception:
        pass
    return head + ",".join(toks)


AWK_HIST = r'''{ for (i = 1; i <= NF; i++) { t = $i
  if (t == "|") { s = $(i+1); sub(/=.*/, "", s)
    for (j = i + 1; j <= NF; j++) { u = $j
      if (u ~ /^prods=/) { h["summary settled " u]++; s = "settled" }
      if (u ~ /^errs=/) { k = "none"; if (u ~ /canceled$/) k = "canceled"; if (u ~ /deadline$/) k = "deadline"
        h["errors ctx " k]++; if (u ~ /cb:[^;]*;cb:/) h["errors two-or-more callback errors"]++
        if (u ~ /cb:/) h["errors callback"]++; if (u ~ /list:/) h["errors listing"]++ } }
    h["summary " s]++; break }
  sub(/^c[0-9]+:/, "c:", t)
  if (t ~ /^c:cb[df]:/) t = substr(t, 1, 5)
  else if (t ~ /^p:(list|ff|fd):/) sub(/:[^:]*$/, "", t)
  h["obs " t]++ } }
END { for (k in h) print h[k] "\t" k }'''


def _account(ctx, ops, impl, model, max_samples=3):
    """distinct / non-trivial accounting per case line (python) and the observation histogram (awk)"""
    import subprocess
    out = subprocess.run(["awk", AWK_HIST, impl], stdout=subprocess.PIPE, text=True).stdout
    for l in out.split("\n"):
        if "\t" in l:
            n, k = l.split("\t", 1)
            ctx.histogram[k] += int(n)
    with open(ops) as fo, open(impl) as fa, open(model) as fm:
        for o, r, rm in zip(fo, fa, fm):
            i = o.find(" n=")
            n = o[i + 3:o.find(" ", i + 3)]
            ctx.histogram["consumers " + ("1" if n == "1" else "2-4" if len(n) == 1 and n <= "4" else "5-16")] += 1
            ncb = r.count(":cb")
            if "x:ok" in r or "e:ok" in r or "t:ok" in r:
                ctx.histogram["cases with an environment act"] += 1
                if re.search(r":cb[df]:\S+ (?:[^|]* )?[xet]:ok", r):
                    ctx.histogram["cases with an environment act after a callback started"] += 1
            ctx.note_case(o, nontrivial=ncb > 0 or " | done= " not in r and " | done=" in r)
            if len(ctx.samples) < max_samples and ncb > 1:
                ctx.samples.append(dict(op=o.strip(), impl=r.strip(), model=rm.strip()))


def _gated(ctx, go, model, n_cases):
    """corpus + generated cases, sharded; returns list of (op, impl, model) mismatches"""
    allops = ctx.path("gated.ops")
    with open(allops, "w") as h:
        for f in sorted(glob.glob(os.path.join(lib.ROOT, "corpus", "C08", "*.ops"))):
            h.writelines(l for l in open(f) if l.strip() and not l.startswith("#"))
    rc, err = ctx.run([go, "gen", str(n_cases)], stdout=ctx.path("gen.ops"))
    if rc != 0:
        ctx.fatal("generator failed: " + err[-500:])
    with open(allops, "a") as h:
        h.write(open(ctx.path("gen.ops")).read())
    lines = open(allops).readlines()
    shards = []
    for k in range(SHARDS):
        p = ctx.path("shard%d.ops" % k)
        open(p, "w").writelines(lines[k::SHARDS])
        shards.append(p)
    mism = []
    with concurrent.futures.ThreadPoolExecutor(SHARDS) as ex:
        res = list(ex.map(lambda kp: _pair(ctx, go, model, kp[1], "shard%d" % kp[0]), enumerate(shards)))
    for p, (a, b) in zip(shards, res):
        mism += [(op, x, y) for _, op, x, y in ctx.diff_streams(p, a, b, limit=5) if x != "aborted"]
        _account(ctx, p, a, b)
        # lines on which the implementation itself contradicts the property come first
        nf = 0
        for o, r, rm in zip(open(p), open(a), open(b)):
            if "oracle=FAIL" in r:
                ctx.histogram["oracle FAIL"] += 1
                if nf < 2 and not any(o.strip() == m[0] for m in mism):
                    mism.insert(0, (o.strip(), r.strip(), rm.strip()))
                    nf += 1
    mism.sort(key=lambda m: ("oracle=FAIL" not in m[1], len(m[0])))
    return mism


def _stress(ctx, go, tier, seeds):
    fails, runs = [], 0
    outs = []

    def one(seed):
        out = ctx.path("stress%d.out" % seed)
        env = {"VERIF_SEED": str(seed)}
        rc, err = ctx.run_lines(go, ["stress", tier], None, out, timeout=TMO, env=env)
        return seed, out, rc, err
    with concurrent.futures.ThreadPoolExecutor(min(4, len(seeds))) as ex:
        outs = list(ex.map(one, seeds))
    for seed, out, rc, err in outs:
        if rc != 0:
            fails.append(("seed=%d" % seed, "stress process failed rc=%d: %s" % (rc, err[-400:])))
            continue
        for l in open(out):
            if l.startswith("stress "):
                runs += 1
                f = dict(t.split("=", 1) for t in l.split()[1:] if "=" in t)
                ctx.histogram["stress shape=" + re.sub(r"^(random)\d+$", r"\1", f["shape"])] += 1
                ctx.histogram["stress inject=" + f["inject"]] += 1
                ctx.histogram["stress kill=" + f.get("kill", "0")] += 1
                ctx.note_case("stress seed=%d %s" % (seed, l.split(" sel=")[0]), nontrivial=int(f.get("done", "0")) > 0)
                if f["verdict"] != "ok":
                    fails.append(("VERIF_SEED=%d" % seed, l.strip()))
    ctx.evaluations += runs
    ctx.extra["stress_runs"] = runs
    return fails


def _hammer(ctx, go, rounds, procs=8, tag="hammer"):
    """tiny trees, one consumer, many rounds (the exit race): returns failure lines"""
    def one(k):
        out = ctx.path("%s%d.out" % (tag, k))
        rc, err = ctx.run_lines(go, ["hammer", str(rounds)], None, out, timeout=TMO,
                                env={"VERIF_SEED": str(ctx.seed * 100 + k)})
        return k, out, rc, err
    with concurrent.futures.ThreadPoolExecutor(procs) as ex:
        res = list(ex.map(one, range(procs)))
    fails = []
    for k, out, rc, err in res:
        txt = open(out).read().strip()
        if rc != 0:
            first = re.search(r"^(panic: .*|fatal error: .*)$", err, re.M)
            fails.append(("hammer VERIF_SEED=%d" % (ctx.seed * 100 + k), "hammer process died: %s" % (first.group(1) if first else "rc=%d" % rc)))
        elif "verdict=ok" not in txt:
            fails.append(("hammer VERIF_SEED=%d" % (ctx.seed * 100 + k), txt))
        else:
            ctx.evaluations += rounds
    ctx.extra[tag + "_rounds"] = ctx.extra.get(tag + "_rounds", 0) + rounds * procs
    ctx.histogram["hammer rounds"] += rounds * procs
    return fails


def _users(ctx, go, n):
    out = ctx.path("users.out")
    rc, err = ctx.run_lines(go, ["users", str(n)], None, out, timeout=TMO)
    if rc != 0:
        return [("users", "users process failed rc=%d: %s" % (rc, err[-400:]))]
    fails, runs = [], 0
    for l in open(out):
        if l.startswith("users copy") or l.startswith("users i18"):
            runs += 1
            ctx.histogram["users " + l.split()[1]] += 1
            if "verdict=ok" not in l:
                fails.append(("users", l.strip()))
    ctx.evaluations += runs
    ctx.extra["users_runs"] = runs
    return fails


def run(ctx):
    go = ctx.build_go("loop")
    try:
        _run(ctx, go)
    finally:
        if ctx.repo != "/repo":
            _facts(ctx, go, "/repo")  # leave the shared lake project in the state of the real repository


def _run(ctx, go):
    facts = _facts(ctx, go, ctx.repo)
    ctx.extra["facts"] = [l for l in facts.split("\n") if l.startswith("def ")]
    failed = ctx.lean_obligations(extra_modules=["Goat.Tie.C08"])
    model = ctx.build_model("m_loop")
    n_cases = ctx.pick(40000, 1200000)
    ctx.rule = ("gated: corpus/C08 + %d generated case lines (tree of <= 15 nodes incl. unlistable directories and "
                "'.'/'..' entries, random reject-set filters or none, callbacks set or nil, 1..16 consumers, failing "
                "callbacks, schedule of <= 90 coarse tokens incl. the environment acts x (scope Kill event), e (scope Error "
                "event), t (deadline), the Wait probe w and the deterministic drain D; families: random / adversarial 'all "
                "consumers held in the gap, producers finish, closer announces' / hold-one / free run / 'consumers held "
                "inside callbacks, then an environment act or a failing callback kills, Wait probed, held callbacks return' "
                "/ several failing callbacks in flight / environment act at a random point / unlistable directory in the "
                "inline descent / dense environment acts / 1 in 500: a tree of 1001..1012 files (> channel capacity) with a "
                "kill while the producer is blocked) from VERIF_SEED, every step observation — also after a kill — and the "
                "final callbacks, Errors() and producer state compared with the Lean transition system; non-trivial = at "
                "least one callback observed; distinct = distinct case lines.  stress: shapes x (consumers, producers) in "
                "1..16 x GOMAXPROCS in {1,2,4,8,16}, random hash filters, 1/4 with an injected failure, 1/4 with a scope "
                "Kill/Error event after a random delay or at the k-th callback start.  users: fshelper.Copy and "
                "fsi18loader.Load on random memfs trees.  lifecycle: the real jobsync.Lifecycle API (14 checks)." % n_cases)
    ctx.log("gated replay of %d cases" % n_cases)
    mism = _gated(ctx, go, model, n_cases)
    ctx.log("lifecycle API + stress + users")
    rc, out = ctx.capture([go, "lifecycle"], timeout=120)
    ctx.extra["lifecycle_api"] = out.strip()
    ctx.evaluations += 14
    lfail = None if (rc == 0 and "verdict=ok" in out) else (out.strip() or "rc=%d" % rc)
    sfails = _stress(ctx, go, ctx.tier if not ctx.quick() else "quick", ctx.pick([ctx.seed, ctx.seed + 1000, ctx.seed + 2000], [ctx.seed, ctx.seed + 1000]))
    ufails = _users(ctx, go, ctx.pick(3000, 100000))
    hfails = _hammer(ctx, go, ctx.pick(15000, 300000))
    concrete = False
    for op, x, y in mism[:3]:
        op_min = op if ("hang" in x or "crash" in x) else _minimise(ctx, go, model, op, "oracle=FAIL" in x)
        xi, yi = _one(ctx, go, model, op_min, "min")
        if xi == yi:  # minimisation went wrong (should not happen: deterministic), keep the original
            op_min, xi, yi = op, x, y
        conc = "oracle=FAIL" in xi or "panic" in xi
        concrete |= conc
        why = re.search(r"oracle=(FAIL\([^ ]*\))", xi)
        ctx.violation("impl-vs-spec" if conc else "impl-vs-model",
                      ("the real fsloop violates the property under this schedule: %s" % why.group(1)) if (conc and why)
                      else "the real fsloop and the Lean transition system differ under this schedule",
                      lines=[op_min], annotations=["impl: " + xi, "model: " + yi, "original: " + op], concrete=conc)
    for where, l in sfails[:3]:
        concrete = True
        ctx.violation("impl-vs-spec", "ungated stress: a clause of the property failed on the implementation (%s)" % where,
                      lines=[l], annotations=["re-run: harness loop stressone '<line>' 200 (schedule dependent)"], concrete=True)
    for where, l in ufails[:3]:
        concrete = True
        ctx.violation("impl-vs-spec", "a real user of fsloop lost or duplicated work: " + l, lines=["# " + l],
                      annotations=["users: " + l], concrete=True)
    if lfail:
        ctx.violation("impl-vs-model", "jobsync.Lifecycle does not behave as the model's lifecycle transitions assume "
                      "(strict Error = append then kill, Kill, deadline, Errors() = entries then ctx.Err()): " + lfail,
                      lines=["# lifecycle " + lfail], annotations=["re-run: harness loop lifecycle"], concrete=False)
    for where, l in hfails[:2]:
        concrete = True
        ctx.violation("impl-vs-spec", "Wait returned with an empty error list but a selected node was never visited "
                      "(one consumer, tiny tree; %s): %s" % (where, l), lines=[l],
                      annotations=["re-run: harness loop hammer <rounds> (schedule dependent)"], concrete=True)

    def searcher():
        # a theorem or a structural fact no longer checks: search deeper for a concrete failing run
        if concrete:
            return True
        ctx.log("obligation broken: deep search (hammer)")
        deep = _hammer(ctx, go, 600000, tag="deephammer")
        for where, l in deep[:2]:
            ctx.violation("impl-vs-spec", "Wait returned with an empty error list but a selected node was never visited "
                          "(one consumer, tiny tree; %s): %s" % (where, l), lines=[l],
                          annotations=["re-run: harness loop hammer <rounds> (schedule dependent)"], concrete=True)
        return bool(deep)
    if failed:
        ctx.obligation_violations(failed, searcher=searcher)
    if not ctx.quick():
        ctx.leanchecker(["Goat.Props.C08", "Goat.Tie.C08"])
        if any(not o["ok"] for o in ctx.obligations) and not failed:
            ctx.obligation_violations([o for o in ctx.obligations if not o["ok"]])
        # race detector run: informational only (a report is not a verdict about C08)
        gor = ctx.build_go("loop", race=True)
        rc, err = ctx.run_lines(gor, ["stress", "quick"], None, ctx.path("race.out"), timeout=TMO)
        ctx.extra["race_detector"] = dict(rc=rc, data_races=err.count("DATA RACE"))
        if err.count("DATA RACE"):
            ctx.notes.append("race detector reported %d data races during stress (not part of the verdict)" % err.count("DATA RACE"))
    ctx.assumptions += [
        "gated replay uses Producents: 1 (a single producer, every directory listed inline); several producers "
        "(spawn) are covered by the theorems and by the ungated stress only; blocking sends are replayed on the "
        "wide family (1001..1012 files) and the two corpus witnesses only",
        "in gated replays environment acts arrive between coarse tokens (every goroutine parked at a yield point, in a "
        "callback, at a gate or blocked in a send), not between two arbitrary machine instructions; arbitrary positions are "
        "covered by the theorems (every Label position) and sampled by the ungated stress",
        "the deadline of the real lifecycle (workers.DefaultTimeout = 2 min, a constant) is never waited for: gated replays "
        "swap the private context for one whose deadline has expired; the real timer is only exercised on a stand-alone "
        "jobsync.Lifecycle with a 20 ms lifetime (`loop lifecycle`)",
        "runs that are not settled when the schedule ends and were killed are compared only up to the end of the schedule "
        "(the free-running tail after a kill is timing dependent) and then judged by the property's clauses",
    ]
    ctx.trusted_base += [
        "go/ast order facts and control skeletons (syntactic) for Consumer.Loop, the closer, Loop.Run/Wait/Errors/KillSlot, "
        "Producer.Loop/processList/processDir/processFile, jobsync.Lifecycle Error/Kill/IsKilled/Errors/NewLifecycle",
        "gate scheduler of harness/cmd/loop (parks goroutines at verifhook yield points, callbacks, ReadDir and filter calls); "
        "goroutine identity and the 'blocked in chan send' state via runtime.Stack; eventscope.Trigger delivers scope events "
        "synchronously; the reflect/unsafe swap of the lifecycle's private context is equivalent to its deadline firing",
        "atomicity and sequentially consistent interleaving of channel send/receive/len/close, Lifecycle.Step/NextStep/Error/"
        "IsKilled/Kill, context cancellation, Pool.Add/Done/Wait",
    ]
    ctx.notes.append(
        "finding (not a clause of C08, reported only): after a kill, a producer blocked in a send on a full channel (more than "
        "1000 queued nodes) is never released because every consumer leaves at its next kill test; the producer goroutine and "
        "the completion goroutine leak (Loop.Wait is not affected). Theorem producer_stuck_after_kill_reachable; replayed on the "
        "real code by corpus/C08/kill.ops (5), summary prods=stuck: %d gated cases ended that way in this run"
        % ctx.histogram.get("summary settled prods=stuck", 0))
    if ctx.histogram.get("summary killed", 0) + ctx.histogram.get("errors ctx canceled", 0) == 0:
        ctx.notes.append("coverage gap: no gated case ended with a kill")
    for k in ("obs c:exit", "obs c:gone", "obs k:closed", "obs c:cbd", "obs c:cbf", "obs p:fd", "obs p:ff", "obs x:ok",
              "obs e:ok", "obs t:ok", "obs w:pending", "obs w:returned", "obs p:blocked", "summary settled prods=stuck",
              "summary settled prods=done", "errors ctx deadline", "errors ctx canceled", "errors callback", "errors listing",
              "errors two-or-more callback errors", "cases with an environment act after a callback started"):
        if ctx.histogram.get(k, 0) == 0:
            ctx.notes.append("coverage gap: observation kind '%s' never occurred" % k)


def replay(ctx, path):
    go = ctx.build_go("loop")
    model = ctx.build_model("m_loop")
    rc = 0
    raw = [l.rstrip("\n") for l in open(path)]
    cases = [l for l in raw if l.startswith("case ")]
    for l in cases:
        x, y = _one(ctx, go, model, l, "replay")
        print("op    ", l)
        print("impl  ", x)
        print("model ", y)
        if x != y or "oracle=FAIL" in x:
            rc = 1
    for l in raw:
        if l.startswith("stress "):
            r, out = ctx.capture([go, "stressone", l, "300"])
            print(out.strip())
            if "fails=0" not in out:
                rc = 1
        if l.startswith("hammer "):
            r, out = ctx.capture([go, "hammer", "1000000"])
            print(out.strip())
            if "verdict=ok" not in out:
                rc = 1
        if l.startswith("# lifecycle "):
            r, out = ctx.capture([go, "lifecycle"])
            print(out.strip())
            if "verdict=ok" not in out:
                rc = 1
        if l.startswith("# users "):
            r, out = ctx.capture([go, "users", "20000"])
            print(out.strip().split("\n")[-1])
            if "fails=0" not in out.strip().split("\n")[-1]:
                rc = 1
    print("replay:", "still failing" if rc else "implementation and model agree, property clauses hold")
    return rc
