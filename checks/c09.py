"""C09 — the in-memory filespace stays consistent under concurrent use.

Theorems: lean/Goat/Props/C09.lean about the lock-granular model lean/Goat/Model/MemFSConc.lean
(dir_inv, create_once, file_values, no_deadlock, the three old lock orders deadlock;
dir_lock_holder_inside / quiescent_dir_locks_free / quiescent_locks_free: a directory's writer lock is held only by a
thread inside a WriteFile/Writer critical section on that directory, so after any schedule in which every thread has
finished no directory lock - with closed handles no lock at all - is held;
distinct_paths_commute: operations on independent paths - WriteFile / MkdirAll / Remove / RemoveAll / Copy of files
and directory trees / reads, any number of threads, every schedule of their critical sections - leave the heap that
represents the tree of the SEQUENTIAL model (C01, Goat.MemFS.step) after the same operations in ANY order, with the
sequential results, hence a run of the specification FS.Step; distinct_paths_progress; concurrent_mkdir_shared_parent;
interleaving_refines_some_order_false: on RELATED paths the operations are not linearisable (WriteFile a/b/f vs
Remove a/b); micro_effects_commute = the former distinct_paths_commute_partial).

Tie of the model to /repo on every run:
  1. facts     go/ast: the lock brackets of every Dir/File method and the position of the data-lock
               waits relative to the directory lock in WriteFile/Writer/copyDir (harness memfsconc facts);
     tie       the synchronisation skeleton of every memfs function as Lean data (Goat/Tie/ExtractedC09.lean,
               regenerated from the tree under test) = the model's action table (Goat/Model/MemFSConcActs.lean):
               tie_* theorems of Goat/Tie/C09.lean, by decide, one per critical section BY NAME;
  2. replays   the real memfs is driven through the verifhook yield points by schedules (corpus +
               generated: holder, random, shared-ancestor creation race, siblings at every yield point, write-gap
               creation race on one name followed by use of the directory); the same
               schedule lines drive the Lean transition system; compared per step: where each goroutine parks /
               blocks / which result it gets, and the final tree;
  3. stress    2..32 goroutines, GOMAXPROCS 1..16, injected Gosched, watchdog; every recorded history is
               decided by the Lean monitor (rules R0-R5 of Driver/MemFSConc.lean);
  4. -race     the same stress under the race detector (supporting evidence for the atomicity assumption).
"""
import collections
import glob
import json
import os
import re
import subprocess
import time

import lib

META = dict(
    level_claimed=dict(
        category="proof",
        text="PARTIAL (only in the tie of the model to the Go code).  Lean 4 theorems over all numbers of threads, all "
             "programs and all schedules of a lock-granular model of memfs (one atomic action per critical section of the "
             "Go code): directory invariant in every interleaving, exactly one winner among concurrent creations of a name, "
             "files hold complete values and readers see only those, no deadlock in the repaired lock order under an "
             "ordered-handle discipline, reachable deadlocks for the three pre-fix lock orders; a directory's writer lock is "
             "held only from inside a critical section on it, so a quiescent state has every lock free "
             "(quiescent_locks_free); distinct_paths_commute at the "
             "level of the heap: operations on pairwise independent paths (WriteFile, MkdirAll, Remove, RemoveAll, Copy of a "
             "file or a directory tree, ReadFile, ReadDir, IsExist/IsFile/IsDir; creating operations may share missing "
             "ancestors), started on any forest-shaped heap, leave after EVERY interleaving of their critical sections the "
             "heap that represents the tree the sequential model of C01 reaches in ANY order of the operations, every "
             "operation answers its sequential result, through C01's refinement the outcome is a run of the abstract "
             "specification FS.Step, and such a batch never gets stuck; the shared-ancestor creation race (nobody fails, the "
             "chain is created once, all leaves exist); and the negative result that operations on RELATED paths are not "
             "linearisable (WriteFile a/b/f vs Remove a/b both succeed and the file vanishes - confirmed on the real code by a "
             "gated replay; outside what the property claims).  That the Go critical sections are atomic (Go memory model, "
             "nothing outside the modelled sections races) is an assumption supported by the structural tie (go/ast "
             "skeletons of every memfs function = the model's action table, by decide) and a -race stress; the model is tied "
             "to the code by gated schedule replays through verifhook yield points (incl. the enumerated shared-ancestor and "
             "sibling families, compared step by step) and by a Lean history monitor over stress runs of the real filespace.",
        design_ref="DESIGN.md 3 C09"),
    level_note="Trusted: Lean kernel (axioms propext/Classical.choice/Quot.sound only); the hand-written lock-granular "
               "model and its action table; sync.Mutex/RWMutex semantics as modelled (blocking = disabled step; writer "
               "preference of RWMutex is not modelled, it only removes enabled steps); Go memory model + 'nothing outside the "
               "modelled critical sections races' (structural tie + lock facts + -race stress); the gate scheduler, the "
               "history monitor's rules and parsers.  distinct_paths_commute is now proved down to the heap (forest shape: "
               "every object has at most one parent entry; each critical section is one micro effect on the abstract tree; "
               "simulation invariant over all schedules) and linked to C01's sequential model and specification; what it "
               "assumes: paths reach memfs reduced and non-empty, a copy's source and destination unrelated, no stream "
               "handle is open during the batch (streams are the subject of file_values / no_deadlock), the batch starts "
               "from a quiescent heap.  The structural tie is syntactic (go/ast without type information, calls matched by "
               "name and arity, held-regions per function; the hand-over of dataMU through a stream handle is stated in the "
               "table, not extracted).  File.Size()/File.ModTime() (unsynchronised metadata reads through Lstat) are outside "
               "what the property's observables need and outside the default stress.",
    technique="Lean 4 proof (invariants and a simulation invariant over a labelled transition system, all schedules; "
              "refinement to the sequential model and specification of C01) + structural tie (go/ast synchronisation "
              "skeletons = model action table, by decide) + gated schedule replay with enumerated families "
              "(shared-ancestor creation races, siblings at every yield point, write-gap creation race on one name + "
              "follow-up use of the directory judged by the sequential model of C01) + stress with Lean history monitor + race detector",
)

# what the model assumes about where locks are taken (output of `memfsconc facts`)
EXPECTED_FACTS = {
    "Dir.addNode": "Lock(mu) defer:Unlock(mu)",
    "Dir.contains": "RLock(mu) defer:RUnlock(mu)",
    "Dir.getDir": "RLock(mu) defer:RUnlock(mu)",
    "Dir.getNode": "RLock(mu) defer:RUnlock(mu)",
    "Dir.getNodes": "RLock(mu) defer:RUnlock(mu)",
    "Dir.mkdir": "call:getDir hook:memfs.mkdir.gap Lock(mu) defer:Unlock(mu)",
    "Dir.removeNodeByName": "Lock(mu) defer:Unlock(mu)",
    "File.getData": "RLock(dataMU) defer:RUnlock(dataMU)",
    "File.setData": "Lock(dataMU) defer:Unlock(dataMU)",
    "FileHandler.Close": "Unlock(dataMU)",
    "NewFileHandler": "Lock(dataMU)",
    "copyFile": "hook:memfs.copy.file RLock(dataMU) defer:RUnlock(dataMU)",
    # the listing is a snapshot (getNodes); children are copied without the directory's mu
    "copyDir": "call:getNodes call:copyDir call:copyFile",
    # the waits for a file's data lock (setData / NewFileHandler) come after every Unlock of the directory
    "Filespace.WriteFile": "Lock() call:getNode hook:memfs.write.gap call:addNode Unlock() Unlock() "
                           "hook:memfs.write.setdata call:setData",
    "Filespace.Writer": "Lock() call:getNode hook:memfs.write.gap call:addNode Unlock() Unlock() Unlock() "
                        "hook:memfs.writer.open call:NewFileHandler",
    "Filespace.Reader": "call:NewFileHandler",
    "Filespace.ReadFile": "call:getData",
    "Filespace.ReadDir": "call:getNodes",
    "Filespace.Copy": "call:addNode",
    "Filespace.CopyFile": "call:copyFile call:addNode",
    "Filespace.CopyDirectory": "call:copyDir call:addNode",
    "removeNodeByNodePath": "call:getNode call:removeNodeByName call:removeNodeByName call:removeNodeByName",
    "mkdirAllNodes": "call:mkdir",
    "getNodeByPathNodes": "call:getNode call:getNode",
}

KF_RACE = "KF-C09-1"
MODEL_VARIANT = "0 0 0"      # lock order of HEAD: Variant.fixed


def _blocks(path, key):
    """split a file into blocks starting at lines beginning with `key`"""
    res, cur = [], None
    for l in open(path, errors="replace"):
        if l.startswith(key):
            if cur is not None:
                res.append(cur)
            cur = [l]
        elif cur is not None:
            cur.append(l)
    if cur is not None:
        res.append(cur)
    return res


def _strip_notes(lines):
    return [l for l in lines if not l.startswith("note ")]


def _facts(ctx, go):
    rc, out = ctx.capture([go, "facts", ctx.repo])
    if rc != 0:
        ctx.fatal("facts extraction failed: " + out[-400:])
    got = {}
    for l in out.splitlines():
        if l.startswith("fact "):
            _, name, *items = l.split(" ")
            got[name] = " ".join(items)
    bad = []
    for k, v in sorted(EXPECTED_FACTS.items()):
        if got.get(k) != v:
            bad.append("%s: expected [%s] found [%s]" % (k, v, got.get(k, "<missing>")))
    ctx.extra["lock_facts"] = dict(checked=len(EXPECTED_FACTS), mismatches=bad, extracted=len(got))
    ctx.evaluations += len(EXPECTED_FACTS)
    return bad


EXTRACTED = os.path.join(lib.LEAN, "Goat", "Tie", "ExtractedC09.lean")
TIE_MODULE = "Goat.Tie.C09"


def _leanfacts_text(ctx, go, repo):
    """the synchronisation skeletons of package memfs of `repo` as Lean source (harness memfsconc leanfacts)"""
    rc, out = ctx.capture([go, "leanfacts", repo])
    if rc != 0 or "namespace Goat.Tie.ExtractedC09" not in out:
        ctx.fatal("skeleton extraction failed: " + out[-800:])
    return out


def _install_extracted(text):
    """write lean/Goat/Tie/ExtractedC09.lean (only if it changed; atomically)"""
    old = open(EXTRACTED).read() if os.path.exists(EXTRACTED) else None
    if old != text:
        tmp = EXTRACTED + ".tmp%d" % os.getpid()
        open(tmp, "w").write(text)
        os.replace(tmp, EXTRACTED)


def _lean(ctx, go):
    """regenerate the extracted skeletons from the repository under test, then build and audit the theorems of
    Props/C09 and the tie theorems.  The extracted file lives in the shared lake project: if another run (a mutant
    run of another worker) replaced it while we were building, generate and build again."""
    text = _leanfacts_text(ctx, go, ctx.repo)
    failed = []
    for attempt in range(4):
        _install_extracted(text)
        ctx.obligations = []
        failed = ctx.lean_obligations(extra_modules=[TIE_MODULE])
        if open(EXTRACTED).read() == text:
            break
        ctx.notes.append("ExtractedC09.lean was replaced by a concurrent run during the Lean build; rebuilt")
    else:
        ctx.fatal("ExtractedC09.lean keeps being replaced by concurrent runs")
    ties = [o for o in ctx.obligations if o["name"].startswith("Goat.Tie.C09.")]
    # a tie that fails by itself (an error at its own line) first: it names what moved in the code
    failed.sort(key=lambda o: (not o["reason"].startswith("line "), not o["name"].startswith("Goat.Tie.C09.")))
    broken = [o["name"] for o in failed if o["name"].startswith("Goat.Tie.C09.") and o["reason"].startswith("line ")]
    ctx.extra["tie"] = dict(module=TIE_MODULE, extracted_defs=len(re.findall(r"^def ", text, re.M)),
                            tie_theorems=len(ties), broken=broken)
    ctx.evaluations += len(ties)
    for b in broken:
        ctx.log("tie broken: " + b)
    return failed


def _family(name):
    if name.startswith("c_"):
        return "corpus"
    for pre in ("sa_", "sib_", "wg_"):
        if name.startswith(pre):
            return pre[:-1]
    return name[0]


def _expectation(scen_lines):
    """the `# expect 0=ok,1=data_0a tree a/ a/x=01` line of a scenario: ({tid: result}, tree line) or None"""
    for l in scen_lines:
        if l.startswith("# expect "):
            w = l.split()
            res = {}
            for kv in w[2].split(","):
                t, r = kv.split("=", 1)
                res[t] = r.replace("_", " ")
            return res, " ".join(["tree"] + w[4:])
    return None


def _complete(out_lines):
    """every thread of the scenario ran to its end (the expectation is about finished operations)"""
    st = [l for l in out_lines if l.startswith("status ")]
    return bool(st) and all(x.endswith("=finished") for x in st[-1].split(" ", 1)[1].strip().split(","))


def _expect_verdict(scen_lines, out_lines):
    """evaluate a scenario's own expectation (what the property says, whatever the schedule) on one output stream"""
    exp = _expectation(scen_lines)
    if exp is None or not _complete(out_lines):
        return ""
    want, tree = exp
    for l in out_lines:
        w = l.split()
        if len(w) >= 4 and w[0] in ("step", "auto") and w[2] == "done" and w[1] in want:
            got = " ".join(w[3:])
            if got != want[w[1]]:
                return "thread %s: the operation answered `%s`, expected `%s` in every interleaving: %s" % (
                    w[1], got, want[w[1]], l.strip())
        if l.startswith("tree ") and l.strip() != tree.strip():
            return "the final tree is `%s`, expected `%s` in every interleaving" % (l.strip(), tree.strip())
    return ""


def _squeeze(scen, model):
    """drop the `step t` lines that only re-confirm that t is still blocked (120 ms each on the real side, no
    change of state on either side: the driver answers `blocked` without stepping).  Returns the reduced
    scenario and model blocks (the model output of the remaining lines is unchanged)."""
    out_s, out_m = [], []
    blocked = set()
    groups = []             # model lines per scenario line that produces output
    cur = None
    for l in model:
        if l.startswith("scenario ") or l.startswith("step ") or l.startswith("status "):
            cur = [l]
            groups.append(cur)
        elif cur is not None:
            cur.append(l)
    gi = 0
    for l in scen:
        if l.startswith("#") or l.startswith("thread "):
            out_s.append(l)
            continue
        if gi >= len(groups):
            return scen, model
        g = groups[gi]
        gi += 1
        if l.startswith("step "):
            t = l.split()[1]
            first = g[0].split()
            if first[:2] != ["step", t]:
                return scen, model
            if first[2:] == ["blocked"] and t in blocked and len(g) == 1:
                continue
            if first[2:] == ["blocked"]:
                blocked.add(t)
            for a in g[1:]:
                w = a.split()
                if w and w[0] == "auto":
                    (blocked.add if w[2:] == ["blocked"] else blocked.discard)(w[1])
        out_s.append(l)
        out_m += g
    if gi != len(groups):
        return scen, model
    return out_s, out_m


def _spec_verdict(model_lines, impl_lines):
    """does the implementation's own output of a scenario contradict a clause of the property?"""
    first = next(((a.strip(), b.strip()) for a, b in zip(model_lines, impl_lines) if a != b), None)
    if first:
        m, i = first
        if i == "tree hang":
            return ("the final walk of the tree (ReadDir / ReadFile of every node after the schedule) does not return within "
                    "the watchdog: a file or directory was left, or was born, locked: " + i)
        if i.endswith(" hang") and not m.endswith(" hang"):
            return ("a call blocks for ever (its goroutine is parked on a sync lock - read from the runtime after a generous "
                    "wait; the model says it proceeds): " + i)
        if i.endswith(" panic"):
            return "a call panicked: " + i
        if m.endswith(" blocked") and " done data" in i:
            return ("a reader returned data while a stream handle holds the file (a state between open and Close was "
                    "observed): " + i)
    for l in impl_lines:
        if " list " in l:
            names = [x.split(":")[0] for x in l.split(" list ", 1)[1].strip().split(",") if x]
            if len(names) != len(set(names)):
                return "a listing contains a name twice: " + l.strip()
        if l.startswith("tree "):
            paths = [x.split("=")[0].rstrip("/") for x in l.split()[1:]]
            if len(paths) != len(set(paths)):
                return "the final tree contains a path twice: " + l.strip()
    return ""


# ---------------------------------------------------------------------------------------------------------------
# the write-gap family wg_<i> (harness gen_wg.go): the property's own clause, with the SEQUENTIAL model of C01
# (m_fs, Goat.MemFS.step) as the specification of what a serial order leaves behind

def _hexs(t):
    return t.encode().hex() if t not in ("", "-", ".") else "-"


def _unhex(h):
    return "" if h == "-" else bytes.fromhex(h).decode("utf-8", "replace")


def _units(prog):
    """the operations of one thread as units of the sequential model: a Writer with its Writes and Close is one
    `writer` line.  Returns [(m_fs line without the fs id, number of protocol operations, kind)]"""
    ops = [o.split() for o in prog.split(" ; ")]
    res, i = [], 0
    while i < len(ops):
        o = ops[i]
        if o[0] == "openw":
            chunks, n = [], 1
            while i + n < len(ops) and ops[i + n][0] in ("hwrite", "close") and ops[i + n][1] == o[1]:
                if ops[i + n][0] == "hwrite":
                    chunks.append(ops[i + n][2])
                n += 1
                if ops[i + n - 1][0] == "close":
                    break
            res.append((["writer", _hexs(o[2])] + chunks, n, "writer"))
            i += n
            continue
        word = {"mkdirall": "mkdir", "read": "readfile", "exist": "isexist"}.get(o[0], o[0])
        if o[0] == "write":
            res.append((["write", _hexs(o[1]), o[2]], 1, "write"))
        elif o[0] in ("copy", "copyfile", "copydir"):
            res.append(([word, _hexs(o[1]), _hexs(o[2])], 1, "copy"))
        else:
            res.append(([word, _hexs(o[1])], 1, o[0]))
        i += 1
    return res


def _canon_res(r):
    """a result of either protocol with listings as sorted plain names"""
    r = r.strip()
    if r.startswith("list"):
        names = [x for x in r[4:].strip().split(",") if x]
        return "list " + ",".join(sorted(names))
    return r


def _seq_res(line, n):
    """result line of m_fs for one unit -> the n results of the gate protocol"""
    line = line.strip()
    if line.startswith("list"):
        names = [x for x in line[4:].strip().split(",") if x]
        return ["list " + ",".join(sorted(_unhex(x.split(":")[0]) + ":" + x.split(":")[1] for x in names))]
    return [line] * n


def _seq_tree(line):
    items = []
    for w in line.split()[1:]:
        if w.endswith("/"):
            items.append(_unhex(w[:-1]) + "/")
        else:
            a, b = w.split("=", 1)
            items.append(_unhex(a) + "=" + b)
    return sorted(items)


def _thread_results(out_lines):
    """per thread: the results of its operations in order, and the first wait that ended in hang/panic"""
    res, bad = collections.defaultdict(list), None
    for l in out_lines:
        w = l.split()
        if len(w) >= 3 and w[0] in ("step", "auto"):
            if w[2] == "done":
                res[w[1]].append(" ".join(w[3:]))
                if w[3:] == ["panic"] and bad is None:
                    bad = (w[1], len(res[w[1]]) - 1, "panic")
            elif w[2] == "hang" and bad is None:
                bad = (w[1], len(res[w[1]]), "hang")
    return res, bad


class _WriteGap:
    """evaluates the clause of the wg family.  Serial candidates are run through m_fs once per distinct
    (fixture, A, B, follow-up) and cached."""

    CANDS = ("AB", "BA", "A", "B", "none")

    def __init__(self, ctx, fsmodel):
        self.ctx, self.fsmodel = ctx, fsmodel
        self.cache = {}
        self.stats = collections.Counter()

    @staticmethod
    def progs(scen):
        th = {}
        for l in scen:
            if l.startswith("thread "):
                w = l.split(" ", 2)
                th[w[1]] = w[2].strip()
        return th

    def prepare(self, scens):
        """run the serial candidates of every scenario in `scens` (one m_fs process)"""
        todo, lines, seen = [], [], set()
        for s in scens:
            th = self.progs(s)
            key = (th["2"], th["0"], th["1"], th["3"])
            if key in self.cache or key in seen:
                continue
            seen.add(key)
            fix, a, b, f = (_units(th[t]) for t in ("2", "0", "1", "3"))
            for c in self.CANDS:
                seq = fix + {"AB": a + b, "BA": b + a, "A": a, "B": b, "none": []}[c] + f
                lines += ["reset", "new 0 mem"] + [" ".join([u[0][0], "0"] + u[0][1:]) for u in seq] + ["dump 0"]
                todo.append((key, c, (len(fix), len(a), len(b), seq)))
        if not todo:
            return
        ip, op = self.ctx.path("wg_serial.fs"), self.ctx.path("wg_serial.out")
        open(ip, "w").write("\n".join(lines) + "\n")
        rc, err = self.ctx.run_lines(self.fsmodel, [], ip, op)
        out = [l.rstrip("\n") for l in open(op)]
        if rc != 0 or len(out) != len(lines):
            self.ctx.fatal("sequential model m_fs failed on the serial candidates of the wg family: %s (%d lines for %d)"
                           % (err[-300:], len(out), len(lines)))
        i = 0
        for key, c, (nfix, na, nb, seq) in todo:
            i += 2
            rs = []
            for u in seq:
                if out[i] in ("bad-op", "nofs"):
                    self.ctx.fatal("m_fs does not understand `%s`" % " ".join(u[0]))
                rs.append(_seq_res(out[i], u[1]))
                i += 1
            tree = _seq_tree(out[i])
            i += 1
            racing = rs[nfix:len(seq) - len(_units(key[3]))]
            follow = [x for r in rs[len(seq) - len(_units(key[3])):] for x in r]
            self.cache.setdefault(key, {})[c] = dict(tree=tree, follow=follow, racing=[x for r in racing for x in r],
                                                     fixture_ok=all(x == "ok" for r in rs[:nfix] for x in r))
            self.stats["serial_histories_run"] += 1

    def verdict(self, scen, out_lines, side):
        """'' when the output satisfies the clause, else what is wrong; also the evidence counters"""
        th = self.progs(scen)
        key = (th["2"], th["0"], th["1"], th["3"])
        cands = self.cache[key]
        res, bad = _thread_results(out_lines)
        ops = {t: th[t].split(" ; ") for t in th}
        if bad:
            t, k, what = bad
            op = ops[t][k] if k < len(ops[t]) else "?"
            self.stats[side + ":" + what] += 1
            role = {"0": "the writing operation A", "1": "the creating operation B", "2": "the fixture",
                    "3": "the follow-up batch"}.get(t, "?")
            if what == "hang":
                return ("`%s` (thread %s, %s, operation %d) never returns: its goroutine is parked on a sync lock "
                        "(read from the runtime after a generous wait) while every operation started before it has "
                        "finished - no operation may block for ever once all others have finished" % (op, t, role, k + 1))
            return "`%s` (thread %s, %s) panicked" % (op, t, role)
        if not _complete(out_lines):
            return ""
        tree = next((sorted(l.split()[1:]) for l in out_lines if l.startswith("tree ")), None)
        a_ok = res["0"][:1] == ["ok"]
        b_ok = res["1"][:1] == ["ok"]
        self.stats["%s:racing A=%s,B=%s" % (side, "ok" if a_ok else "err", "ok" if b_ok else "err")] += 1
        admissible = ["AB", "BA"]
        if not (a_ok and b_ok):
            admissible.append("A" if a_ok else "B" if b_ok else "none")
        got_follow = [_canon_res(x) for x in res["3"]]
        self.stats[side + ":followup_operations_returned"] += len(got_follow)
        for c in admissible:
            cd = cands[c]
            if cd["tree"] == tree and [_canon_res(x) for x in cd["follow"]] == got_follow:
                if c in ("A", "B") and any(x != "ok" for x in cd["racing"]):
                    continue
                self.stats["%s:matched %s" % (side, c)] += 1
                return ""
        self.stats[side + ":no_serial_order"] += 1
        want = "; ".join("%s: tree %s follow-up %s" % (c, " ".join(cands[c]["tree"]), ",".join(cands[c]["follow"]).replace(" ", "_"))
                         for c in admissible)
        return ("the final tree / the answers of the follow-up batch are those of NO serial order of the two racing "
                "operations (sequential model of C01): got tree %s follow-up %s; serial orders give %s"
                % (" ".join(tree or []), ",".join(got_follow).replace(" ", "_"), want))


def _replays(ctx, go, model, fsmodel):
    n_gen = ctx.pick(420, 3000)
    n_sa = -1       # shared-ancestor family: the whole enumeration (its 4-thread part is drawn by the seed in the
                    # quick tier: 40 of 256 kind assignments per depth, 3 of 24 release orders; thorough: all)
    n_sib = -1      # sibling family: the whole enumeration
    budget_blocked = ctx.pick(1300, 12000)     # total number of "blocked" confirmations (120 ms each)
    shards = 14
    ops = ctx.path("scen.ops")
    with open(ops, "w") as h:
        for f in sorted(glob.glob(os.path.join(lib.ROOT, "corpus", "C09", "*.ops"))):
            for l in open(f):
                if l.startswith("scenario "):
                    w = l.split()
                    l = " ".join(w[:2] + MODEL_VARIANT.split()) + "\n"
                if l.strip() and (not l.startswith("#") or l.startswith("# expect ")):
                    h.write(l)
    n_wg = -1       # write-gap family: the whole enumeration
    rc, err = ctx.run([go, "gen", str(n_gen), str(n_sa), str(n_sib), str(ctx.pick(40, 256)), str(ctx.pick(3, 24)),
                       str(n_wg)], stdout=ctx.path("gen.ops"))
    if rc != 0:
        ctx.fatal("scenario generator failed: " + err[-300:])
    with open(ops, "a") as h:
        h.write(open(ctx.path("gen.ops")).read())
    mo = ctx.path("scen.model")
    rc, err = ctx.run_lines(model, [], ops, mo)
    if rc != 0:
        ctx.fatal("model driver failed on the scenarios: " + err[-300:])
    sb, mb = _blocks(ops, "scenario "), _blocks(mo, "scenario ")
    if len(sb) != len(mb):
        ctx.fatal("model produced %d scenario blocks for %d scenarios" % (len(mb), len(sb)))
    chosen, dropped_amb, dropped_budget, blocked_total = [], 0, 0, 0
    fam = collections.defaultdict(collections.Counter)
    model_vs_spec = []
    wg = _WriteGap(ctx, fsmodel)
    wg.prepare([s for s in sb if _family(s[0].split()[1]) == "wg"])
    for s, m in zip(sb, mb):
        f = _family(s[0].split()[1])
        fam[f]["generated"] += 1
        if any(l.startswith("ambiguous") or l.startswith("bad-op") for l in m):
            dropped_amb += 1
            fam[f]["dropped_ambiguous"] += 1
            continue
        if f in ("sa", "sib"):
            s, m = _squeeze(s, m)
        why = _expect_verdict(s, m)
        if f == "wg":
            if not _complete(m):
                fam[f]["expectation_not_applicable_schedule_ends_early"] += 1
            why = wg.verdict(s, m, "model")
        if why:
            model_vs_spec.append((s, m, why))
        if _expectation(s) is not None and not _complete(m):
            fam[f]["expectation_not_applicable_schedule_ends_early"] += 1
        nb = sum(1 for l in m if l.rstrip().endswith(" blocked"))
        if blocked_total + nb > budget_blocked and not s[0].split()[1].startswith("c_"):
            dropped_budget += 1
            fam[f]["dropped_for_time"] += 1
            continue
        blocked_total += nb
        chosen.append((s, m, nb))
    # balance the shards by their waiting time
    chosen.sort(key=lambda x: -x[2])
    bins = [[0, []] for _ in range(shards)]
    for c in chosen:
        b = min(bins, key=lambda b: b[0])
        b[0] += c[2] + 0.05 * len(c[0])
        b[1].append(c)
    procs = []
    for i, (_, items) in enumerate(bins):
        if not items:
            continue
        so, sm, si = ctx.path("shard%d.ops" % i), ctx.path("shard%d.model" % i), ctx.path("shard%d.impl" % i)
        open(so, "w").write("".join("".join(s) for s, _, _ in items))
        open(sm, "w").write("".join("".join(m) for _, m, _ in items))
        e = ctx.goenv()
        procs.append((items, si, subprocess.Popen([go, "replay", so, sm], stdout=open(si, "wb"),
                                                  stderr=subprocess.PIPE, env=e)))
    mismatches = []
    spec_fail = []
    steps = 0
    shard_timeout = int(os.environ.get("C09_SHARD_TIMEOUT", ctx.pick(300, 3000)))
    deadline = time.time() + shard_timeout
    timed_out = []
    for items, si, p in procs:
        killed = False
        try:
            _, err = p.communicate(timeout=max(1.0, deadline - time.time()))
        except subprocess.TimeoutExpired:
            # a replay that does not come to an end is a RESULT about the implementation (a hang or a step that never
            # arrives; the driver's own watchdogs should have fired long before): the driver flushes per line, so the
            # scenarios it completed are judged, and the one it was stuck in is reported with the scenario as replay
            p.kill()
            _, err = p.communicate()
            killed = True
        if p.returncode != 0 and not killed:
            ctx.fatal("gated replay failed rc=%d %s" % (p.returncode, err.decode("utf-8", "replace")[-400:]))
        ib = _blocks(si, "scenario ")
        if killed:
            done = [b for b in ib if b and b[-1].startswith("tree ")]
            stuck_i = len(done)
            if stuck_i < len(items):
                s_, m_, _ = items[stuck_i]
                part = ib[stuck_i] if stuck_i < len(ib) else []
                why = ("scenario %s did not finish within %d s (the replay of its shard was stopped; the implementation "
                       "hangs, or never reaches a step, in a way the driver's own watchdogs did not turn into an answer); "
                       "last answer: %s" % (s_[0].split()[1], shard_timeout, part[-1].strip() if part else "none"))
                spec_fail.append((s_, _strip_notes(m_), part, why))
            timed_out.append(dict(shard=os.path.basename(si), completed=len(done), not_judged=max(0, len(items) - len(done) - 1)))
            items, ib = items[:len(done)], done
        if len(ib) != len(items):
            ctx.fatal("replay produced %d blocks for %d scenarios" % (len(ib), len(items)))
        for (s, m, _), im in zip(items, ib):
            mm = _strip_notes(m)
            steps += len(mm)
            name = s[0].split()[1]
            kinds = collections.Counter()
            for l in mm:
                w = l.split()
                if w[0] in ("step", "auto") and len(w) >= 3:
                    kinds["replay:" + w[2] + ((":" + w[3]) if w[2] in ("park", "done") and len(w) > 3 else "")] += 1
            for k, v in kinds.items():
                ctx.histogram[k] += v
            nontrivial = any(k.startswith("replay:park") or k == "replay:blocked" for k in kinds)
            f = _family(name)
            ctx.note_case("".join(s), nontrivial=nontrivial, kind="replay:scenario:" + f)
            fam[f]["scenarios"] += 1
            fam[f]["compared_lines"] += len(mm)
            fam[f]["blocked_confirmations"] += kinds["replay:blocked"]
            fam[f]["parks"] += sum(v for k, v in kinds.items() if k.startswith("replay:park"))
            if _expectation(s) is not None and _complete(mm):
                fam[f]["with_expectation"] += 1
                why = _expect_verdict(s, im)
                if why:
                    spec_fail.append((s, mm, im, why))
            if f == "wg" and _complete(mm):
                fam[f]["with_expectation"] += 1
                why = wg.verdict(s, im, "impl")
                if why:
                    spec_fail.append((s, mm, im, why))
            if len(ctx.samples) < 2 and nontrivial:
                ctx.samples.append(dict(scenario=[x.strip() for x in s][:14], model=[x.strip() for x in mm][:14],
                                        impl=[x.strip() for x in im][:14]))
            if mm != im:
                mismatches.append((s, mm, im))
    ctx.evaluations += steps
    ctx.extra["replay"] = dict(scenarios=len(chosen), dropped_ambiguous=dropped_amb, dropped_for_time=dropped_budget,
                               blocked_confirmations=blocked_total, compared_lines=steps, shards=len(procs),
                               families={k: dict(v) for k, v in sorted(fam.items())})
    # the scenario's own expectation (every racing operation succeeds with its sequential result, the final tree is
    # the union) evaluated on the implementation, and on the model
    for s, mm, im, why in spec_fail[:3]:
        ctx.violation("impl-vs-spec", "gated replay of the real memfs: " + why, lines=[x.rstrip("\n") for x in s],
                      annotations=["impl: " + x.strip() for k, x in enumerate(im) if x.startswith("tree ") or " done " in x
                                   or (x.rstrip().endswith(" hang") and not any(y.rstrip().endswith(" hang") for y in im[:k]))]
                      + ["spec: " + next((x.strip() for x in s if x.startswith("# expect ")),
                                         "every operation returns; final tree and follow-up answers = sequential model "
                                         "(C01) after fixture, a serial order of the racing operations, follow-up batch")],
                      concrete=True)
    for s, m, why in model_vs_spec[:3]:
        ctx.violation("impl-vs-model", "the lock-granular MODEL contradicts the expectation of a generated scenario "
                      "(the model or the generator is wrong): " + why, lines=[x.rstrip("\n") for x in s], concrete=False)
    ctx.extra["replay"]["expectation_failures"] = dict(impl=len(spec_fail), model=len(model_vs_spec))
    ctx.extra["replay"]["shards_stopped_at_timeout"] = timed_out
    ctx.extra["replay"]["write_gap_family"] = dict(sorted(wg.stats.items()))
    for k in ("impl:hang", "impl:panic", "impl:no_serial_order", "model:no_serial_order"):
        ctx.extra["replay"]["write_gap_family"].setdefault(k, 0)
    ctx.evaluations += wg.stats["impl:followup_operations_returned"] + wg.stats["model:followup_operations_returned"]
    # a scenario whose own clause already failed on the implementation is reported above (a hang there is read from
    # the runtime): it is not replayed alone once more
    failed_names = {s[0] for s, _, _, _ in spec_fail}
    mismatches = [x for x in mismatches if x[0][0] not in failed_names] if spec_fail else mismatches
    if any(l.rstrip().endswith("note deadlock") or l.startswith("note deadlock") for _, m, _ in chosen for l in m):
        ctx.extra["replay"]["scenarios_ending_in_model_deadlock"] = sum(
            1 for _, m, _ in chosen if any(l.startswith("note deadlock") for l in m))
    # confirm each mismatch by replaying the scenario alone
    confirmed = []
    for s, mm, im in mismatches[:3]:
        so, sm, si = ctx.path("one.ops"), ctx.path("one.model"), ctx.path("one.impl")
        open(so, "w").write("".join(s))
        ctx.run_lines(model, [], so, sm)
        rc1, _ = ctx.run([go, "replay", so, sm], stdout=si, timeout=300)
        mm2, im2 = _strip_notes(open(sm).readlines()), open(si).readlines()
        if rc1 == 124:
            im2.append("replay alone did not finish within 300 s hang\n")
        if mm2 != im2:
            confirmed.append((s, mm2, im2))
        else:
            ctx.notes.append("a replay difference in scenario %s did not reproduce when replayed alone" % s[0].split()[1])
    return confirmed, bool(spec_fail)


def _report_replay(ctx, confirmed):
    found = False
    for s, mm, im in confirmed[:3]:
        why = _spec_verdict(mm, im)
        first = next(((a.strip(), b.strip()) for a, b in zip(mm, im) if a != b), ("", ""))
        ann = ["model: " + first[0], "impl: " + first[1]]
        if why:
            found = True
            ctx.violation("impl-vs-spec", "gated replay of the real memfs: " + why, lines=[x.rstrip("\n") for x in s],
                          annotations=ann + ["spec: no call blocks for ever or panics; listings and trees are duplicate-free"],
                          concrete=True)
        else:
            ctx.violation("impl-vs-model", "the real memfs and the lock-granular model differ under a gated schedule",
                          lines=[x.rstrip("\n") for x in s], annotations=ann, concrete=False)
    return found


def _stress(ctx, go, model, race=False):
    procs_n = ctx.pick(8, 14) if not race else ctx.pick(3, 8)
    rounds = (ctx.pick(150, 1500) if not race else ctx.pick(15, 120))
    runs, runs_env = [], []
    for i in range(procs_n):
        e = ctx.goenv()
        e["VERIF_SEED"] = str(ctx.seed * 1000 + i + (500 if race else 0))
        if race:
            e["GORACE"] = "halt_on_error=0"
        hp = ctx.path("%s%d.hist" % ("race" if race else "stress", i))
        runs.append((hp, subprocess.Popen([go, "stress", str(rounds), "chaos"], stdout=open(hp, "wb"),
                                          stderr=subprocess.PIPE, env=e)))
        runs_env.append(e["VERIF_SEED"])
    rejects, hist_n, races, crashes = [], 0, [], []
    budget = int(os.environ.get("C09_STRESS_TIMEOUT", ctx.pick(240, 4000)))
    deadline = time.time() + budget
    stuck = []
    for k, (hp, p) in enumerate(runs):
        killed = False
        try:
            _, err = p.communicate(timeout=max(1.0, deadline - time.time()))
        except subprocess.TimeoutExpired:
            # a stress process that does not end although every round has a watchdog: something of the implementation
            # blocks outside them - a RESULT.  The complete histories it wrote are judged; the round it is stuck in is
            # reported (reproduce with the seed below)
            p.kill()
            _, err = p.communicate()
            killed = True
            txt = open(hp, errors="replace").read()
            cut = txt.rfind("endhistory\n")
            open(hp, "w").write(txt[:cut + len("endhistory\n")] if cut >= 0 else "")
            stuck.append((runs_env[k], txt[cut + len("endhistory\n"):] if cut >= 0 else txt, txt.count("endhistory\n")))
        errt = err.decode("utf-8", "replace")
        if race:
            races += errt.split("==================")
        if p.returncode != 0 and not killed:
            if "goatcms/goatcore" in errt or "fatal error:" in errt:
                # the process died inside goatcore code (a Go `fatal error` cannot be recovered)
                crashes.append(errt[:3000])
            else:
                ctx.fatal("stress run failed rc=%d %s" % (p.returncode, errt[-400:]))
        mp = hp + ".mon"
        rc, e2 = ctx.run_lines(model, [], hp, mp)
        if rc != 0:
            ctx.fatal("history monitor failed: " + e2[-300:])
        verdicts = [l.rstrip("\n") for l in open(mp)]
        hb = _blocks(hp, "history ")
        ok = [v for v in verdicts if v.startswith("accept ") or v.startswith("reject ")]
        if len(ok) != len(hb):
            if p.returncode != 0 or killed:
                hb = hb[:len(ok)]       # the last history was cut off by the crash
            else:
                ctx.fatal("monitor gave %d verdicts for %d histories" % (len(ok), len(hb)))
        for v, hl in zip(ok, hb):
            hist_n += 1
            kinds = collections.Counter()
            muts_ok = errs = 0
            for l in hl:
                if l.startswith("g "):
                    w = l.split(" ")
                    res = l.rsplit(" -> ", 1)[1].split(" ")[0].strip()
                    kinds["%s:%s" % (w[2], res if res in ("ok", "err", "data", "list", "t", "f", "panic", "hang") else "other")] += 1
                    muts_ok += res == "ok"
                    errs += res == "err"
            ctx.evaluations += sum(kinds.values())
            if not race:
                for k, c in kinds.items():
                    ctx.histogram["stress:" + k] += c
                ctx.histogram["stress:rounds:" + hl[0].split()[1].split("_", 1)[1]] += 1
                ctx.note_case("".join(hl), nontrivial=muts_ok > 0 and errs > 0, kind=None)
                if len(ctx.samples) < 4 and len(hl) < 120:
                    ctx.samples.append(dict(history=[x.strip()[:160] for x in hl][:12], monitor=v))
            if v.startswith("reject "):
                rejects.append((v, hl))
    for seed, partial, nhist in stuck[:2]:
        ctx.violation("impl-vs-spec", "a stress process%s did not end within %d s although every round runs under a watchdog: "
                      "after %d complete histories an operation of the real memfs blocks for ever (reproduce: VERIF_SEED=%s "
                      "memfsconc stress %d chaos)" % (" (race build)" if race else "", budget, nhist, seed, rounds),
                      lines=[x for x in partial.split("\n") if x][:400], concrete=True)
    for c in crashes[:2]:
        ctx.violation("impl-vs-spec", "the stress process aborted inside goatcore code (a call panicked beyond recovery)",
                      annotations=c.split("\n")[:40], concrete=True)
    return rejects, hist_n, races


def _classify_races(ctx, blocks):
    """goatcore frames of every race report; returns (known, unknown) lists of short descriptions"""
    known, unknown = [], []
    for b in blocks:
        if "DATA RACE" not in b:
            continue
        stacks = re.split(r"\n\n", b)
        tops = []
        for st in stacks[:2]:
            fr = re.findall(r"^\s+(github\.com/goatcms/goatcore/\S+?)\(\)\n\s+(\S+?):(\d+)", st, re.M)
            if fr:
                tops.append("%s (%s:%s)" % (fr[0][0].split("goatcore/")[1], os.path.basename(fr[0][1]), fr[0][2]))
        if not tops:
            continue          # a race that does not involve goatcore code (harness bookkeeping)
        d = " <-> ".join(tops)
        if "removeNodeByNodePath" in d:
            known.append(d)
        else:
            unknown.append((d, b.strip()[:3000]))
    return known, unknown


def run(ctx):
    go = ctx.build_go("memfsconc")
    # ExtractedC09.lean belongs to the shared lake project: after a run against another tree (VERIF_REPO, mutants)
    # leave it in the state of /repo, whatever happens in between (the text is computed up front: `fatal` removes
    # the run directory and with it the harness binary)
    restore = _leanfacts_text(ctx, go, "/repo") if ctx.repo != "/repo" else None
    try:
        _run(ctx, go)
    finally:
        if restore is not None:
            _install_extracted(restore)


def _run(ctx, go):
    failed = _lean(ctx, go)
    model = ctx.build_model("m_memfsconc")
    ctx.rule = ("(a) structure: lock facts of %d memfs functions (ordered list of lock operations and lock-taking calls) and the structural "
                "tie: the synchronisation skeleton of every memfs function (go/ast -> Goat/Tie/ExtractedC09.lean: lock "
                "operations, accesses to nodes/index/data/time, memfs calls, yield points, held-regions, control flow inside "
                "them) compared by `decide` with the model's action table (Goat/Model/MemFSConcActs.lean) in the tie_* "
                "theorems of Goat/Tie/C09.lean; "
                "(b) gated replays: corpus/C09 + generated scenarios (holder family h: handle holder x directory toucher x "
                "concurrent operation, exhaustive over 2x8x11; random family r: 2-3 threads, 1-3 ops each on a 6-path pool, random "
                "schedule; shared-ancestor family sa: 2-4 threads, one mkdirall/write each below a missing common ancestor chain "
                "of depth 1-3 (or the same path), all parked in memfs.mkdir.gap for the first missing ancestor, then released in "
                "every order / round-robin / staircase - the whole enumeration for n<=3, for n=4 %s; sibling family sib: a fixture thread, then two threads with one operation each of {mkdirall, write new, "
                "write existing, remove, removeall, copy file, copy dir, read, readdir} on siblings d/x, d/y, every ordered pair "
                "of kinds x both starting threads x every pair of park positions a^k b^l a^* b^*, the whole enumeration; "
                "write-gap family wg: a fixture thread, then A in {WriteFile, Writer+Close, Writer+Write+Close} on a not yet "
                "existing file P (d/p, or d/n/p below a missing directory) against B in {Copy, CopyFile of a file onto P, Copy, "
                "CopyDirectory of a directory onto P, MkdirAll P, MkdirAll P/z, CopyDirectory onto P's parent} - the operations "
                "that create the node without the directory's writer lock -, A held at each of its yield points up to "
                "memfs.write.gap x B given 0..all of its steps (all = B completes inside A's gap), and B held at each of its "
                "yield points while A runs as a whole; after both have finished a follow-up thread runs one of 4 batches on "
                "OTHER names of the same directory (WriteFile, Writer+Write+Close, Remove, MkdirAll, ReadDir) and on P; the "
                "whole enumeration; its clause - every operation returns (a hang is the goroutine parked on a sync lock, "
                "read from the runtime), final tree and follow-up answers = the sequential model of C01 (m_fs) after fixture, "
                "one serial order of A and B (or the ones that reported success), follow-up batch - is evaluated on the "
                "implementation and on the model) - compared "
                "per scheduling step and final tree; sa/sib scenarios also carry the property's own expectation (every racing "
                "operation succeeds with its sequential result, final tree = fixture + both effects) which is evaluated on the "
                "implementation and on the model; non-trivial = some goroutine parks at a yield point "
                "or blocks; distinct = distinct scenario text; (c) stress histories: 2..32 goroutines x 10..70 ops, GOMAXPROCS "
                "1..16, Gosched injection 0/1/2 of 3 levels, zones: owned names in shared dirs, shared files, create races, "
                "chaos zone x/ (removal of directories being written) - decided by the Lean monitor R0-R5; non-trivial = "
                "history with successful mutations and errors; (d) the same stress under -race."
                % (len(EXPECTED_FACTS), ctx.pick("40 of 256 kind assignments per depth and 3 of 24 release orders drawn by "
                                                 "the seed", "everything too")))
    concrete = False
    # (a) facts
    bad_facts = _facts(ctx, go)
    # (b) gated replays
    confirmed, spec_failed = _replays(ctx, go, model, ctx.build_model("m_fs"))
    concrete |= spec_failed
    if confirmed:
        concrete |= _report_replay(ctx, confirmed)
    # (c) stress + monitor
    rejects, hist_n, _ = _stress(ctx, go, model)
    ctx.extra["stress"] = dict(histories=hist_n, rejected=len(rejects))
    for v, hl in rejects[:3]:
        concrete = True
        ctx.violation("impl-vs-spec", "stress history rejected by the Lean monitor: " + v,
                      lines=[x.rstrip("\n") for x in hl] + ["endhistory"] if not hl[-1].startswith("endhistory") else [x.rstrip("\n") for x in hl],
                      annotations=["monitor: " + v], concrete=True)
    # (d) race detector
    gor = ctx.build_go("memfsconc", race=True)
    rrej, rh, race_blocks = _stress(ctx, gor, model, race=True)
    e = ctx.goenv()
    e["GORACE"] = "halt_on_error=0"
    try:
        p = subprocess.run([gor, "kfrace", "3000"], stdout=subprocess.PIPE, stderr=subprocess.PIPE, env=e, timeout=240)
        kf_blocks = p.stderr.decode("utf-8", "replace").split("==================")
    except subprocess.TimeoutExpired:
        kf_blocks = []
        concrete = True
        ctx.violation("impl-vs-spec", "MkdirAll/Remove of d/e against WriteFile/Remove of d/e/x (3000 rounds, two goroutines, "
                      "witness program of KF-C09-1) did not end within 240 s: an operation of the real memfs blocks for ever",
                      concrete=True)
    known, unknown = _classify_races(ctx, race_blocks + kf_blocks)
    ctx.extra["race_detector"] = dict(histories=rh, rejected=len(rrej), goatcore_races_known=sorted(set(known)),
                                      goatcore_races_unknown=[u[0] for u in unknown])
    for v, hl in rrej[:2]:
        concrete = True
        ctx.violation("impl-vs-spec", "stress history (race build) rejected by the Lean monitor: " + v,
                      lines=[x.rstrip("\n") for x in hl], annotations=["monitor: " + v], concrete=True)
    kfs = {f["id"]: f for f in ctx.known_findings()}
    if known:
        if KF_RACE in kfs:
            ctx.known(KF_RACE, "race detector: Remove reads len(dir.nodes) without the directory's mu (%s)" % sorted(set(known))[0])
        else:
            unknown += [(k, k) for k in sorted(set(known))]
    elif KF_RACE in kfs:
        ctx.notes.append("%s was not reproduced by its witness in this run (repaired? then move it to `fixed`)" % KF_RACE)
    seen = set()
    for d, text in unknown:
        if d in seen:
            continue
        seen.add(d)
        ctx.violation("impl-vs-model", "the race detector reports a data race in goatcore code outside the modelled critical "
                      "sections (the atomicity assumption of the model does not hold): " + d,
                      annotations=text.split("\n")[:40], concrete=False)
    # facts verdict
    if bad_facts:
        ctx.violation("impl-vs-model", "the lock brackets of memfs are not the ones the model assumes:\n" + "\n".join(bad_facts),
                      concrete=concrete)
    if failed:
        # a tie theorem that fails at its own line names the critical section that moved; the other theorems of a
        # module that did not compile are not evidence of anything by themselves
        broken = [o for o in failed if o["name"].startswith("Goat.Tie.C09.") and o["reason"].startswith("line ")]
        others = [o for o in failed if o not in broken and not o["reason"].startswith("module did not compile")]
        if broken:
            ctx.violation("obligation", "the synchronisation skeleton of memfs (go/ast, Goat/Tie/ExtractedC09.lean) is not "
                          "the one the model's action table assumes (Goat/Model/MemFSConcActs.lean); tie theorems that no "
                          "longer check:\n" + "\n".join("%s: %s" % (o["name"], o["reason"][:300]) for o in broken),
                          theorem=broken[0]["name"], concrete=concrete)
        if others or not broken:
            ctx.obligation_violations(others or failed, searcher=lambda: concrete)
    if not ctx.quick():
        ctx.leanchecker(["Goat.Props.C09", TIE_MODULE])
        if any(not o["ok"] for o in ctx.obligations) and not failed:
            ctx.obligation_violations([o for o in ctx.obligations if not o["ok"]])
    ctx.assumptions += [
        "the Go critical sections modelled as atomic actions are atomic: Go memory model, sync.Mutex/RWMutex; nothing outside "
        "them races (lock facts + -race stress).  File.Size()/File.ModTime() read f.data/f.time without dataMU; they are not "
        "observables of the property and are outside the default stress (MEMFSCONC_STAT=1 adds them)",
        "threads follow the discipline of no_deadlock: a thread requesting a file's data lock holds only handles on files with "
        "a smaller object id, and closes its handles before it ends",
        "paths reach memfs already reduced (ReduceAbsPath is sequential and pure: properties C01/C03)",
        "distinct_paths_commute / distinct_paths_progress: the operations of a batch are pairwise independent (IndepOp; "
        "in particular on pairwise unrelated paths), on non-empty paths, a copy's source and destination unrelated, no "
        "stream handle is open, and the batch starts on a quiescent forest-shaped heap (the empty filespace, or the heap "
        "a finished batch left: conclusion (4) of the theorem)",
    ]
    ctx.trusted_base += [
        "gate scheduler of harness/cmd/memfsconc (goroutine identification by runtime.Stack, 120 ms confirmation of 'blocked' "
        "only where the model says blocked; where it says progress: `stalled` at once when the driver itself has not "
        "resumed the thread and no event is queued; else 20 s wait - 1.5 s once any long wait of the process has expired "
        "-, then `hang` if a stop-the-world stack snapshot shows the goroutine parked on a sync lock, twice, or if it "
        "neither arrives nor parks within 120 s - 5 s after the first expiry; a replay shard that exceeds its time "
        "budget is stopped, its completed scenarios are judged and the one it was stuck in is a violation)",
        "write-gap family: the translation of a thread's operations into lines of the sequential model's driver m_fs "
        "(checks/c09.py _units: Writer+Writes+Close = one `writer` line) and the comparison of trees / sorted listings",
        "history monitor rules R0-R5 (Driver/MemFSConc.lean) as the executable form of 'final tree = union of successful "
        "operations on distinct paths, reads see complete values, listings duplicate-free'",
        "go/ast lock facts are syntactic",
        "the synchronisation skeletons of the structural tie (harness memfsconc leanfacts -> Goat/Tie/ExtractedC09.lean) are "
        "syntactic: go/ast without type information, calls matched with the package's declarations by name and number of "
        "arguments, held-regions computed per control path inside one function (a lock handed over between functions - the "
        "stream handle - is stated in the action table, not extracted), guarded fields = nodes, index, data, time by name; "
        "the expected side (Goat/Model/MemFSConcActs.lean: Act constructor -> Go function, lock, mode, skeleton) is hand-written",
    ]
    zero = [k for k in ("replay:blocked", "replay:scenario:sa", "replay:scenario:sib", "replay:scenario:wg", "stress:copy:ok", "stress:copy:err", "stress:stream:ok", "stress:remove:ok",
                        "stress:removeall:ok", "stress:sread:data") if not ctx.histogram.get(k)]
    if zero:
        ctx.notes.append("coverage gap: no case of " + ", ".join(zero))


def replay(ctx, path):
    go = ctx.build_go("memfsconc")
    model = ctx.build_model("m_memfsconc")
    lines = lib.replay_ops(path)
    ops = ctx.path("replay.ops")
    open(ops, "w").write("\n".join(lines) + "\n")
    mo = ctx.path("replay.model")
    ctx.run_lines(model, [], ops, mo)
    if any(l.startswith("history ") for l in lines):
        out = open(mo).read()
        print(out.strip())
        bad = "reject " in out
        print("replay:", "still rejected by the monitor (recorded history; re-run the stress for a fresh one)" if bad else "accepted")
        return 1 if bad else 0
    im = ctx.path("replay.impl")
    ctx.run([go, "replay", ops, mo], stdout=im, timeout=900)
    rc = 0
    mm = _strip_notes(open(mo).readlines())
    for a, b in zip(mm, open(im).readlines()):
        flag = "  " if a == b else "!!"
        print("%s model %-40s impl %s" % (flag, a.strip(), b.strip()))
        if a != b:
            rc = 1
    print("replay:", "still failing" if rc else "the real memfs and the model agree on this schedule")
    return rc
