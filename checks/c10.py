"""C10 — dependency container: lazy singletons, fixed precedence, safe failure.

Theorems: lean/Goat/Props/C10.lean about lean/Goat/Model/DI.lean (mirror of app/dependency/provider.go
including AddInjectors and NewStaticProvider, of app/injector/{map,multi,nil_injector}.go and of
app/scope/datascope/injector.go; names and struct tags are text).
Correspondence: harness/cmd/di (the real dependency.Provider; factories are closures interpreting
data, InjectTo targets are reflect.StructOf types, injectors are the real map / data-scope / multi /
nil injectors built from data, the static provider is NewStaticProvider over the running provider's
own tables) against the compiled model driver m_di on generated programs, compared line by line:
accepted/refused, ok/error with the top-level error kind, identity classes of the returned objects
(nil included), the ordered list of factory invocations of each request, total invocation counters,
key order (as a set for a static provider).  Two streams: the original one (definitions of all four
kinds in any order with duplicates, dependency graphs with cyclic/failing/nil/optional/injected
edges, request histories of Get/InjectTo/Keys with late definitions; thorough adds every 3-name
graph) and the extended one (names from a pool with the empty name, `?a`, `??a`, `a?`, `?`; nil
definitions; AddInjectors with map/scope/multi/nil injectors for the provider's own and other tag
names, before and after the first resolution; struct fields with several tags; InjectTo of
non-structs; switching to a static provider at any point; plus an exhaustive small space, `enumx`).
Spec-vs-implementation: `di oracle` evaluates the property's clauses on the implementation alone
(including a provider against its static twin); `di judge` does the same for one given program (the
verdict on a model/implementation difference).
"""
import collections
import concurrent.futures
import glob
import hashlib
import os
import re

import lib

META = dict(
    level_claimed=dict(
        category="proof",
        text="Lean 4 theorems over all histories of Set/SetDefault (object or nil)/AddFactory/AddDefaultFactory/AddInjectors/"
             "Get/InjectTo (any length, any order, names any text including the empty one and `?`-prefixed ones, any factory "
             "dependency graph and any injector tree given as data) about an executable model of dependency.Provider, of the "
             "map / data-scope / multi / nil injectors and of NewStaticProvider: termination without running out of fuel, "
             "empty resolution stack after every request, at most one successful factory run per name and none after an "
             "instance exists, singleton answers for Get and injection, first explicit definition beats every default in "
             "every registration order, all definitions and AddInjectors refused after the first resolution, required cycle "
             "gives an error, top-level success of a name is equivalent to an inductive predicate on the definitions alone "
             "(so no failed or optional request can change another answer); extra injectors never touch the provider and "
             "the last registered one with a value wins a field; a static provider answers every history exactly like the "
             "blocked original (same results, same factory runs) and refuses every definition; a nil definition is handed "
             "out by Get and refused by InjectTo even for an optional field; exactly one `?` is stripped from a tag; the "
             "only panic is InjectTo of a non-struct.  The model is tied to the Go code on every run by a differential over "
             "generated programs (5 000 + 3 000 extended quick / 500 000 + 300 000 extended thorough + all 3-name graphs + "
             "the exhaustive extended space).",
        design_ref="DESIGN.md 3 C10"),
    level_note="Trusted: Lean kernel (axioms propext/Classical.choice/Quot.sound only), the hand-written model's correspondence "
               "to /repo (differential; generator distribution in the evidence histogram), Go map/slice/reflect semantics as "
               "modelled (Block's range over a map is modelled point-wise because its body touches only the current key), the "
               "harness's factory closures and identity-class canonicalisation, its reading of the provider's private "
               "tables (reflect/unsafe) when it builds the static provider.  Outside the model: InjectTo targets whose field "
               "types do not accept the instance or that have unexported tagged fields, nil app.Injector values, user-written "
               "injector types, a nil instances map handed to NewStaticProvider, a static provider created with another tag "
               "name than the original, factories that panic (a recovered panic inside a factory leaves its name on the "
               "resolution stack).",
    technique="Lean 4 proof (fuel-indexed big-step model, invariants by induction on fuel and on histories) + differential correspondence",
)

SHARDS = 16
OVERFLOW = re.compile(r"stack overflow|goroutine stack exceeds|fatal error")


def _programs(path):
    """yield (start_index, [op lines]) for every program (`new` … ) of an ops file"""
    cur, start, i = [], 0, 0
    for l in open(path):
        l = l.rstrip("\n")
        if not l or l.startswith("#"):
            continue
        if l == "new" and cur:
            yield start, cur
            cur, start = [], i
        cur.append(l)
        i += 1
    if cur:
        yield start, cur


def _account(args):
    """histogram and distinct non-trivial digests of one shard (runs in a worker process)"""
    ops_path, impl_path = args
    hist = collections.Counter()
    digests = set()
    programs = 0
    with open(ops_path) as fo, open(impl_path) as fi:
        h, ok, err = None, False, False
        static = False
        for o, r in zip(fo, fi):
            o, r = o.rstrip("\n"), r.rstrip("\n")
            if o == "new":
                if h is not None and ok and err:
                    digests.add(h.digest())
                h, ok, err = hashlib.blake2b(digest_size=8), False, False
                programs += 1
                static = False
                continue
            h.update(o.encode() + b"\n")
            of = o.split(" ")
            kw = of[0]
            rf = r.split(" ")
            head = rf[0]
            if head == "err" and len(rf) > 1:
                head += ":" + rf[1]
            if kw == "get" and r.startswith("inst nil"):
                head = "inst-nil"
            if kw in ("set", "setdefault") and len(of) == 3:
                kw += "-nil"
            hist[kw + ":" + head] += 1
            if static:
                hist["after-static:" + kw + ":" + head] += 1
            if kw == "static":
                static = True
            if len(of) > 1 and kw not in ("addinjectors", "inject", "injectbad"):
                if of[1] == "~":
                    hist["name:empty"] += 1
                elif of[1].startswith("?"):
                    hist["name:?-prefixed"] += 1
            if kw == "inject" and "=" in o:
                hist["field:extra-tag"] += 1
            if kw in ("get", "inject"):
                ok |= head in ("inst", "ok")
                err |= head.startswith("err")
                if "ran=-" not in r:
                    hist["request-ran-factories"] += 1
            if kw in ("factory", "deffactory"):
                for d in o.split(" ")[2].split(","):
                    p = d.split(":")
                    if len(p) == 3:
                        hist["edge:" + ("optional" if p[1] == "o" else "required") + ":" + ("inject" if p[2] == "i" else "get")] += 1
        if h is not None and ok and err:
            digests.add(h.digest())
    return hist, digests, programs


class Campaign:
    def __init__(self, ctx):
        self.ctx = ctx
        self.go = ctx.build_go("di")
        self.model = ctx.build_model("m_di")
        self.mismatches = []      # (ops_path, index, op, impl, model)
        self.crashes = []         # (ops_path, stderr)
        self.programs = 0

    def pair(self, ops, tag):
        ctx = self.ctx
        a, b = ctx.path(tag + ".impl"), ctx.path(tag + ".model")
        rc, err = ctx.run_lines(self.go, ["drive"], ops, a)
        if rc != 0:
            if OVERFLOW.search(err):
                self.crashes.append((ops, a, err[-600:]))
                return a, None
            ctx.fatal("implementation driver failed rc=%d %s" % (rc, err[-500:]))
        rc, err = ctx.run_lines(self.model, [], ops, b)
        if rc != 0:
            ctx.fatal("model driver failed rc=%d %s" % (rc, err[-500:]))
        return a, b

    def shard(self, tag, gen_args, seed):
        """generate one shard, run both sides, return (ops, impl, model)"""
        ctx = self.ctx
        ops = ctx.path(tag + ".ops")
        env = ctx.goenv()
        env["VERIF_SEED"] = str(seed)
        rc, err = ctx.run([self.go] + gen_args, stdout=ops, env=env)
        if rc != 0:
            ctx.fatal("generator failed: " + err[-300:])
        a, b = self.pair(ops, tag)
        return ops, a, b

    def compare(self, ops, a, b):
        if b is None:
            return
        for idx, op, ia, mb in self.ctx.diff_streams(ops, a, b, limit=5):
            self.mismatches.append((ops, idx, op, ia, mb))

    def differs(self, lines):
        """do model and implementation disagree on this program?"""
        ctx = self.ctx
        ops = ctx.path("min.ops")
        open(ops, "w").write("\n".join(lines) + "\n")
        a, b = ctx.path("min.impl"), ctx.path("min.model")
        rc, err = ctx.run_lines(self.go, ["drive"], ops, a, timeout=120)
        if rc != 0:
            return True
        ctx.run_lines(self.model, [], ops, b, timeout=120)
        return open(a).read() != open(b).read()

    def judge(self, lines):
        """the property's clauses on the implementation for this program: list of FAIL lines"""
        ctx = self.ctx
        ops = ctx.path("judge.ops")
        open(ops, "w").write("\n".join(lines) + "\n")
        out = ctx.path("judge.out")
        rc, err = ctx.run_lines(self.go, ["judge"], ops, out, timeout=120)
        if rc != 0:
            return ["FAIL crash the implementation crashed: " + err[-300:].replace("\n", " ")]
        return [l.rstrip("\n") for l in open(out) if l.startswith("FAIL ")]

    def both(self, lines):
        ctx = self.ctx
        ops = ctx.path("show.ops")
        open(ops, "w").write("\n".join(lines) + "\n")
        a, b = ctx.path("show.impl"), ctx.path("show.model")
        ctx.run_lines(self.go, ["drive"], ops, a, timeout=120)
        ctx.run_lines(self.model, [], ops, b, timeout=120)
        return [l.rstrip("\n") for l in open(a)], [l.rstrip("\n") for l in open(b)]


def _program_at(ops_path, index):
    for start, prog in _programs(ops_path):
        if start <= index < start + len(prog):
            return prog
    return None


def _report_mismatch(ctx, camp, ops_path, index, op, ia, mb):
    prog = _program_at(ops_path, index) or [op]
    small = ctx.ddmin(prog, camp.differs, keep_prefix=1) if camp.differs(prog) else prog
    fails = camp.judge(small)
    impl, model = camp.both(small)
    ann = []
    for i, l in enumerate(small):
        x = impl[i] if i < len(impl) else "<none>"
        y = model[i] if i < len(model) else "<none>"
        if x != y:
            ann += ["op %d `%s`" % (i, l), "impl: " + x, "model: " + y]
    if fails:
        ann += ["spec: " + f for f in fails[:4]]
        ctx.violation("impl-vs-spec", "implementation differs from the model and violates the property: %s"
                      % fails[0].split(" :: ")[0], lines=small, annotations=ann, concrete=True)
        return True
    ctx.violation("impl-vs-model", "implementation and model differ (op %d of the shard: `%s`); the property's clauses "
                  "evaluated on the implementation for the minimised program do not fail" % (index, op),
                  lines=small, annotations=ann, concrete=False)
    return False


def _oracle(ctx, camp, n, shards):
    """run `di oracle` in parallel with different seeds; returns FAIL lines"""
    def one(k):
        out = ctx.path("oracle%d.out" % k)
        env = {"VERIF_SEED": str(ctx.seed * 1000 + k)}
        rc, err = ctx.run_lines(camp.go, ["oracle", str(n // shards)], None, out, env=env)
        return k, rc, err, out
    fails, crashed = [], []
    with concurrent.futures.ThreadPoolExecutor(max_workers=shards) as ex:
        for k, rc, err, out in ex.map(one, range(shards)):
            last_case = ""
            for l in open(out):
                if l.startswith("FAIL "):
                    fails.append(l.rstrip("\n"))
                elif l.startswith("case "):
                    last_case = l.strip()
                elif l.startswith("oracle "):
                    for tok in l.split()[1:]:
                        key, _, v = tok.partition("=")
                        if key == "cases":
                            ctx.evaluations += int(v)
                            ctx.histogram["oracle:cases"] += int(v)
                        elif key != "fails":
                            ctx.histogram["oracle:" + key] += int(v)
            if rc != 0:
                if OVERFLOW.search(err):
                    crashed.append("%s: %s" % (last_case, err[-300:].replace("\n", " ")))
                else:
                    ctx.fatal("oracle run failed rc=%d: %s" % (rc, err[-500:]))
    return fails, crashed


def _report_oracle(ctx, camp, fails, crashed):
    seen = set()
    for f in fails:
        head, _, ops = f.partition(" :: ")
        clause = head.split(" ")[1]
        if clause in seen:
            continue
        seen.add(clause)
        prog = [o for o in ops.split(";") if o]
        ann = ["oracle: " + head]
        if prog and prog[0] == "new" and camp.judge(prog):
            prog = ctx.ddmin(prog, lambda l: bool(camp.judge(l)), keep_prefix=1)
            ann += ["spec: " + x.split(" :: ")[0] for x in camp.judge(prog)[:3]]
        ctx.violation("impl-vs-spec", "clause '%s' of the property fails on the implementation: %s" % (clause, head[5:]),
                      lines=prog, annotations=ann, concrete=True)
    for c in crashed[:1]:
        ctx.violation("impl-vs-spec", "clause 'cycle_is_error': the implementation crashed (unbounded recursion) in oracle " + c,
                      concrete=True)


def run(ctx):
    failed = ctx.lean_obligations()
    camp = Campaign(ctx)
    n_prog = ctx.pick(5000, 500000)
    shards = ctx.pick(4, SHARDS)
    n_ext = ctx.pick(3000, 300000)
    ctx.rule = ("%d generated programs (%d shards, seeds VERIF_SEED*1000+k): name pool 1-6 plus one undefined name, "
                "definitions of all four kinds in random order with duplicates, factories with 0-3 dependencies "
                "(required/optional, dp.Get/dp.InjectTo, self and cyclic edges allowed, outcome ok/fail/nil), request "
                "histories of Get/InjectTo/Keys with early requests and late definitions; thorough adds all 571 787 "
                "3-name graphs.  Extended stream: %d more programs (`di genx`) over 3-6 names drawn from "
                "a ?a ??a a? ~(empty) ? b ?b plus one undefined name, definitions with nil objects, AddInjectors calls "
                "(map/data-scope/multi/nil injectors, tag name 0 = the provider's own or 1/2, keys from the pool, nil "
                "values) before and after the first resolution, fields with extra tags, InjectTo of non-structs, `static` "
                "at any point; plus `di enumx`: 7x7 definitions of a and ?a x 8 injector sets x static or not (784 "
                "programs, 11 requests each).  non-trivial = the program has at least one successful and one failing "
                "request; distinct = distinct op-line sequences (hashed)" % (n_prog, shards, n_ext))
    # --- corpus first (one shard of its own)
    corpus = ctx.path("corpus.ops")
    with open(corpus, "w") as h:
        for f in sorted(glob.glob(os.path.join(lib.ROOT, "corpus", "C10", "*.ops"))):
            h.writelines(l for l in open(f) if l.strip() and not l.startswith("#"))
    work = []
    if os.path.getsize(corpus):
        a, b = camp.pair(corpus, "corpus")
        work.append((corpus, a, b))
    # --- generated programs
    def gen_shard(k):
        return camp.shard("gen%d" % k, ["gen", str(n_prog // shards)], ctx.seed * 1000 + k)
    def genx_shard(k):
        return camp.shard("genx%d" % k, ["genx", str(n_ext // shards)], ctx.seed * 1000 + 500 + k)
    with concurrent.futures.ThreadPoolExecutor(max_workers=2 * shards) as ex:
        f1 = [ex.submit(gen_shard, k) for k in range(shards)]
        f2 = [ex.submit(genx_shard, k) for k in range(shards)]
        f3 = ex.submit(lambda: camp.shard("enumx", ["enumx", "0", "1"], ctx.seed))
        work += [f.result() for f in f1]
        xwork = [f.result() for f in f2] + [f3.result()]
        work += xwork
    ctx.extra["extended_programs"] = sum(ctx.grep_count("^new$", w[0]) for w in xwork)
    ctx.extra["exhaustive_extended_programs"] = ctx.grep_count("^new$", xwork[-1][0])
    # --- exhaustive 3-name graphs (thorough)
    if not ctx.quick():
        def enum_shard(k):
            return camp.shard("enum%d" % k, ["enum3", str(k), str(SHARDS)], ctx.seed)
        with concurrent.futures.ThreadPoolExecutor(max_workers=SHARDS) as ex:
            ework = list(ex.map(enum_shard, range(SHARDS)))
        work += ework
        ctx.extra["exhaustive_3name_graphs"] = sum(ctx.grep_count("^new$", w[0]) for w in ework)
        ctx.exhaustive = False   # complete for 3 names; the property's domain is unbounded
    for ops, a, b in work:
        camp.compare(ops, a, b)
    # --- accounting (measured from the streams)
    with concurrent.futures.ProcessPoolExecutor(max_workers=min(SHARDS, len(work))) as ex:
        for hist, digests, programs in ex.map(_account, [(w[0], w[1]) for w in work]):
            ctx.histogram.update(hist)
            ctx.distinct |= digests
            camp.programs += programs
    ctx.extra["programs"] = camp.programs
    for start, prog in list(_programs(work[1][0]))[:2] + list(_programs(xwork[0][0]))[:3]:
        impl, model = camp.both(prog)
        ctx.samples.append(dict(ops=prog, impl=impl, model=model))
    for want in ("get:inst", "get:err:missing", "get:err:failed", "get:err:nil", "inject:ok", "inject:err:failed",
                 "set:refused", "setdefault:refused", "factory:refused", "deffactory:refused", "set:ok", "keys:keys",
                 "get:inst-nil", "inject:err:nildep", "inject:err:inj0", "inject:err:inj1", "inject:err:missing",
                 "addinjectors:ok", "addinjectors:refused", "static:ok", "injectbad:panic", "set-nil:ok",
                 "setdefault-nil:ok", "after-static:get:inst", "after-static:inject:ok", "after-static:set:refused",
                 "after-static:factory:refused", "after-static:addinjectors:refused", "name:empty", "name:?-prefixed",
                 "field:extra-tag"):
        if not ctx.histogram.get(want):
            ctx.notes.append("coverage gap: no `%s` line in this campaign" % want)
    ctx.notes.append("model branches never observable at top level: Err.cyclic (the stack is empty there, theorem "
                     "stack_clean; nested occurrences surface as `failed` or are swallowed by optional edges) and "
                     "Err.fuel (theorem fuel_sufficient; the driver would append FUEL-EXHAUSTED)")
    if any(ctx.grep_count("FUEL-EXHAUSTED", w[2] or "/dev/null") for w in work):
        ctx.notes.append("model ran out of fuel on some program")
    # --- Spec vs implementation
    ofails, ocrash = _oracle(ctx, camp, ctx.pick(6000, 320000), shards)
    concrete = bool(ofails or ocrash)
    _report_oracle(ctx, camp, ofails, ocrash)
    for want in ("extra_injector_order", "static_provider_agrees", "static_provider", "nil_definition"):
        if not ctx.histogram.get("oracle:" + want):
            ctx.notes.append("coverage gap: the oracle never evaluated the clause `%s`" % want)
    # --- verdicts on differences
    for ops, a, err in camp.crashes[:2]:
        done = ctx.count_lines(a)
        prog = _program_at(ops, done) or []
        concrete = True
        ctx.violation("impl-vs-spec", "clause 'cycle_is_error': the implementation crashed instead of answering (%s)"
                      % err.strip().split("\n")[0][:200], lines=prog, concrete=True)
    seen_programs = set()
    for ops, idx, op, ia, mb in camp.mismatches:
        prog = tuple(_program_at(ops, idx) or [op])
        if prog in seen_programs or len(seen_programs) >= 3:
            continue
        seen_programs.add(prog)
        concrete |= _report_mismatch(ctx, camp, ops, idx, op, ia, mb)
    if failed:
        def searcher():
            if concrete:
                return True
            f2, c2 = _oracle(ctx, camp, 320000, SHARDS)
            _report_oracle(ctx, camp, f2, c2)
            return bool(f2 or c2)
        ctx.obligation_violations(failed, searcher=searcher)
    if not ctx.quick():
        ctx.leanchecker(["Goat.Props.C10"])
        if any(not o["ok"] for o in ctx.obligations) and not failed:
            ctx.obligation_violations([o for o in ctx.obligations if not o["ok"]])
    ctx.assumptions += [
        "provider used from one goroutine (the property is sequential; Provider has no locks)",
        "factories interact with the provider only through Get and InjectTo, are deterministic functions of what they receive and do not panic",
        "InjectTo targets are pointers to structs whose tagged fields are exported and accept the instances (or one of the four non-struct shapes)",
        "a static provider is built from a blocked provider's own tables with the same tag name",
    ]
    ctx.trusted_base.append("harness factory closures interpret the same dependency data as the model (ordered deps, "
                            "required/optional, Get/InjectTo edges, outcome ok/fail/nil); every InjectTo edge uses its own "
                            "one-field struct; injectors are built from the same data as the model's (first entry of a key wins)")
    ctx.trusted_base.append("`static`: the harness calls Block, reads the provider's private tables by reflection and hands "
                            "copies (default factories overridden by explicit ones, instances, injectors) to NewStaticProvider")
    ctx.trusted_base.append("error kinds are derived from which factory the provider invoked for the requested name and what "
                            "it returned, which registered injector (wrapped by a recorder) returned an error, and whether a nil "
                            "definition was accepted for the name - never from message text; object identity from pointer "
                            "equality, reported as classes")


def replay(ctx, path):
    camp = Campaign(ctx)
    lines = lib.replay_ops(path)
    if not lines:
        print("replay: no op lines in", path)
        return 2
    impl, model = camp.both(lines)
    rc = 0
    for i, o in enumerate(lines):
        x = impl[i] if i < len(impl) else "<crashed>"
        y = model[i] if i < len(model) else "<none>"
        print("op    ", o)
        print("impl  ", x)
        print("model ", y)
        if x != y or x == "panic":
            rc = 1
    fails = camp.judge(lines)
    for f in fails:
        print("spec  ", f)
        rc = 1
    print("replay:", "still failing" if rc else "implementation and model agree, every clause of the property holds on this program")
    return rc
