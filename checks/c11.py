"""C11 — scope close protocol: ordered events, commit xor rollback, waits for children.

Theorems: lean/Goat/Props/C11.lean about the transition system lean/Goat/Model/Scope.lean (helpers in
lean/Goat/Proofs/Scope*.lean).

Correspondence: harness/cmd/scope drive (the REAL app/scope, eventscope, contextscope packages; Close in
its own goroutine; every wait is "for what must happen", see engine.go) against the compiled model driver
m_scope on generated histories (reset … settle), compared line by line: outcome of every call, the
listener invocations it caused (listener, event, data scope), the Close calls that returned during it with
their results, IsDone / len(Errors()) of every scope after it, which closing goroutines are parked inside
which listener, and how many close events every scope has fired.
Listeners are arbitrary code: `on <s> <event> gate <g> ok|err` registers a listener that runs (blocks) until
`release <g>`; while it runs the closing goroutine is parked inside the real Trigger and the history goes on
(other scopes close, errors are appended, the parent's Close — issued BEFORE the child's — must stay blocked
and must not have fired a commit/rollback event: sampled before every operation, never awaited).
Spec vs implementation: `scope oracle` evaluates the property's clauses on the implementation alone
(root probes see every event of the tree); `scope judge` does the same for one given history (used as the
Spec verdict on a history where implementation and model disagree).

Concurrent closers (harness/cmd/scope/closers.go, `cc …` case lines): k = 2..6 goroutines call Close on the SAME scope
behind a start barrier (GOMAXPROCS 1..16, call stacks 0..600 frames deep, open tasks and children that finish during
the close, a parent whose own Close is pending and which has a second open child, listeners on all eight close events
of the scope and of the parent, failing listeners, errors before / during the close), several rounds per case.  The
result line (how many calls ran the protocol / were refused with the `scope [..] is closed at` panic / ended any
other way, every Close result, per firing scope the listener invocations in order) is a function of the case line:
compared with m_scope (k `close s` acts) and judged by the clauses once_runs / once_events / pick_result / waits /
parent_once / returns on the implementation alone (`scope coracle`, `scope cjudge`).  A driver process that dies
(a panic in a goroutine nobody can guard) is a RESULT: the case it died in is re-run alone and reported.

Known finding KF-C11-1 (a child created from a done scope never signs on, so the parent's Close does not
wait for it) is replayed on every run and counted by the oracle; the waiting clause is checked for every
child that did sign on.
"""
import concurrent.futures
import glob
import os
import re

import lib

META = dict(
    level_claimed=dict(
        category="proof",
        text="Lean 4 theorems over ALL schedules (lists of acts of any length: tree building with shared and isolated "
             "children to any depth, listener registration with failing listeners and with GATED listeners (arbitrary "
             "code that runs until a release act), AddTasks/DoneTask/AppendError/Kill/Stop, the steps of the goroutine "
             "running Close (program counter opened, begun, closing, t0, t1, t2, after, signing, signed, finished; a step "
             "parks inside a running listener and every other goroutine may act meanwhile), the watcher goroutine's "
             "moves; disabled acts are skipped) of an executable transition system mirroring app/scope: "
             "close_event_order (+ _coarse, close_events_prefix), commit_xor_rollback (+ _coarse, "
             "commit_rollback_exclusive), close_result (+ close_result_keeps_error, finish_returns_or_parks), "
             "double_close_refused (+ finish_once), for ANY number of goroutines calling Close on one scope at the same "
             "time in ANY interleaving (per-caller program counters, Goat/Model/ScopeClosers.lean) close_protocol_once "
             "(what is fired is an initial piece of the protocol, each event and the parent's DoneTask at most once, exactly "
             "once when a call has returned) and closers_one_winner (everybody else is refused), with the evaluated witness "
             "split_guard_runs_protocol_twice for the variant whose test and set are two steps, shared_same_fate / shared_child_fails_parent, "
             "isolated_child_own_context / isolated_child_contained, isolated_inherits_stop / _kill, and for running "
             "listeners child_afterclose_before_parent_triple (in every reachable state a parent that has started its "
             "triple has only signed-on children whose after-close listeners have all returned), "
             "parent_sees_child_listener_error, gated_listener_blocks_only_its_closer (+ others_can_act_while_parked), "
             "signoff_before_afterclose_breaks_waits (the variant with parent.DoneTask() before the AfterClose trigger "
             "reaches a state contradicting it: explicit witness). The waiting clause is proved for tasks and for every "
             "child that signed on (close_waits_partial); for a child created from an already-done scope it is "
             "DISPROVED (close_waits_full_false, KF-C11-1). The model is tied to /repo on every run by a line-by-line "
             "differential over random histories on the real packages (full listener log, every Close result, IsDone "
             "and error count of every scope, parked goroutines and close events fired per scope after every call), "
             "including histories whose listeners block on harness gates while the parent's Close is pending.",
        design_ref="DESIGN.md 3 C11"),
    level_note="Trusted: Lean kernel (axioms propext/Classical.choice/Quot.sound only); the hand-written model's "
               "correspondence to /repo (differential, reach printed in coverage.histogram); sync.WaitGroup, "
               "channel close/select and sync.Once semantics as modelled; atomicity of the modelled acts (each "
               "call other than Close is one act; a closing goroutine is interruptible exactly where a gated listener "
               "runs, between its triggers, before parent.DoneTask() and before its return — the differential opens "
               "the first kind of window with harness gates and runs one particular interleaving otherwise: calls "
               "issued one after the other, goroutines awaited until returned / parked / waiting after each); the "
               "harness's event-scope wrapper and waiting discipline (harness/cmd/scope/engine.go). Domain: DoneTask "
               "only for an outstanding task; no child of a scope that has signed off; On waits while a listener of "
               "that event scope runs (not executed: `busy`); only listeners of the eight close events are gated; a "
               "child created after its parent's wait ended (`late`) is outside the waiting clause.",
    technique="Lean 4 proof (invariant of a labelled transition system with explicit program counters of the closing "
              "goroutines and gated listeners, all schedules) + differential correspondence with harness-gated "
              "listeners (deterministic adversarial family + random) + property oracle on the implementation",
)

KF_ID = "KF-C11-1"
KF_WHAT = ("a child created from a scope whose context is already done never signs on: the parent's Close "
           "returns while that child is still open (witness: new; stop 0; child 0 shared; close 0 -> closed)")


def _histories(ops_lines):
    """split op lines into histories (each starts with `reset`); yields (start_index, lines)"""
    cur, start = [], 0
    for i, l in enumerate(ops_lines):
        if l == "reset" and cur:
            yield start, cur
            cur, start = [], i
        cur.append(l)
    if cur:
        yield start, cur


def _mismatching_histories(ops, a, b, maxn):
    """the histories (lists of op lines) of an op file on which the two result streams differ"""
    lines = [l.rstrip("\n") for l in open(ops) if l.strip() and not l.startswith("#")]
    ra, rb = open(a).read().split("\n"), open(b).read().split("\n")
    res = []
    for start, h in _histories(lines):
        if ra[start:start + len(h)] != rb[start:start + len(h)]:
            res.append(h)
            if len(res) >= maxn:
                break
    return res


def _crash(err):
    """first line of a Go runtime crash report (a goroutine of the implementation panicked: the process died)"""
    m = re.search(r"^(panic: .*|fatal error: .*)$", err, re.M)
    return m.group(1)[:300] if m and "goroutine " in err else None


def _run_both(ctx, go, model, ops_path, tag, env=None):
    a, b = ctx.path(tag + ".impl"), ctx.path(tag + ".model")
    rc, err = ctx.run_lines(go, ["drive"], ops_path, a, timeout=1800, env=env)
    if rc != 0 and _crash(err):
        with open(a, "a") as h:     # the result stream ends where the process died
            h.write("crashed: %s\n" % _crash(err))
    elif rc != 0:
        ctx.fatal("implementation driver failed rc=%d %s" % (rc, err[-800:]))
    rc, err = ctx.run_lines(model, [], ops_path, b, timeout=1800)
    if rc != 0:
        ctx.fatal("model driver failed rc=%d %s" % (rc, err[-800:]))
    return a, b


def _shard(ctx, go, model, n, shard):
    ops = ctx.path("gen%d.ops" % shard)
    rc, err = ctx.run([go, "gen", str(n), str(shard)], stdout=ops)
    if rc != 0:
        ctx.fatal("generator failed: " + err[-500:])
    a, b = _run_both(ctx, go, model, ops, "gen%d" % shard)
    return ops, a, b


def _differs(ctx, go, model, lines, tag="min", fast=False):
    """do implementation and model differ on this history?  (used by ddmin; `fast` shortens the harness's
    waits — only ever used on a history that already failed under the generous timeout, and the minimised
    history is confirmed under the generous timeout again)"""
    p = ctx.path(tag + ".ops")
    open(p, "w").write("\n".join(lines) + "\n")
    a, b = _run_both(ctx, go, model, p, tag, env=dict(SCOPE_TIMEOUT_MS="1500") if fast else None)
    return open(a).read() != open(b).read()


def _minimise(ctx, go, model, hist, budget=80):
    left = [budget]

    def fails(ls):
        if left[0] <= 0:
            return False
        left[0] -= 1
        return _differs(ctx, go, model, ls, fast=True)
    small = ctx.ddmin(hist, fails, keep_prefix=1)
    return small if _differs(ctx, go, model, small) else hist


def _judge(ctx, go, lines):
    """Spec verdict of one history on the implementation: list of failed clauses"""
    p, out = ctx.path("judge.ops"), ctx.path("judge.out")
    open(p, "w").write("\n".join(lines) + "\n")
    rc, err = ctx.run_lines(go, ["judge"], p, out, timeout=600)
    if rc != 0 and _crash(err):
        return ["FAIL crash the process died while executing the history: " + _crash(err)]
    if rc != 0:
        ctx.fatal("judge failed: " + err[-500:])
    return [l.rstrip("\n") for l in open(out) if l.startswith("FAIL ")]


def _oracle(ctx, go, n, shards):
    per = max(1, n // shards)
    outs = []

    crashes = []

    def one(i):
        out, last = ctx.path("oracle%d.out" % i), ctx.path("oracle%d.last" % i)
        rc, err = ctx.run_lines(go, ["oracle", str(per), str(i)], None, out, timeout=1800, env=dict(SCOPE_LAST=last))
        if rc != 0 and _crash(err) and os.path.exists(last):
            crashes.append("FAIL crash the process died while executing the history: %s | %s" % (
                _crash(err), ";".join(l for l in open(last).read().split("\n") if l)))
        elif rc != 0:
            return "ERR " + err[-500:]
        return out
    with concurrent.futures.ThreadPoolExecutor(max_workers=shards) as ex:
        outs = list(ex.map(one, range(shards)))
    for o in outs:
        if o.startswith("ERR "):
            ctx.fatal("oracle run failed: " + o[4:])
    fails, cases = list(crashes), 0
    for out in outs:
        for l in open(out):
            if l.startswith("FAIL "):
                fails.append(l.rstrip("\n"))
            elif l.startswith("oracle "):
                for tok in l.split()[1:]:
                    k, _, v = tok.partition("=")
                    if k == "cases":
                        cases += int(v)
                    elif k != "fails":
                        ctx.histogram["oracle:" + k] += int(v)
    ctx.evaluations += cases
    ctx.extra["oracle_histories"] = cases
    return fails


def _account(ctx, ops_path, impl_path, samples):
    ops = [l.rstrip("\n") for l in open(ops_path) if l.strip() and not l.startswith("#")]
    res = [l.rstrip("\n") for l in open(impl_path)]
    for start, hist in _histories(ops):
        rs = res[start:start + len(hist)]
        heads = [r.split(" ", 1)[0] for r in rs]
        kinds = set()
        cascade = False
        parked_seen = False
        for o, r, hd in zip(hist, rs, heads):
            op = o.split(" ", 1)[0]
            if op in ("reset", "settle"):
                continue
            if op == "on" and " gate " in o:
                op = "ongate"
            mg = re.search(r" G\[([^\]]*)\]", r)
            if mg and mg.group(1):
                parked_seen = True
                ctx.histogram["branch:goroutine-parked-in-listener"] += 1
                if op == "close" and hd == "blocked":
                    ctx.histogram["branch:close-blocked-while-a-listener-runs"] += 1
                if op in ("kill", "stop", "apperr", "addtasks", "donetask", "child", "on") and hd == "ok":
                    ctx.histogram["branch:call-succeeds-while-a-listener-runs"] += 1
                mt = re.search(r" T\[([^\]]*)\]", r)
                if op == "child" and hd == "ok" and mt:
                    par, fired = o.split(" ")[1], mt.group(1).split(",")
                    if par.isdigit() and int(par) < len(fired) and int(fired[int(par)]) >= 2 and \
                            re.search(r"(^|,)%s@" % par, mg.group(1)):
                        ctx.histogram["branch:late-child-of-a-scope-parked-in-its-triple"] += 1
            kinds.add(op + ":" + hd)
            ctx.histogram[op + ":" + hd] += 1
            m = re.search(r" C\[([^\]]*)\]", r)
            if m and m.group(1):
                k = m.group(1).count(",") + 1
                if k > 1:
                    cascade = True
                    ctx.histogram["branch:cascade-of-closes"] += 1
                if op != "close":
                    ctx.histogram["branch:close-released-by-" + op] += 1
                if "=1" in m.group(1):
                    ctx.histogram["branch:close-returned-error"] += 1
                if "=0" in m.group(1):
                    ctx.histogram["branch:close-returned-nil"] += 1
            if ":rollback:" in r:
                ctx.histogram["branch:rollback-listener-ran"] += 1
            if ":commit:" in r:
                ctx.histogram["branch:commit-listener-ran"] += 1
            if ":error:" in r:
                ctx.histogram["branch:error-event-delivered"] += 1
        nontrivial = ("closed" in heads or cascade) and any(h in heads for h in ("panic", "refused", "blocked", "busy"))
        if parked_seen:
            ctx.histogram["histories:with-a-parked-goroutine"] += 1
        ctx.note_case("\n".join(hist), nontrivial=nontrivial)
        if len(samples) < 3 and nontrivial and len(hist) < 16:
            samples.append(dict(ops=hist, impl=rs))


def _cc_env(ctx):
    e = ctx.goenv()
    e["SCOPE_CC_ROUNDS"] = str(ctx.pick(6, 12))
    return e


def _cc_judge(ctx, go, case, mult):
    """the clauses of the concurrent-closers family on ONE case line, `mult` times its rounds, in a process of
    its own: (FAIL lines, crash line or None)"""
    p, out = ctx.path("ccjudge.ops"), ctx.path("ccjudge.out")
    open(p, "w").write(case + "\n")
    rc, err = ctx.run_lines(go, ["cjudge", str(mult)], p, out, timeout=600)
    if rc != 0 and _crash(err):
        return [], _crash(err)
    if rc != 0:
        ctx.fatal("cjudge failed: " + err[-500:])
    return [l.rstrip("\n") for l in open(out) if l.startswith("FAIL ")], None


def _cc_crashed(ctx, go, case, crash, where):
    """the driver process died while executing `case`: a result, reported with the case as replay"""
    fails, again = _cc_judge(ctx, go, case, 20)
    ann = ["%s: the process died: %s" % (where, crash)]
    if again:
        ann.append("re-run alone: the process died again: " + again)
    ann += ["re-run alone: " + f for f in fails[:3]]
    ctx.violation("impl-vs-spec", "concurrent Close calls on one scope: a goroutine of the implementation panicked and "
                  "took the process down (%s)%s" % (crash, "; re-run alone: " + fails[0].split(" | ")[0][5:] if fails else ""),
                  lines=[case], annotations=ann, concrete=True)


def _closers(ctx, go, model, shards):
    """the concurrent-closers family: differential against m_scope + the clauses on the implementation alone.
    Returns True if a concrete violation was reported."""
    n_diff, n_or = ctx.pick(1200, 12000), ctx.pick(1200, 12000)
    env = _cc_env(ctx)
    concrete = False

    def diff_shard(i):
        ops = ctx.path("cc%d.ops" % i)
        rc, err = ctx.run([go, "cgen", str(max(1, n_diff // shards)), str(i)], stdout=ops, env=env)
        if rc != 0:
            ctx.fatal("closers generator failed: " + err[-500:])
        a, b = _run_both(ctx, go, model, ops, "cc%d" % i)
        return ops, a, b

    def oracle_shard(i):
        out, last = ctx.path("ccoracle%d.out" % i), ctx.path("ccoracle%d.last" % i)
        e = dict(env)
        e["SCOPE_LAST"] = last
        rc, err = ctx.run_lines(go, ["coracle", str(max(1, n_or // shards)), str(i)], None, out, timeout=1800, env=e)
        if rc != 0 and _crash(err) and os.path.exists(last):
            return out, (open(last).read().strip(), _crash(err))
        if rc != 0:
            ctx.fatal("closers oracle failed: " + err[-500:])
        return out, None

    with concurrent.futures.ThreadPoolExecutor(max_workers=shards) as ex:
        diffs = list(ex.map(diff_shard, range(shards)))
    with concurrent.futures.ThreadPoolExecutor(max_workers=shards) as ex:
        oracles = list(ex.map(oracle_shard, range(shards)))
    # --- the clauses on the implementation alone
    cases = rounds = 0
    fails = []
    for out, crashed in oracles:
        if crashed:
            _cc_crashed(ctx, go, crashed[0], crashed[1], "oracle")
            concrete = True
        for l in open(out):
            if l.startswith("FAIL "):
                fails.append(l.rstrip("\n"))
            elif l.startswith("coracle "):
                for tok in l.split()[1:]:
                    k, _, v = tok.partition("=")
                    if k == "cases":
                        cases += int(v)
                    elif k == "rounds":
                        rounds += int(v)
                    elif k != "fails":
                        ctx.histogram["closers:" + k] += int(v)
    ctx.evaluations += rounds
    for f in fails[:2]:
        body, _, case = f.partition(" | ")
        ctx.violation("impl-vs-spec", "concurrent Close calls on one scope: a clause of the property fails on the "
                      "implementation: " + body[5:], lines=[case], annotations=["oracle: " + body], concrete=True)
        concrete = True
    # --- implementation against the model
    dcases, mism, samples = 0, [], []
    for ops, a, b in diffs:
        lines = [l.rstrip("\n") for l in open(ops) if l.strip()]
        ra, rb = open(a).read().split("\n"), open(b).read().split("\n")
        for i, case in enumerate(lines):
            x = ra[i] if i < len(ra) else ""
            y = rb[i] if i < len(rb) else ""
            if x.startswith("crashed: "):
                _cc_crashed(ctx, go, case, x[9:], "differential")
                concrete = True
                break
            dcases += 1
            f = case.split(" ")
            ctx.note_case(case, nontrivial=("acc=1 " in x and " ref=0 " not in x and (f[4] != "0" or f[5] != "0" or f[6] != "0")),
                          kind="closers")
            ctx.histogram["closers:diff-k%s" % f[1]] += 1
            if x != y:
                mism.append((case, x, y))
            elif len(samples) < 2 and f[6] != "0" and len(x) < 900:
                samples.append(dict(ops=[case], impl=[x], model=[y]))
    ctx.evaluations += dcases
    for case, x, y in mism[:2]:
        fl, crash = _cc_judge(ctx, go, case, 20)
        if crash:
            _cc_crashed(ctx, go, case, crash, "judge")
            concrete = True
        elif fl:
            ctx.violation("impl-vs-spec", "concurrent Close calls on one scope: implementation and model differ and the "
                          "implementation contradicts the property: " + "; ".join(v.split(" | ")[0][5:] for v in fl[:3]),
                          lines=[case], annotations=["impl: " + x, "model: " + y] + ["spec: " + v.split(" | ")[0] for v in fl[:3]],
                          concrete=True)
            concrete = True
        else:
            ctx.violation("impl-vs-model", "concurrent Close calls on one scope: implementation and model differ (the "
                          "clauses hold on 20x the rounds of this case)", lines=[case],
                          annotations=["impl: " + x, "model: " + y], concrete=False)
    ctx.extra["concurrent_closers"] = dict(
        differential_cases=dcases, differential_mismatches=len(mism), oracle_cases=cases, oracle_rounds=rounds,
        oracle_failing_cases=len(fails), rounds_per_case=int(env["SCOPE_CC_ROUNDS"]),
        what="k in 2..6 goroutines call Close on one scope behind a start barrier; counts and orders of recorded events only")
    ctx.log("closers: %d cases compared with the model (%d differ), %d cases / %d rounds judged (%d failing)"
            % (dcases, len(mism), cases, rounds, len(fails)))
    return concrete, samples


def _kf_replay(ctx, go, model):
    for kf in ctx.known_findings():
        if kf["id"] != KF_ID:
            continue
        p = ctx.path("kf.ops")
        open(p, "w").write("\n".join(kf["witness"]) + "\n")
        a, b = _run_both(ctx, go, model, p, "kf")
        impl, mod = open(a).read().split("\n"), open(b).read().split("\n")
        idx = kf["witness"].index("close 0")
        ctx.extra["known_finding_witness"] = dict(id=KF_ID, ops=kf["witness"], impl=impl[:len(kf["witness"])])
        if impl != mod:
            ctx.violation("impl-vs-model", "the witness of %s no longer behaves like the model" % KF_ID,
                          lines=kf["witness"], annotations=["impl: " + impl[idx], "model: " + mod[idx]], concrete=False)
        elif impl[idx].startswith("closed "):
            ctx.known(KF_ID, KF_WHAT)
        else:
            ctx.notes.append("%s witness no longer shows the defect (close 0 -> %s)" % (KF_ID, impl[idx]))


def run(ctx):
    failed = ctx.lean_obligations()
    go = ctx.build_go("scope")
    model = ctx.build_model("m_scope")
    shards = ctx.pick(4, 12)
    n_hist = ctx.pick(4800, 200000)
    n_oracle = ctx.pick(3000, 120000)
    ctx.rule = ("histories `reset, new, [11 root probes], 3..32 random ops, [drain], [releases], settle` from VERIF_SEED over a "
                "pool of <= 8 scopes (shared/isolated children to depth 4, listeners on all 11 events with 1/4 failing, AddTasks/"
                "DoneTask/AppendError/Kill/Stop/Close incl. calls on closing and closed scopes, second Close, unknown ids; 1/2 of "
                "the histories use GATED listeners on the close events (half of them afterClose, 1/3 returning an error, four "
                "gates shared between listeners), close parents before children, release the gates in random order); shard 0 "
                "starts with the deterministic family of 64 `parent Close pending, child Close enters a gated listener (8 events "
                "x ok/err x shared/isolated x child/grandchild), calls issued meanwhile, release, settle`: "
                "%d histories for the differential, %d for the oracle; non-trivial = at least one Close returned AND at "
                "least one call panicked / was refused / blocked / busy; distinct = distinct history text.  Concurrent-closers cases "
                "`cc k procs depth tasks kids par err rounds` (k 2..6 goroutines Close one scope behind a start barrier; "
                "GOMAXPROCS 1..16; call-stack depth 0..600; 0..3 open tasks and 0..2 open children finished during the "
                "close; no parent / shared / isolated child of a parent whose Close is pending and which has a second open "
                "child; error none / before / by a child / from one of the eight listeners; shard 0 starts with the "
                "deterministic 60 = every k x parent kind x shallow/deep x 2/16 procs), each run for several rounds, "
                "compared with the model and judged by the oracle (counts in extra.concurrent_closers); non-trivial = one "
                "call ran the protocol, at least one was refused, and there was work or a parent" % (n_hist, n_oracle))
    concrete_found = False
    samples = []
    # --- corpus first
    corpus = ctx.path("corpus.ops")
    with open(corpus, "w") as h:
        for f in sorted(glob.glob(os.path.join(lib.ROOT, "corpus", "C11", "*.ops"))):
            h.writelines(l for l in open(f) if l.strip() and not l.startswith("#"))
    streams = []
    ca, cb = _run_both(ctx, go, model, corpus, "corpus")
    streams.append((corpus, ca, cb))
    # --- random histories, sharded
    with concurrent.futures.ThreadPoolExecutor(max_workers=shards) as ex:
        streams += list(ex.map(lambda i: _shard(ctx, go, model, n_hist // shards, i), range(shards)))
    mism = []
    for ops, a, b in streams:
        for idx, op, ia, mb in ctx.diff_streams(ops, a, b, limit=5):
            mism.append((ops, idx, op, ia, mb))
        _account(ctx, ops, a, samples)
        ctx.histogram["harness:anomaly-lines"] += ctx.grep_count(r" !", a)
    ctx.samples = samples
    ctx.log("differential: %d lines compared, %d mismatching" % (ctx.evaluations, len(mism)))
    # --- the property's clauses on the implementation alone
    ofails = _oracle(ctx, go, n_oracle, shards)
    for f in ofails[:3]:
        body, _, hist = f.partition(" | ")
        ctx.violation("impl-vs-spec", "a clause of the property fails on the implementation: " + body[5:],
                      lines=hist.split(";"), annotations=["oracle: " + body], concrete=True)
        concrete_found = True
    # --- concurrent closers: k goroutines close the same scope at the same moment
    cc_concrete, cc_samples = _closers(ctx, go, model, shards)
    concrete_found = concrete_found or cc_concrete
    ctx.samples = (ctx.samples + cc_samples)[:5]
    # --- known finding
    _kf_replay(ctx, go, model)
    # --- differences between implementation and model
    seen_hist = set()
    for ops, idx, op, ia, mb in mism:
        lines = [l.rstrip("\n") for l in open(ops) if l.strip() and not l.startswith("#")]
        hist = None
        for start, h in _histories(lines):
            if start <= idx < start + len(h):
                hist = h
        if hist is None or "\n".join(hist) in seen_hist or len(seen_hist) >= 3:
            continue
        seen_hist.add("\n".join(hist))
        small = _minimise(ctx, go, model, hist)
        verdict = _judge(ctx, go, small) or _judge(ctx, go, hist)
        p = ctx.path("small.ops")
        open(p, "w").write("\n".join(small) + "\n")
        a, b = _run_both(ctx, go, model, p, "small")
        ann = []
        for o, x, y in zip(small, open(a).read().split("\n"), open(b).read().split("\n")):
            if x != y:
                ann += ["op: " + o, "impl: " + x, "model: " + y]
                break
        anomaly = any(" !" in l for l in open(a))
        if verdict or anomaly:
            concrete_found = True
            ctx.violation("impl-vs-spec", "implementation and model differ and the implementation contradicts the property: %s"
                          % ("; ".join(v[5:] for v in verdict[:3]) or "harness anomaly (a wait for what must happen timed out)"),
                          lines=small, annotations=ann + ["spec: " + v for v in verdict[:3]], concrete=True)
        else:
            ctx.violation("impl-vs-model", "implementation and model differ (the property's clauses hold on this history)",
                          lines=small, annotations=ann, concrete=False)
    # --- DESIGN 1.3: implementation and model differ but no failing input yet -> search the other
    # disagreeing histories for one on which a clause of the property itself fails
    if mism and not concrete_found:
        tried = 0
        for ops, a, b in streams:
            if concrete_found or tried >= 80:
                break
            for hist in _mismatching_histories(ops, a, b, 40):
                if "\n".join(hist) in seen_hist:
                    continue
                tried += 1
                verdict = _judge(ctx, go, hist)
                if not verdict:
                    continue
                left = [60]

                def still(ls):
                    if left[0] <= 0:
                        return False
                    left[0] -= 1
                    return bool(_judge(ctx, go, ls))
                small = ctx.ddmin(hist, still, keep_prefix=1)
                verdict = _judge(ctx, go, small) or verdict
                concrete_found = True
                ctx.violation("impl-vs-spec", "implementation and model differ; searching the disagreeing histories found one on "
                              "which the implementation contradicts the property: %s" % "; ".join(v[5:] for v in verdict[:3]),
                              lines=small, annotations=["spec: " + v for v in verdict[:3]], concrete=True)
                break
        ctx.extra["search_after_mismatch"] = dict(histories_judged=tried, found=concrete_found)
    # --- coverage gaps
    want = ["close:closed", "close:blocked", "close:panic", "addtasks:refused", "kill:panic", "apperr:panic", "stop:panic",
            "on:panic", "child:invalid", "donetask:undisciplined", "branch:cascade-of-closes",
            "branch:close-released-by-donetask", "branch:close-returned-error", "branch:close-returned-nil",
            "branch:rollback-listener-ran", "branch:commit-listener-ran", "branch:error-event-delivered", "oracle:kf1",
            "ongate:ok", "release:ok", "on:busy", "branch:goroutine-parked-in-listener", "branch:close-released-by-release",
            "branch:call-succeeds-while-a-listener-runs", "branch:late-child-of-a-scope-parked-in-its-triple",
            "oracle:rollback", "oracle:commit", "oracle:blocked", "oracle:isolated",
            "closers:k2", "closers:k6", "closers:par1", "closers:par2", "closers:procs1", "closers:procs16",
            "closers:deep-stack", "closers:rollback", "closers:commit", "closers:work-during-close"]
    zero = [k for k in want if not ctx.histogram.get(k)]
    if zero:
        ctx.notes.append("coverage gap: zero hits for " + ", ".join(zero))
    ctx.assumptions += [
        "each modelled act is atomic: a closing goroutine can be interrupted where a gated listener runs (exercised by the "
        "differential through harness gates), between two triggers, before parent.DoneTask() and before its return (covered "
        "by the theorems: `step` acts; the differential runs these pieces back to back); every other call is one act; "
        "concurrent interleavings inside one call are covered by the theorems only as far as the acts really are atomic "
        "(C12 treats the concurrent signalling separately)",
        "a gated listener stands for arbitrary listener code that eventually returns nil or an error and touches the scopes "
        "only through that return value; listeners that call back into the scope tree are separate acts of the schedule",
        "On on an event scope one of whose listeners is running waits for the read lock (sync.RWMutex): modelled as not "
        "enabled, answered `busy` by both drivers without making the call",
        "a child created after its parent's wait has ended (possible from a commit listener) cannot be waited for: the "
        "all-states clause child_afterclose_before_parent_triple is about children that signed on before",
        "DoneTask is called only for a task added by a successful AddTasks (a surplus DoneTask is sync.WaitGroup misuse: "
        "negative-counter panic or a stolen child sign-off); such histories are outside the model and are not executed "
        "(`undisciplined`)",
        "no child is created from a scope that has signed off (its event and data scopes are nil)",
        "propagate over-approximates the watcher goroutine: the clean-stop variant is allowed whenever the parent is done",
    ]
    ctx.trusted_base.append("harness/cmd/scope/engine.go: event-scope wrapper (delegates to the real eventscope), own wait-group "
                            "accounting used only to decide what to wait for, runtime.Stack to see watcher goroutines parked, "
                            "gates (a gated listener blocks on a harness channel; turns are given lowest scope first)")
    if failed:
        ctx.obligation_violations(failed, searcher=lambda: concrete_found)
    if not ctx.quick():
        ctx.leanchecker(["Goat.Props.C11"])
        bad = [o for o in ctx.obligations if not o["ok"]]
        if bad and not failed:
            ctx.obligation_violations(bad, searcher=lambda: concrete_found)


def _replay_closers(ctx, go, model, cases):
    rc = 0
    ops = ctx.path("replay.ops")
    open(ops, "w").write("\n".join(cases) + "\n")
    a, b = _run_both(ctx, go, model, ops, "replay")
    ra, rb = open(a).read().split("\n"), open(b).read().split("\n")
    for i, c in enumerate(cases):
        x, y = (ra[i] if i < len(ra) else ""), (rb[i] if i < len(rb) else "")
        print("case  ", c)
        print("impl  ", x)
        print("model ", y)
        if x != y:
            rc = 1
        fl, crash = _cc_judge(ctx, go, c, 20)
        if crash:
            print("spec   the process died:", crash)
            rc = 1
        for v in fl:
            print("spec  ", v.split(" | ")[0])
            rc = 1
    print("replay:", "still failing" if rc else "implementation and model agree, the property's clauses hold")
    return rc


def replay(ctx, path):
    go = ctx.build_go("scope")
    model = ctx.build_model("m_scope")
    lines = lib.replay_ops(path)
    if any(l.startswith("cc ") for l in lines):
        return _replay_closers(ctx, go, model, [l for l in lines if l.startswith("cc ")])
    if lines and lines[0] != "reset":
        lines = ["reset"] + lines
    ops = ctx.path("replay.ops")
    open(ops, "w").write("\n".join(lines) + "\n")
    a, b = _run_both(ctx, go, model, ops, "replay")
    rc = 0
    for o, x, y in zip(lines, open(a).read().split("\n"), open(b).read().split("\n")):
        print("op    ", o)
        print("impl  ", x)
        print("model ", y)
        if x != y or " !" in x:
            rc = 1
    verdict = _judge(ctx, go, lines)
    for v in verdict:
        print("spec  ", v)
        rc = 1
    m = re.search(r"kf1=(\d+)", open(ctx.path("judge.out")).read()) if os.path.exists(ctx.path("judge.out")) else None
    if m and int(m.group(1)):
        print("known ", KF_ID, "exhibited: a Close returned while a child that never signed on was open")
    print("replay:", "still failing" if rc else "implementation and model agree, the property's clauses hold")
    return rc
