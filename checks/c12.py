"""C12 — scope failure signalling is safe from any number of goroutines.

Theorems: lean/Goat/Props/C12.lean about the transition system lean/Goat/Model/ScopeSignal.lean (n goroutines,
any forest of plain / isolated contexts, children created and closed dynamically, every interleaving of the
shared-memory accesses of AppendError/Kill/Stop/IsDone/Err/NewChild/Close), plus the structural tie
lean/Goat/Tie/C12.lean (go/ast facts regenerated from the repository under test on every run).

Tie of the protocol model to the code:
  (1) facts   close(done) only inside doneOnce.Do, the error list read/written only between errorsMU.Lock/Unlock,
              Kill = AppendError(Canceled), the propagation goroutine acts on the isolated context, AddTasks tests
              IsDone then adds, NewChild honours the refusal — compared with the model's assumptions by `decide`;
  (2) gated   two goroutines parked by the verif hook right after the IsDone test (the only check-then-act window
              of the old Stop and of AddTasks), then released: deterministic; compared with the model's outcome;
  (3) seq     one goroutine, random histories over a random forest (shared children alias the parent's context,
              isolated contexts inherit the parent's end through their propagation goroutine, children created
              before / after the parent's end and closed), every observation compared with the model op by op;
  (4) stress  2..64 goroutines x rounds on plain + shared child + isolated child + isolated grandchild with
              GOMAXPROCS in {1,2,4,8,16}: every call under recover; afterwards the recorded multiset of calls and
              the final observations of every context are decided by the Lean history monitor
              (`Goat.ScopeSignal.conforms`; `Goat.C12.monitor_sound` proves that every history the model can
              produce at quiescence is accepted, so a rejection contradicts the theorems); Wait/Close must report the
              error; the same under the race detector (a reported race on the error list / done channel counts).
  (5) publish the publication order (harness/cmd/scopesig/pub.go): rounds on a fresh target context (plain / behind
              a scope / behind a shared child scope / itself isolated) with a chain of 0..3 isolated descendants; waiters
              blocked on Done() read Err()/Errors() the moment they wake up, pollers spin on IsDone()/Errors()/Err()
              (contending on errorsMU), 1..3 enders call at once an entry point that ends the scope WITH an error
              (AppendError variants, Kill, through the context or the scope wrappers); nobody calls Stop, so "done
              observed => error visible" and "every isolated descendant ends holding Canceled" are clauses about values
              at the moment of observation (Goat.C12.error_published_before_done / isolated_child_never_stopped prove
              them for the order record-then-close, close_first_hides_error refutes the swapped order,
              Goat.Tie.C12.tie_record_then_close reads the order off the source).
  (6) late    late errors (harness/cmd/scopesig/late.go): a parent blocked in Wait()/Close() while its children (sharing
              its context; some with a grandchild) are closed in other goroutines and its tasks append an error and
              call DoneTask; failing listeners on every close-protocol event and on ErrorEvent.  The code appends
              every listener error before `parent.DoneTask()`, so the value returned by the parent's Wait()/Close()
              and Errors()/Err() read right after it contain every error produced by the children's Close and the
              tasks; a scope whose descendants failed does not run Commit listeners; a child's Close() returns the
              errors of its subtree; nothing foreign, everything held once at the end.  Verdict after all goroutines
              have returned, from values stored at the moment of observation.
Spec-vs-implementation: every clause above is evaluated on the implementation alone (panic counters, the monitor,
`_spec_seq` below recomputes the expected answers of a sequential case from its op tokens without the model).
"""
import glob
import os
import re

import lib

META = dict(
    level_claimed=dict(
        category="proof",
        text="Lean 4 theorems over all configurations (any number of goroutines, any forest of plain, shared-child "
             "and isolated contexts) and all schedules of a transition system whose steps are the shared-memory "
             "accesses of AppendError/Kill/Stop/IsDone/Err/NewChild/Close: close(done) at most once, the held errors "
             "are a permutation of the appended ones at quiescence (stored + in flight = appended at any time), done "
             "iff stopped or error, no wait-group counter negative, the propagation goroutine acts once and only when "
             "justified, the stress harness' history monitor accepts every quiescent history of the model; the pre-fix "
             "code's double close and negative counter are proved reachable.  Tied to the "
             "code by go/ast facts on the lock / Once / channel skeleton checked by `decide`, a gated deterministic "
             "replay of the check-then-act windows, a sequential differential and a concurrent stress decided by a "
             "Lean history monitor.",
        design_ref="DESIGN.md 3 C12"),
    level_note="Trusted: Lean kernel (axioms propext/Classical.choice/Quot.sound only); the hand-written transition "
               "system's correspondence to /repo (syntactic lock/Once/channel facts + gated replay + sequential "
               "differential + stress: bounded by the generators); sync.Mutex / sync.Once / sync.WaitGroup / channel "
               "close semantics as modelled (Once.Do blocks concurrent callers until the body has returned; a "
               "second close panics; a negative counter panics); atomicity of the modelled steps rests on the lock "
               "facts and on the race detector reporting no race on the error list / done channel; listeners, the "
               "Wait inside Close and the closed-scope checks belong to C11.",
    technique="Lean 4 proof (invariants of a labelled transition system, n goroutines, all schedules) + go/ast "
              "structural facts + gated schedule replay + differential and monitored stress",
)

SHARDS = 8
TMO = 1500
GO_CRASH = re.compile(r"^(panic: .*|fatal error: .*)$", re.M)


# ----------------------------------------------------------------------------------------------- facts
def _facts(ctx, go, repo):
    """regenerate lean/Goat/Tie/ExtractedC12.lean from the repository `repo`"""
    env = ctx.goenv()
    env["VERIF_REPO"] = repo
    rc, out = ctx.capture([go, "facts"], env=env)
    if rc != 0:
        ctx.fatal("facts extraction failed: " + out[-800:])
    path = os.path.join(lib.LEAN, "Goat", "Tie", "ExtractedC12.lean")
    old = open(path).read() if os.path.exists(path) else None
    if old != out:
        tmp = path + ".tmp%d" % os.getpid()
        open(tmp, "w").write(out)
        os.replace(tmp, path)
    return out


# ----------------------------------------------------------------------------------------------- pairs
def _pair(ctx, go, model, ops, tag):
    a, b = ctx.path(tag + ".impl"), ctx.path(tag + ".model")
    rc, err = ctx.run_lines(go, ["drive"], ops, a, timeout=TMO)
    if "hook call sites absent" in err and not any("hook call sites" in n for n in ctx.notes):
        ctx.notes.append("the repository under test lacks the verif hook call sites of the context scopes (a tree "
                         "older than the hook commit): the gated scenarios run ungated and the sequential driver "
                         "settles propagation goroutines by a 20 ms pause instead of observing them")
    if rc != 0:
        # the process under test died: a panic in goatcore's own propagation goroutine cannot be recovered by
        # the harness; the case being executed is the first one without a result line
        n_out = ctx.count_lines(a)
        first = GO_CRASH.search(err)
        why = first.group(1) if first else "exit status %d" % rc
        n_ops = len([l for l in open(ops) if l.strip() and not l.startswith("#")])
        with open(a, "a") as h:
            h.write("crash process-died:%s\n" % why.replace(" ", "_"))
            for _ in range(max(0, n_ops - n_out - 1)):
                h.write("aborted\n")
    rc, err = ctx.run_lines(model, [], ops, b, timeout=TMO)
    if rc != 0:
        ctx.fatal("model driver failed rc=%d %s" % (rc, err[-500:]))
    return a, b


def _one(ctx, go, model, line, tag="one"):
    ops = ctx.path(tag + ".ops")
    open(ops, "w").write(line.rstrip("\n") + "\n")
    a, b = _pair(ctx, go, model, ops, tag)
    return open(a).read().strip(), open(b).read().strip()


# ----------------------------------------------------------------------------------------------- spec
def _seq_valid(kinds, toks):
    """is the case inside what generator and model describe: no operation on / child of a closed scope, a scope
    is closed only after the children created from it, Wait only on a scope whose children are closed"""
    n = len(kinds.split(","))
    closed, children = [False] * n, [[] for _ in range(n)]
    for t in toks:
        m = re.match(r"^([askden xw])(\d+)(?:\.(\w+))?$".replace(" ", ""), t)
        if not m:
            return False
        k, sid = m.group(1), int(m.group(2))
        if sid >= len(closed) or closed[sid]:
            return False
        if k == "n":
            arg = m.group(3) or ""
            if arg != "s" and not (arg.startswith("c") and arg[1:].isdigit() and int(arg[1:]) < n):
                return False
            children[sid].append(len(closed))
            closed.append(False)
            children.append([])
        elif k in "xw":
            if any(not closed[c] for c in children[sid]):
                return False
            if k == "x":
                closed[sid] = True
    return True


def _spec_seq(line, impl):
    """the property's own clauses on one sequential case, from the op tokens alone (no model).
    Returns a reason when the implementation's answers contradict the property, else None."""
    f = line.split()
    kinds, toks, res = f[1].split(","), f[2:], impl.split()
    if "panic" in res:
        return "a call panicked"
    if "hang" in res:
        return "a call that must return (Wait/Close with every child closed, an isolated context following its parent) did not"
    if "incons" in res:
        return "Err() and Errors() disagree"
    if "crash" in res or len(res) != len(toks):
        return "the process died: " + impl[:200]
    n = len(kinds)
    sctx = list(range(n))
    tagged, kills, ended, prop = [0] * n, [0] * n, [False] * n, [0] * n

    def end(c, with_err):
        # the context's done signal fires for the first time.  The sequential driver lets the watcher goroutines of
        # its isolated children act before the next operation: a child that is still alive is killed (one
        # Canceled) when the parent ended holding an error, stopped otherwise; a child that ended earlier on its
        # own has no watcher any more.
        if ended[c]:
            return
        ended[c] = True
        for d in range(n):
            if kinds[d] == "i%d" % c and not ended[d]:
                prop[d] = 1 if with_err else 0
                end(d, with_err)
    for t, r in zip(toks, res):
        k = t[0]
        body = t[1:].split(".")
        sid = int(body[0])
        if sid >= len(sctx):
            continue
        c = sctx[sid]
        if k == "a":
            tagged[c] += int(body[1])
            if int(body[1]) > 0:
                end(c, True)
        elif k == "k":
            kills[c] += 1
            end(c, True)
        elif k == "s":
            end(c, False)
        elif k == "n":
            sctx.append(c if body[1] == "s" else int(body[1][1:]))
        elif k == "d":
            if ended[c] and r != "t":
                return "%s: stopped / error appended / parent ended, but IsDone is false" % t
            if not ended[c] and r != "f":
                return "%s: done signal fired on a context nobody stopped, that holds no error and whose parent is alive" % t
        elif k == "e":
            m = re.match(r"^(\d+)\+(\d+)$", r)
            if not m:
                return "%s: unreadable answer %s" % (t, r)
            if int(m.group(1)) != tagged[c]:
                return "%s: %d errors appended, %s reported" % (t, tagged[c], m.group(1))
            if int(m.group(2)) != kills[c] + prop[c]:
                return ("%s: %d Kill calls%s, %s Canceled reported" % (
                    t, kills[c], " and a parent that ended with an error while this context was alive" if prop[c] else "",
                    m.group(2)))
        elif k in "xw":
            held = tagged[c] + kills[c] + prop[c]
            if r != ("ok:t" if held > 0 else "ok:f"):
                return ("%s: Wait/Close answered %s on a context that must hold %d errors (%d appended, %d Kill calls, "
                        "%d propagated from a parent that ended with an error)" % (t, r, held, tagged[c], kills[c], prop[c]))
    return None


def _spec_race(impl):
    if "crash" in impl:
        return "the process died: " + impl[:200]
    m = re.match(r"^panics=(\d+) (?:done=(\w) errs=(\d+)|wait=(\w+))$", impl)
    if not m:
        return "unreadable answer"
    if int(m.group(1)) != 0:
        return "%s call(s) panicked" % m.group(1)
    if m.group(2) == "f":
        return "stopped / killed but not done"
    if m.group(4) == "hang":
        return "every child is closed but Wait does not return"
    return None


def _minimise_seq(ctx, go, model, line):
    f = line.split()
    head, toks = f[:2], f[2:]

    def fails(ts):
        if not ts or not _seq_valid(head[1], ts):
            return False
        x, y = _one(ctx, go, model, " ".join(head + ts), "dd")
        return x != y
    try:
        red = ctx.ddmin(toks, fails)
        if red != toks and all(fails(red) for _ in range(3)):
            toks = red
    except Exception:
        pass
    return " ".join(head + toks)


# ----------------------------------------------------------------------------------------------- stress
def _stress(ctx, go, model, rounds, maxg, tag, seeds, env=None):
    """run the stress in parallel shards; returns (list of problems, summaries, raw stderr of crashed shards)"""
    import subprocess
    procs = []
    for i, sd in enumerate(seeds):
        e = ctx.goenv()
        e["VERIF_SEED"] = str(sd)
        e.setdefault("GOMEMLIMIT", "4GiB")
        if env:
            e.update(env)
        out = open(ctx.path("%s.%d.out" % (tag, i)), "wb")
        err = open(ctx.path("%s.%d.err" % (tag, i)), "wb")
        procs.append((sd, subprocess.Popen([go, "stress", str(rounds), str(maxg)], stdout=out, stderr=err, env=e), out, err))
    problems, summaries, stderrs = [], [], []
    for i, (sd, p, out, err) in enumerate(procs):
        try:
            rc = p.wait(timeout=TMO)
        except subprocess.TimeoutExpired:
            p.kill()
            rc = 124
        out.close()
        err.close()
        opath, epath = ctx.path("%s.%d.out" % (tag, i)), ctx.path("%s.%d.err" % (tag, i))
        etxt = open(epath, errors="replace").read()
        stderrs.append(etxt)
        replay = "stress %d %d seed=%d" % (rounds, maxg, sd)
        if rc != 0:
            first = GO_CRASH.search(etxt)
            problems.append((replay, "the stress process died (%s): a panic outside the harness' recover, i.e. in "
                             "goatcore's own propagation goroutine" % (first.group(1) if first else "exit %d" % rc),
                             etxt[-1200:]))
        hist = ctx.path("%s.%d.hist" % (tag, i))
        with open(hist, "w") as h:
            for l in open(opath, errors="replace"):
                if l.startswith("hist "):
                    h.write(l)
                elif l.startswith("FAIL "):
                    problems.append((replay, l.strip(), ""))
                elif l.startswith("stress "):
                    summaries.append(l.strip())
        verd = ctx.path("%s.%d.verdict" % (tag, i))
        rc2, err2 = ctx.run_lines(model, [], hist, verd, timeout=TMO)
        if rc2 != 0:
            ctx.fatal("model monitor failed rc=%d %s" % (rc2, err2[-300:]))
        with open(hist) as fh, open(verd) as fv:
            for hl, vl in zip(fh, fv):
                ctx.evaluations += 1
                vl = vl.strip()
                ctx.histogram["monitor:" + vl.split(" ")[0]] += 1
                ctx.note_case(hl, nontrivial=(" done=1" in hl and " ltag=0 lcan=0 " not in hl), kind=None)
                if vl != "accept":
                    problems.append((replay, "history monitor: %s on `%s`" % (vl, hl.strip()), hl.strip()))
    return problems, summaries, stderrs


# ----------------------------------------------------------------------------------------------- publication order
def _pub(ctx, go, rounds, tag, seeds, cmd="pub"):
    """the publication-order oracle in parallel shards; returns (problems, summaries)"""
    import subprocess
    procs = []
    for i, sd in enumerate(seeds):
        e = ctx.goenv()
        e["VERIF_SEED"] = str(sd)
        e.setdefault("GOMEMLIMIT", "4GiB")
        out = open(ctx.path("%s.%d.out" % (tag, i)), "wb")
        err = open(ctx.path("%s.%d.err" % (tag, i)), "wb")
        procs.append((sd, subprocess.Popen([go, cmd, str(rounds)], stdout=out, stderr=err, env=e), out, err))
    problems, summaries = [], []
    for i, (sd, p, out, err) in enumerate(procs):
        try:
            rc = p.wait(timeout=TMO)
        except subprocess.TimeoutExpired:
            p.kill()
            rc = 124
        out.close()
        err.close()
        replay = "%s %d seed=%d" % (cmd, rounds, sd)
        etxt = open(ctx.path("%s.%d.err" % (tag, i)), errors="replace").read()
        if rc != 0:
            first = GO_CRASH.search(etxt)
            problems.append((replay, "the %s oracle process died (%s)" % (cmd, first.group(1) if first else "exit %d" % rc),
                             etxt[-1200:]))
        cur = None
        for l in open(ctx.path("%s.%d.out" % (tag, i)), errors="replace"):
            if l.startswith("FAIL "):
                cur = [replay, l.strip(), ""]
                problems.append(cur)
            elif l.startswith("also ") and cur is not None:
                cur[2] += l
            elif l.startswith(cmd + " "):
                summaries.append(l.strip())
    return problems, summaries


RACE_BLOCK = re.compile(r"WARNING: DATA RACE\n(.*?)\n==================", re.S)
SIGNAL_FRAME = re.compile(r"contextscope\.\(\*(?:ContextScope|Isolated)\)\.(AppendError|Errors|Err|Stop|Kill|IsDone|Done)|"
                          r"contextscope\.NewIsolated|scope\.\(\*Scope\)\.(AddTasks|DoneTask|Wait)|scope\.NewChild")


def _races(stderrs):
    """(races on the error list / done channel / wait group in goatcore code, other goatcore races, harness-only)"""
    sig, other, own = [], [], []
    for txt in stderrs:
        for m in RACE_BLOCK.finditer(txt):
            blk = m.group(1)
            if "github.com/goatcms/goatcore/" not in blk:
                own.append(blk)
            elif SIGNAL_FRAME.search(blk):
                sig.append(blk)
            else:
                other.append(blk)
    return sig, other, own


def _summ(ctx, summaries, prefix):
    tot = {}
    for s in summaries:
        for tok in s.split()[1:]:
            k, _, v = tok.partition("=")
            if v.isdigit():
                tot[k] = tot.get(k, 0) + int(v)
    for k, v in tot.items():
        ctx.histogram[prefix + k] += v
    return tot


# ----------------------------------------------------------------------------------------------- run
def run(ctx):
    go = ctx.build_go("scopesig")
    try:
        _run(ctx, go)
    finally:
        if ctx.repo != "/repo":
            _facts(ctx, go, "/repo")  # leave the shared lake project in the state of the real repository


def _run(ctx, go):
    facts = _facts(ctx, go, ctx.repo)
    ctx.extra["facts"] = [l for l in facts.split("\n") if l.startswith("def ")]
    failed = ctx.lean_obligations(extra_modules=["Goat.Tie.C12"])
    model = ctx.build_model("m_scopesig")
    n_seq = ctx.pick(6000, 400000)
    rounds = ctx.pick(2500, 30000)
    race_rounds = ctx.pick(500, 12000)
    nshards = ctx.pick(4, 14)
    pub_rounds = ctx.pick(10000, 100000)
    pub_shards = ctx.pick(4, 12)
    late_rounds = ctx.pick(2500, 40000)
    ctx.rule = ("gated: 6 two-goroutine scenarios x {plain, isolated}, both goroutines parked right after the IsDone "
                "test by the verif hook, then released (deterministic).  seq: corpus/C12 + %d generated cases (forest "
                "of 1..4 contexts, each plain or isolated under an earlier one; 4..25 operations AppendError with 0..3 "
                "errors and interleaved nils / Kill / Stop / IsDone / Errors+Err / NewChild shared or with an own "
                "context / Close, children closed before parents, then every open scope observed, closed, waited on) "
                "from VERIF_SEED, every answer compared with the Lean model; non-trivial = some context ended and some "
                "error list was read; distinct = distinct case lines.  stress: %d shards x %d rounds, 2..64 goroutines "
                "x 1..8 operations each on a plain scope, its shared child, an isolated child and an isolated "
                "grandchild (profiles mixed / append-only / stop-heavy / kill-heavy / child-heavy / observe-only, "
                "GOMAXPROCS in {1,2,4,8,16}, a Gosched at every third yield point), one history line per context and "
                "round decided by the Lean monitor; non-trivial = the context ended and holds an error.  race: the "
                "same stress built with -race, %d rounds x 2 shards.  publish: %d shards x %d rounds, each a fresh "
                "target context (plain / scope / shared child scope / isolated) with 0..3 isolated descendants, 1..4 "
                "waiters per context blocked on Done(), 0..12 pollers spinning on IsDone/Errors/Err, 1..3 concurrent "
                "error-carrying enders drawn from 7 entry points, GOMAXPROCS in {2,3,4,8,16}, Gosched at yield points "
                "in half of the rounds; a clause evaluation = one wake-up read, one poller hit or one descendant.  "
                "late: %d shards x %d rounds, each a parent scope (root or itself a child) blocked in Wait() or Close() "
                "with 1..3 children (a third of them with a grandchild) sharing its context and 0..2 tasks, all "
                "registered up front; every scope carries failing listeners (probability 1/4 each, with random "
                "slowness) on before-close / the three commit / the three rollback events / after-close / ErrorEvent, "
                "inherited by its descendants; children are closed and tasks append-then-DoneTask in their own "
                "goroutines; a clause evaluation = one parent Wait/Close observation or one commit decision."
                % (n_seq, nshards, rounds, race_rounds, pub_shards, pub_rounds, pub_shards, late_rounds))
    concrete = False

    # --- corpus + gated scenarios + sequential differential
    ops = ctx.path("seq.ops")
    with open(ops, "w") as h:
        for f in sorted(glob.glob(os.path.join(lib.ROOT, "corpus", "C12", "*.ops"))):
            h.writelines(l for l in open(f) if l.strip() and not l.startswith("#"))
    n_corpus = ctx.count_lines(ops)
    rc, err = ctx.run([go, "gen", str(n_seq)], stdout=ctx.path("gen.ops"))
    if rc != 0:
        ctx.fatal("generator failed: " + err[-500:])
    with open(ops, "a") as h:
        h.write(open(ctx.path("gen.ops")).read())
    # shards (the Go side sleeps while propagation goroutines settle)
    lines = [l for l in open(ops) if l.strip()]
    k = ctx.pick(4, 12)
    import concurrent.futures
    shard_files = []
    for i in range(k):
        p = ctx.path("seq.%d.ops" % i)
        open(p, "w").writelines(lines[i::k])
        shard_files.append(p)
    with concurrent.futures.ThreadPoolExecutor(max_workers=k) as ex:
        pairs = list(ex.map(lambda ip: _pair(ctx, go, model, ip[1], "seq.%d" % ip[0]), enumerate(shard_files)))
    mism = []
    for p, (a, b) in zip(shard_files, pairs):
        mism += ctx.diff_streams(p, a, b, limit=10)
        with open(p) as fo, open(a) as fa, open(b) as fb:
            nseq = 0
            for i, (o, r, rm) in enumerate(zip(fo, fa, fb)):
                kind = o.split(" ", 1)[0]
                if kind == "seq":
                    toks, res = o.split()[2:], r.split()
                    for t, x in zip(toks, res):
                        ctx.histogram["seq:%s:%s" % (t[0], "n+m" if "+" in x else x)] += 1
                    ctx.note_case(o, nontrivial=(" t" in r and "+" in r and "+0 " not in r + " "), kind=None)
                else:
                    ctx.histogram["race:" + o.split()[1]] += 1
                    ctx.note_case(o, nontrivial=True, kind=None)
                nseq += kind == "seq"
                if len(ctx.samples) < 5 and (i == 0 or (kind == "seq" and nseq == 3)):
                    ctx.samples.append(dict(op=o.strip()[:400], impl=r.strip()[:400], model=rm.strip()[:400]))
    ctx.extra["corpus_lines"] = n_corpus
    # what the model of the old code predicts for the gated scenarios (evidence only)
    pin = ctx.path("pinned.ops")
    open(pin, "w").writelines(l.replace("race ", "race-pinned ", 1) for l in lines if l.startswith("race "))
    ctx.run_lines(model, [], pin, ctx.path("pinned.out"))
    ctx.extra["model_of_pre_fix_code"] = sorted(set(
        "%s -> %s" % (o.strip(), r.strip()) for o, r in zip(open(pin), open(ctx.path("pinned.out")))))

    for idx, op, ia, mb in mism[:3]:
        if op.startswith("race "):
            why = _spec_race(ia)
            red = op
        else:
            red = _minimise_seq(ctx, go, model, op)
            ia2, mb2 = _one(ctx, go, model, red, "min")
            if ia2 != mb2:
                ia, mb = ia2, mb2
            else:
                red = op
            why = _spec_seq(red, ia)
        concrete |= bool(why)
        ctx.violation("impl-vs-spec" if why else "impl-vs-model",
                      "implementation and model differ%s" % ((": " + why) if why else
                                                            " (the answers do not contradict a clause of the property by themselves)"),
                      lines=[red], annotations=["impl: " + ia, "model: " + mb] + (["spec: " + why] if why else []),
                      concrete=bool(why))
    # the clauses evaluated on the implementation alone, on every case (also where model and implementation agree)
    if not mism:
        for p, (a, b) in zip(shard_files, pairs):
            for o, r in zip(open(p), open(a)):
                why = _spec_race(r.strip()) if o.startswith("race ") else _spec_seq(o.strip(), r.strip())
                if why:
                    concrete = True
                    ctx.violation("impl-vs-spec", "model and implementation agree but the property's clause fails: " + why,
                                  lines=[o.strip()], annotations=["impl: " + r.strip()], concrete=True)
                    break

    # --- publication order (error recorded before the done signal), decided on the implementation alone
    pseeds = [ctx.seed * 1000 + 700 + i for i in range(pub_shards)]
    pproblems, psummaries = _pub(ctx, go, pub_rounds, "pub", pseeds)
    ptot = _summ(ctx, psummaries, "publish:")
    ctx.extra["publication_order"] = ptot
    ctx.evaluations += ptot.get("wakes", 0) + ptot.get("pollhits", 0) + ptot.get("descendants", 0)
    if psummaries and len(ctx.samples) < 6:
        ctx.samples.append(dict(op="pub %d seed=%d" % (pub_rounds, pseeds[0]), impl=psummaries[0][:400],
                                model="failrounds=0 (Goat.C12.error_published_before_done, isolated_child_never_stopped)"))
    if len(psummaries) != pub_shards and not pproblems:
        ctx.fatal("publication-order oracle: %d of %d shards reported" % (len(psummaries), pub_shards))
    for replay, what, extra in pproblems[:3]:
        concrete = True
        ctx.violation("impl-vs-spec", "the done signal of a scope that was ended by an error was observed while the "
                      "error was not (yet) reported by the accessors, or an isolated descendant did not end with an "
                      "error:\n" + what, lines=[replay],
                      annotations=[what] + (extra[:1500].split("\n") if extra else []), concrete=True)

    # --- late errors: what children's close-protocol listeners and tasks produce before they sign off is reported
    #     by the parent's Wait()/Close() (harness/cmd/scopesig/late.go)
    lseeds = [ctx.seed * 1000 + 800 + i for i in range(pub_shards)]
    lproblems, lsummaries = _pub(ctx, go, late_rounds, "late", lseeds, cmd="late")
    ltot = _summ(ctx, lsummaries, "late:")
    ctx.extra["late_errors"] = ltot
    ctx.evaluations += ltot.get("waitobs", 0) + ltot.get("closeobs", 0) + ltot.get("commitobs", 0)
    if len(lsummaries) != pub_shards and not lproblems:
        ctx.fatal("late-error oracle: %d of %d shards reported" % (len(lsummaries), pub_shards))
    for k in ("waitobs", "closeobs", "produced", "listener:after-close", "listener:error-event", "tasks"):
        if not ltot.get(k):
            ctx.notes.append("coverage gap: the late-error oracle has no `%s`" % k)
    for replay, what, extra in lproblems[:3]:
        concrete = True
        ctx.violation("impl-vs-spec", "a scope that waited for its children / tasks (Wait, or the Wait inside Close) "
                      "returned without an error they produced before signing off, or committed although they "
                      "failed:\n" + what, lines=[replay],
                      annotations=[what] + (extra[:1500].split("\n") if extra else []), concrete=True)

    # --- stress, decided by the Lean monitor
    seeds = [ctx.seed * 1000 + i for i in range(nshards)]
    problems, summaries, _ = _stress(ctx, go, model, rounds, 64, "stress", seeds)
    tot = _summ(ctx, summaries, "stress:")
    ctx.extra["stress_totals"] = tot
    # --- the same under the race detector
    gor = ctx.build_go("scopesig", race=True)
    rseeds = [ctx.seed * 1000 + 500 + i for i in range(2)]
    rproblems, rsummaries, rerrs = _stress(ctx, gor, model, race_rounds, 32, "race", rseeds,
                                           env={"GORACE": "halt_on_error=0 exitcode=0"})
    rtot = _summ(ctx, rsummaries, "racebuild:")
    sig, other, own = _races(rerrs)
    ctx.extra["race_detector"] = dict(rounds=rtot.get("rounds", 0), ops=rtot.get("ops", 0),
                                      races_on_error_list_done_channel_or_wait_group=len(sig),
                                      other_goatcore_races=len(other), harness_only_races=len(own),
                                      first=(sig or other or own or [""])[0][:1500])
    for replay, what, extra in (problems + rproblems)[:4]:
        concrete = True
        ctx.violation("impl-vs-spec", what, lines=[replay], annotations=extra[:1500].split("\n") if extra else [],
                      concrete=True)
    if sig:
        ctx.violation("impl-vs-spec", "the race detector reports %d data race(s) on the error list / done channel / "
                      "wait group inside goatcore (a torn or stale read is how an appended error can fail to be "
                      "reported)" % len(sig), lines=["stress %d 32 seed=%d race" % (race_rounds, rseeds[0])],
                      annotations=sig[0][:1500].split("\n"), concrete=concrete)
    if own:
        ctx.notes.append("the race detector reported %d race(s) with harness frames only (no goatcore frame)" % len(own))
    if other:
        ctx.notes.append("the race detector reported %d race(s) in goatcore outside the signalling code; first: %s"
                         % (len(other), other[0][:600]))

    # --- obligations
    if failed:
        def deeper():
            if concrete:
                return True
            pr, _, _ = _stress(ctx, go, model, 10000, 64, "deep", [ctx.seed * 1000 + 900 + i for i in range(12)])
            for replay, what, extra in pr[:2]:
                ctx.violation("impl-vs-spec", what, lines=[replay], annotations=extra[:1500].split("\n") if extra else [],
                              concrete=True)
            return bool(pr)
        ctx.obligation_violations(failed, searcher=deeper)
    if not ctx.quick():
        ctx.leanchecker(["Goat.Props.C12", "Goat.Tie.C12"])
        if any(not o["ok"] for o in ctx.obligations) and not failed:
            ctx.obligation_violations([o for o in ctx.obligations if not o["ok"]])

    zero = [k for k in ("monitor:reject",) if ctx.histogram.get(k)]
    ctx.assumptions += [
        "sync.Once.Do blocks concurrent callers until the body has returned; close of a closed channel and a negative "
        "WaitGroup counter panic; sync.Mutex is a mutual-exclusion lock (modelled, not verified)",
        "the modelled steps are atomic: rests on the lock facts of Goat.Tie.C12 and on the race detector run",
        "operations on a closed scope, listeners and the Wait inside Close are outside this property (C11)",
    ]
    ctx.trusted_base += [
        "go/ast facts (syntactic) for Stop / AppendError / Errors / Err / Kill / IsDone of both context types, the "
        "propagation goroutine of NewIsolated, Scope.AddTasks / DoneTask / close / Wait, NewChild",
        "the gate at the verif hook `*.isdone.miss` (harness/cmd/scopesig) and the counting of the propagation "
        "goroutine's branches used to settle sequential cases",
        "the publication-order oracle explores schedules by contention (pollers on errorsMU, GOMAXPROCS, Gosched), "
        "not exhaustively; the exhaustive statement is the Lean theorem over the two-step system tied by "
        "tie_record_then_close",
        "Go race detector (reports, as evidence for the atomicity assumption)",
    ]
    for k in ("wakes", "pollhits", "descendants"):
        if not ptot.get(k):
            ctx.notes.append("coverage gap: the publication-order oracle made no `%s` observation" % k)
    if not ctx.histogram.get("seq:e:n+m"):
        ctx.notes.append("coverage gap: no error list was read in the sequential stream")


# ----------------------------------------------------------------------------------------------- replay
def replay(ctx, path):
    go = ctx.build_go("scopesig")
    model = ctx.build_model("m_scopesig")
    rc = 0
    for line in lib.replay_ops(path):
        print("op    ", line)
        if line.startswith("stress "):
            f = line.split()
            seed = int(f[3].split("=")[1])
            binary = ctx.build_go("scopesig", race=True) if "race" in f[4:] else go
            pr, summ, errs = _stress(ctx, binary, model, int(f[1]), int(f[2]), "replay", [seed],
                                     env={"GORACE": "halt_on_error=0 exitcode=0"})
            sig, other, own = _races(errs)
            for s in summ:
                print("impl  ", s)
            for _, what, _ in pr[:5]:
                print("fail  ", what)
            if sig:
                print("race  ", "%d data race(s) on the error list / done channel / wait group" % len(sig))
            if pr or sig:
                rc = 1
        elif line.startswith("pub ") or line.startswith("late "):
            f = line.split()
            pr, summ = _pub(ctx, go, int(f[1]), "replay", [int(f[2].split("=")[1])], cmd=f[0])
            for s_ in summ:
                print("impl  ", s_[:300])
            for _, what, extra in pr[:5]:
                print("fail  ", what)
            if pr:
                rc = 1
        elif line.startswith("hist "):
            x, y = _one(ctx, go, model, line, "replay")
            print("monitor", y)
            rc |= int(y != "accept")
        else:
            x, y = _one(ctx, go, model, line, "replay")
            print("impl  ", x)
            print("model ", y)
            why = _spec_race(x) if line.startswith("race ") else _spec_seq(line, x)
            if why:
                print("spec  ", why)
            if x != y or why:
                rc = 1
    print("replay:", "still failing" if rc else "implementation, model and property agree")
    return rc


META["level_claimed"]["text"] += (' Added: done_by_error_shows_error; on the two-step system Model/ScopePublish.lean (record, then close; any number of appenders, observers and isolated-watcher chains; all schedules) error_published_before_done, done_context_holds_error, isolated_child_never_stopped, with close_first_hides_error as the evaluated witness for the swapped order; tie_record_then_close (go/ast). Implementation-side families `publish` and `late` (errors of close-protocol listeners and tasks reach the parent blocked in Wait/Close) are sampled.')
