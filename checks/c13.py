"""C13 — data scope: a child overlays its parent, locked sections are atomic.

Theorems: lean/Goat/Props/C13.lean about lean/Goat/Model/DataScope.lean (sequential overlay clauses
over heaps of scopes with chains of any depth; a transition system with one RW-mutex per scope whose
atomic actions are the critical sections of the Go methods: lock_exclusive, no_lost_update,
get_or_create_once over all schedules and any number of threads) + the structural tie
lean/Goat/Tie/C13 (go/ast skeleton of every method of DataScope/DataChildScope/DataLocker, compared
with the model's assumptions by `decide`; and the get-or-create skeleton of EVERY function of the
repository that takes a data locker — tasks.Unit.FromScope, envs.Unit.Envs, waits.WaitManager.ForScope —
compared with the spellings of the idiom that `runSkeleton` reads as the program of get_or_create_once:
tie_<service>_get_or_create, tie_idiom_users, tie_services_run + get_or_create_once_services).

Correspondence: harness/cmd/datascope drives the real datascope.New/NewChild/LockData on generated
histories (scope forests of depth <= 5, key pool of 3, nil values, lockers, nested lockers, use after
Commit, calls that block on a held lock run as probes and are resumed by the Commit that releases
them) against the compiled model m_datascope, line by line.  What blocks is decided by the model in a
first pass; the Go side only uses that to know what to wait for, never for a value.
Oracle (no model): overlay/frame clauses on the real objects, n x k locked increments = n*k with
plain traffic, sentinel sections, "a call returned while the lock was held", get-or-create through
tasks.Unit.FromScope / envs.Unit.Envs / waits.WaitManager.ForScope from 2..64 goroutines; the same
under the race detector.

Service family (dssvc): harness/cmd/datascope svcgen/svcdrive drive the REAL service units on trees of real
app.Scope objects (scope.New/NewChild) through random SEQUENCES of get-or-create (all three services),
tasks.Unit.BindScope / Clear, plain SetValue/Value of the service keys (discovered at run time) and LockData
sections, against the compiled model m_dssvc (lean/Goat/Model/DataScopeSvc.lean: each service operation as a
composition of the overlay operations; own slot absent / stored nil / instance, lookup = nearest own slot);
after every operation both sides print which instance every node resolves to for every service (instances
numbered in order of creation).  Theorems bind_is_sticky / clear_is_sticky / own_slot_is_sticky (all trees, all
later operation sequences not writing that slot), goc_creates_own / goc_finds, gocRun_is_svcGoc.
"""
import concurrent.futures
import glob
import os
import re
import subprocess
import time

import lib

META = dict(
    level_claimed=dict(
        category="proof",
        text="Lean 4 theorems: overlay_get / child_set_frames_parent over heaps of scopes with chains of any depth "
             "(induction on the chain), and over ALL schedules of any number of threads of a transition system whose "
             "atomic actions are the critical sections of the Go methods: lock_exclusive (nothing of another thread "
             "touches a scope between LockData and Commit), no_lost_update (n x k locked increments, with plain "
             "traffic, end at n*k; the sections never deadlock and every execution is finite), get_or_create_once (all callers obtain one instance), "
             "get_or_create_once_services (the same for any number of goroutines running any mix of the code shapes of the "
             "three services, read as model programs by the executable runSkeleton).  Model tied to /repo on "
             "every run by a differential over random histories (including which calls block), by a go/ast "
             "skeleton of each datascope method checked against the model's assumptions inside Lean, and by the "
             "get-or-create skeleton of every function of the repository that mentions LockData (lock, read under the lock, "
             "nil test of that read, create, store under the same key, release exactly once on every return path, no use of "
             "the scope itself) checked by `decide` against the spellings runSkeleton reads; the list of such functions "
             "and the list of plain writers of the service keys are themselves facts.  Service units on scope trees "
             "(Model/DataScopeSvc: BindScope/Clear/get-or-create/plain writes/locked sections as compositions of the overlay "
             "operations): bind_is_sticky, clear_is_sticky, own_slot_is_sticky (for all trees and ALL later operation sequences "
             "that do not write the node's own slot the node keeps resolving to what it was given, whatever its ancestors "
             "get), goc_creates_own, goc_finds, gocRun_is_svcGoc (the interpreter's four-call get-or-create is the pure one); "
             "tied to the real tasks/envs/waits units by a differential over random operation sequences on scope trees "
             "that compares, after every operation, the instance every node resolves to.",
        design_ref="DESIGN.md 3 C13"),
    level_note="Trusted: Lean kernel (axioms propext/Classical.choice/Quot.sound only); sync.RWMutex is a reader-writer "
               "lock and a critical section without blocking calls is one atomic action; the hand-written model's "
               "correspondence to /repo (differential + go/ast skeleton, both run every time); Go map semantics as "
               "modelled; the three services are covered by the oracle (real code, 2..64 goroutines) and by "
               "get_or_create_once_services through the syntactic tie of their bodies to the idiom (tie_*_get_or_create, "
               "tie_idiom_users, tie_services_run): trusted there are the extractor's reading of a function body "
               "(harness/cmd/datascope/facts.go: locals numbered by first appearance, shadowing and aliasing of the locker "
               "not tracked beyond `lockerEscapes`), that a constructor called under the lock does not use the scope "
               "(checked one call deep: it calls no method on the parameter that receives the scope), and the theorem's "
               "hypothesis that nobody writes the service key with a plain SetValue meanwhile (the plain writers "
               "tasks.Unit.BindScope / Clear / TaskManager.Create are listed by tie_key_plain_writers; what BindScope / Clear do to the "
               "tree sequentially is covered by the service family and bind_is_sticky / clear_is_sticky, their races with a "
               "concurrent get-or-create are not).",
    technique="Lean 4 proof (induction on chains; invariants over a labelled transition system, all schedules) + "
              "differential correspondence with blocking probes + go/ast structural tie (datascope methods and the "
              "get-or-create skeleton of every LockData user) + concurrent oracle (-race)",
)

TIE = "Goat.Tie.C13.Check"
EXTRACTED = os.path.join(lib.LEAN, "Goat", "Tie", "C13", "Extracted.lean")


# ----------------------------------------------------------------------------- helpers
def _hints(ops, results):
    """op lines + the model's result lines -> op lines with hints for the Go side"""
    out = []
    for o, r in zip(ops, results):
        h = "x"
        if r.startswith("blocked "):
            h = "b"
        elif r == "skip":
            h = "s"
        elif r == "fatal":
            h = "f"
        m = re.search(r"resumed=(.*)$", r)
        if m:
            h = "x r=" + ",".join(i.split(":")[0] for i in m.group(1).split(";"))
        out.append(o + " | " + h)
    return out


def _read_ops(path):
    return [l.rstrip("\n") for l in open(path) if l.strip() and not l.startswith("#")]


def _run_model(ctx, model, ops, tag):
    p = ctx.path(tag + ".ops")
    open(p, "w").write("\n".join(ops) + "\n")
    out = ctx.path(tag + ".model")
    rc, err = ctx.run_lines(model, [], p, out)
    if rc != 0:
        ctx.fatal("model driver failed rc=%d %s" % (rc, err[-500:]))
    res = [l.rstrip("\n") for l in open(out)]
    if len(res) != len(ops):
        ctx.fatal("model driver: %d result lines for %d ops" % (len(res), len(ops)))
    return res


MAX_CASES_PER_PROCESS = 600


def _run_impl(ctx, go, hops, tag, shards=1, fast=False, sub="drive"):
    """run the hinted ops on the real code, split at `reset` boundaries into chunks of at most
    MAX_CASES_PER_PROCESS cases, `shards` driver processes at a time.  (The driver decides "this probe is
    blocked" from a dump of all goroutine stacks; probes left blocked on the scopes of finished cases stay in
    the process, so one long-lived process gets slower with every case: 1000 cases 16 s, 12000 cases 1600 s.)"""
    cases, cur = [], []
    for l in hops:
        if l.startswith("reset") and cur:
            cases.append(cur)
            cur = []
        cur.append(l)
    if cur:
        cases.append(cur)
    shards = max(1, min(shards, len(cases)))
    per = min((len(cases) + shards - 1) // shards, MAX_CASES_PER_PROCESS)
    chunks = [[l for c in cases[i:i + per] for l in c] for i in range(0, len(cases), per)]
    env = ctx.goenv()
    env.setdefault("GOMEMLIMIT", "4GiB")
    if fast:
        env["DS_MUSTFINISH_MS"] = "1500"   # only while minimising an already failing case
    results = [None] * len(chunks)
    timed_out = []

    def work(i):
        part = chunks[i]
        ip, op = ctx.path("%s.%d.hops" % (tag, i)), ctx.path("%s.%d.impl" % (tag, i))
        open(ip, "w").write("\n".join(part) + "\n")
        with open(ip, "rb") as fin, open(op, "wb") as fout:
            p = subprocess.Popen([go, sub], stdin=fin, stdout=fout, stderr=subprocess.PIPE, env=env)
            try:
                _, err = p.communicate(timeout=1800)
            except subprocess.TimeoutExpired:
                p.kill()
                p.communicate()
                timed_out.append(i)
                return
        got = [l.rstrip("\n") for l in open(op)]
        n = len(part)
        if p.returncode != 0 or len(got) != n:
            # a crash of the process (e.g. a Go `fatal error`) is a result, not an infrastructure failure
            got += ["crash rc=%s %s" % (p.returncode, err.decode("utf-8", "replace").strip().split("\n")[0][:120])] * (n - len(got))
        results[i] = got
        if len(chunks) > shards:      # many chunks: do not keep them all on disk
            os.remove(ip)
            os.remove(op)

    with concurrent.futures.ThreadPoolExecutor(max_workers=shards) as pool:
        list(pool.map(work, range(len(chunks))))
    if timed_out:
        ctx.fatal("implementation driver timed out")
    return [l for got in results for l in got]


def _pair(ctx, go, model, ops, tag, shards=1, fast=False, sub="drive"):
    mres = _run_model(ctx, model, ops, tag)
    ires = _run_impl(ctx, go, _hints(ops, mres), tag, shards, fast, sub)
    return mres, ires


# ----------------------------------------------------------------------------- the service family (dssvc)
SVC_RE = re.compile(r"^(goc|bind|clear) |^(set|get|lset|lget) [tew] ")


def _is_svc(ops):
    return any(SVC_RE.match(o) for o in ops)


def _svc_explain(op, impl, model):
    """Spec verdict for a difference of the service family: (concrete, text)"""
    if impl in ("hang", "panic", "err") or impl.startswith("crash"):
        return True, "the call %s (a service call on an unlocked scope tree, single goroutine)" % (
            {"hang": "did not return", "panic": "panicked", "err": "returned an error"}.get(impl, "crashed the process"))
    mi, ii = model.split(" obs "), impl.split(" obs ")
    if mi[0] != ii[0] and mi[0].startswith("inst") and ii[0].startswith("inst"):
        return True, ("`%s` returned instance %s; the nearest own slot on the node's chain (own slots are written by "
                      "BindScope/Clear/SetValue/get-or-create on that node alone) holds %s" % (op, ii[0][5:], mi[0][5:]))
    if len(mi) == 2 and len(ii) == 2:
        names = dict(t="tasks.Unit (key pipTasks)", e="envs.Unit", w="waits.WaitManager")
        for ms, is_ in zip(mi[1].split(";"), ii[1].split(";")):
            if ms != is_:
                u = ms[0]
                mv, iv = ms[2:].split(","), is_[2:].split(",")
                for n, (a, b) in enumerate(zip(mv, iv)):
                    if a != b:
                        return True, ("after `%s`, %s resolves scope %d to instance %s; its chain's nearest own slot holds %s "
                                      "(a child keeps its own value when it has one, whatever its parent holds now)" % (
                                          op, names.get(u, u), n, b, a))
    return False, ""


def _svc_family(ctx, go, failed_notes):
    """random sequences of service operations on scope trees, real services against the model m_dssvc"""
    model = ctx.build_model("m_dssvc")
    ncases = ctx.pick(6000, 80000)
    ops = []
    for f in sorted(glob.glob(os.path.join(lib.ROOT, "corpus", "C13", "svc", "*.ops"))):
        ops += _read_ops(f)
    ncorpus = len(ops)
    rc, err = ctx.run([go, "svcgen", str(ncases)], stdout=ctx.path("svcgen.ops"))
    if rc != 0:
        ctx.fatal("svc generator failed: " + err[-300:])
    ops += _read_ops(ctx.path("svcgen.ops"))
    mres, ires = _pair(ctx, go, model, ops, "svc", shards=14, sub="svcdrive")
    ctx.evaluations += len(ops)
    ctx.extra["svc_ops"] = dict(corpus=ncorpus, generated=len(ops) - ncorpus, cases=ncases)
    ctx.rule += ("; service family: corpus/C13/svc/*.ops, then %d generated cases: a tree of 2..9 real app.Scope nodes (chain / random "
                 "tree / bushy, sometimes a second root), 8..40 ops over goc t|e|w (FromScope/Envs/ForScope), bind (BindScope with an "
                 "existing instance, biased to the one the node or its parent resolves to now), clear, plain set/get of the service "
                 "key, lock/lset/lget/commit sections (calls that would wait for a held mutex are skipped on both sides); after each "
                 "op the instance every node resolves to, per service, is compared; non-trivial = >=2 instances created, a bind and a "
                 "child scope" % ncases)
    start, shown = 0, 0
    follow = shadow = rebind_same = 0
    for i in range(1, len(ops) + 1):
        if i == len(ops) or ops[i].startswith("reset"):
            cops, cres = ops[start:i], ires[start:i]
            kinds = set(o.split(" ", 1)[0] for o in cops)
            created = len(set(r.split()[1] for o, r in zip(cops, cres) if o.startswith("goc") and r.startswith("inst ")))
            nt = created >= 2 and "bind" in kinds and any(o.startswith("child") for o in cops)
            ctx.note_case("svc\n" + "\n".join(cops), nontrivial=nt, kind="svc")
            if shown < 1 and nt and "lock" in kinds and len(cops) < 30:
                ctx.samples.append(dict(ops=cops, impl=cres, model=mres[start:i]))
                shown += 1
            start = i
    for o, r in zip(ops, ires):
        ctx.histogram["svc:" + o.split(" ", 1)[0] + ":" + r.split(" ", 1)[0]] += 1
    mism = [i for i in range(len(ops)) if ires[i] != mres[i]]
    firsts, seen = [], set()
    for i in mism:
        _, st = _case_of(ops, i)
        if st not in seen:
            seen.add(st)
            firsts.append(i)
    ctx.extra["svc_differing_cases"] = len(firsts)
    # `abort` lines follow from an earlier hang of the same process; a difference in a returned value says more than a hang
    firsts = [i for i in firsts if ires[i] != "abort"]
    firsts.sort(key=lambda i: (ires[i] == "hang", i))
    found = False
    for i in firsts[:2]:
        case, _ = _case_of(ops, i)

        def still_fails(lines):
            m, im = _pair(ctx, go, model, lines, "svcdd", fast=True, sub="svcdrive")
            return any(x != y for x, y in zip(m, im))
        small = ctx.ddmin(case, still_fails, keep_prefix=1)
        m, im = _pair(ctx, go, model, small, "svcdd", sub="svcdrive")
        j = next((k for k in range(len(small)) if m[k] != im[k]), None)
        if j is None:
            small, m, im = case, mres[i - len(case) + 1:i + 1], ires[i - len(case) + 1:i + 1]
            j = len(small) - 1
        conc, why = _svc_explain(small[j], im[j], m[j])
        found |= conc
        ann = ["%s   => impl: %s%s" % (l, im[k], "" if im[k] == m[k] else "   MODEL: " + m[k]) for k, l in enumerate(small)]
        ctx.violation("impl-vs-spec" if conc else "impl-vs-model",
                      "service units on a scope tree: implementation and model differ at op %d of the case%s" % (j, (": " + why) if why else ""),
                      lines=small, annotations=ann + [("spec: " if conc else "model: ") + m[j], "impl: " + im[j]] + failed_notes,
                      concrete=conc)
    zero = [k for k in ("svc:goc:skip", "svc:bind:ok", "svc:clear:ok", "svc:lset:ok", "svc:lget:inst", "svc:bind:bad", "svc:get:skip")
            if not ctx.histogram.get(k)]
    if zero:
        ctx.notes.append("svc generator coverage gap, zero hits for: " + ", ".join(zero))
    return found


def _case_of(ops, idx):
    """the ops of the case (from its `reset`) up to and including op idx"""
    start = idx
    while start > 0 and not ops[start].startswith("reset"):
        start -= 1
    return ops[start:idx + 1], start


SCOPE_OPS = ("set", "get", "keys", "lock")


def _classify(op, impl, model, history_results):
    """does this difference by itself contradict the property (Spec verdict)?"""
    misuse = any(r in ("panic", "fatal", "bad") or r.startswith("crash") for r in history_results)
    kind = op.split(" ", 1)[0]
    if "early=" in impl and "early=" not in model:
        return True, "a call of another goroutine returned between LockData and Commit (lock_exclusive)"
    if model.startswith("blocked") and not impl.startswith("blocked") and kind in SCOPE_OPS and impl not in ("abort",):
        return True, "a %s on a scope whose data lock is held returned before Commit (lock_exclusive)" % kind
    if kind == "get" and impl.startswith("val ") and model.startswith("val ") and not misuse:
        return True, "Value differs from the overlay of the chain (overlay_get / child_set_frames_parent)"
    if kind == "lget" and impl.startswith("val ") and model.startswith("val ") and not misuse:
        return True, "locker.Value differs from the overlay of the chain"
    if "resumed=" in model and "resumed=" in impl and not misuse and "hang" not in impl:
        return True, "a resumed call observed a value that differs from the overlay of the chain"
    return False, ""


def _write_extracted(ctx, go):
    rc, out = ctx.capture([go, "facts", ctx.repo])
    if rc != 0:
        ctx.fatal("fact extraction failed: " + out[-500:])
    old = open(EXTRACTED).read() if os.path.exists(EXTRACTED) else None
    if old != out:
        tmp = EXTRACTED + ".tmp%d" % os.getpid()
        open(tmp, "w").write(out)
        os.replace(tmp, EXTRACTED)
    return out


def _tie_obligations(ctx, go):
    """regenerate Extracted.lean from the repository under test and check the tie module.  Another C13 run on a
    different tree (a mutant) may rewrite the shared file while we build: build again until what was built is ours."""
    failed = []
    for attempt in range(6):
        mine = _write_extracted(ctx, go)
        n0 = len(ctx.obligations)
        failed = ctx.lean_obligations(props_module=TIE)
        if open(EXTRACTED).read() == mine:
            break
        ctx.log("Extracted.lean was rewritten by another run during the build: again")
        del ctx.obligations[n0:]
        time.sleep(1 + attempt)
    else:
        ctx.fatal("Goat/Tie/C13/Extracted.lean keeps being rewritten by another run")
    rc, out = ctx.capture([go, "users", ctx.repo])
    if rc != 0:
        ctx.fatal("idiom user listing failed: " + out[-500:])
    ctx.extra["idiom_users"] = [l for l in out.split("\n") if l.startswith(("user ", "not-a-user "))]
    ctx.extra["service_key_plain_writers"] = [l.split(" ", 1)[1] for l in out.split("\n") if l.startswith("plain-writer ")]
    return failed


def _oracle(ctx, binary, n, tag, race=False):
    out = ctx.path(tag + ".out")
    env = {"GORACE": "halt_on_error=0 exitcode=0"} if race else None
    rc, err = ctx.run_lines(binary, ["oracle", str(n)], None, out, timeout=1500, env=env)
    fails, summary = [], ""
    for l in open(out):
        if l.startswith("FAIL "):
            fails.append(l.rstrip("\n"))
        elif l.startswith("oracle "):
            summary = l.strip()
    if rc != 0 or not summary:
        fails.append("FAIL crash oracle process ended rc=%d: %s" % (rc, err.strip().split("\n")[0][:200] if err.strip() else "no summary line"))
    for tok in summary.split()[1:]:
        k, _, v = tok.partition("=")
        if k == "cases":
            ctx.evaluations += int(v)
        elif k != "fails":
            ctx.histogram["oracle%s:%s" % ("-race" if race else "", k)] += int(v)
    races = []
    if race:
        blocks = err.split("WARNING: DATA RACE")[1:]
        ctx.extra["race_reports"] = len(blocks)
        for b in blocks:
            b = b.split("==================")[0]
            if "/app/scope/datascope/" in b:
                races.append(b.strip()[:1500])
        ctx.extra["race_reports_in_datascope"] = len(races)
    ctx.extra["oracle_summary" + ("_race" if race else "")] = summary
    return fails, races


# ----------------------------------------------------------------------------- the check
def run(ctx):
    go = ctx.build_go("datascope")
    # two builds, so that a broken structural tie is reported by the name of its tie_* theorem and does not
    # drag the (unchanged) property theorems with it; the second call returns all failures so far
    # (Props/C13 imports the hand-written Tie/C13/{Tok,Idiom,Expected} only, never the generated Extracted)
    ctx.lean_obligations()
    failed = _tie_obligations(ctx, go)
    # the theorems that fail themselves first, then those that merely share a module with one
    failed = sorted(failed, key=lambda o: not o["reason"].startswith("line "))
    direct = [o for o in failed if o["reason"].startswith("line ")] or failed
    ob_notes = ["obligation no longer checks: %s (%s)" % (o["name"], o["reason"][:300]) for o in direct[:8]]
    ctx.checker_cmd = ("cd /verif/lean && lake build Goat.Props.C13 %s && lake env lean <generated audit: "
                       "#print axioms for every theorem of both modules>" % TIE)
    model = ctx.build_model("m_datascope")
    go_race = ctx.build_go("datascope", race=True)
    ncases = ctx.pick(4000, 150000)
    ctx.rule = ("corpus/C13/*.ops first, then %d generated cases from VERIF_SEED: a forest of 2..10 scopes of depth <= 5 "
                "(chain / random tree / bushy), 20..60 ops over set/get/keys/lock/lset/lget/lkeys/llock/commit with keys "
                "from {1,2,3} (+ rare 4..6), values 0..9 or nil, so that shadowing, stored nils, fall-back through several "
                "levels, calls blocked by a held lock (run as probes, resumed by the Commit), nested lockers, use after "
                "Commit and double Commit occur; a case is non-trivial when it has a successful write, a non-nil read and "
                "a blocked or nested-locker step; distinct = distinct op sequences" % ncases)
    ops = []
    for f in sorted(glob.glob(os.path.join(lib.ROOT, "corpus", "C13", "*.ops"))):
        ops += _read_ops(f)
    ncorpus = len(ops)
    rc, err = ctx.run([go, "gen", str(ncases)], stdout=ctx.path("gen.ops"))
    if rc != 0:
        ctx.fatal("generator failed: " + err[-300:])
    ops += _read_ops(ctx.path("gen.ops"))
    mres, ires = _pair(ctx, go, model, ops, "main", shards=14)
    ctx.evaluations += len(ops)
    ctx.extra["ops"] = dict(corpus=ncorpus, generated=len(ops) - ncorpus)
    # --- accounting
    start = 0
    shown = 0
    for i in range(1, len(ops) + 1):
        if i == len(ops) or ops[i].startswith("reset"):
            cops, cres = ops[start:i], ires[start:i]
            wrote = any(o.startswith(("set", "lset")) and r == "ok" for o, r in zip(cops, cres))
            readv = any(r.startswith("val ") and r != "val nil" for r in cres)
            deep = any(r.startswith("blocked") or o.startswith("llock") for o, r in zip(cops, cres))
            ctx.note_case("\n".join(cops), nontrivial=wrote and readv and deep)
            if shown < 2 and deep and len(cops) < 45:
                ctx.samples.append(dict(ops=cops, impl=cres, model=mres[start:i]))
                shown += 1
            start = i
    for o, r in zip(ops, ires):
        rk = r.split(" ", 1)[0]
        if rk == "val":
            rk = "val-nil" if r == "val nil" else "val"
        ctx.histogram[o.split(" ", 1)[0] + ":" + rk] += 1
        if "resumed=" in r:
            ctx.histogram["resumed-probes"] += len(r.split("resumed=")[1].split(" early=")[0].split(";"))
    # --- differences
    mism = [(i, ops[i], ires[i], mres[i]) for i in range(len(ops)) if ires[i] != mres[i]]
    # only the first difference of a case counts (later ones follow from a diverged state)
    firsts, seen = [], set()
    for i, o, a, b in mism:
        _, st = _case_of(ops, i)
        if st not in seen:
            seen.add(st)
            firsts.append((i, o, a, b))
    ctx.extra["differing_cases"] = len(firsts)
    concrete_found = False
    for i, o, a, b in firsts[:2]:
        case, _ = _case_of(ops, i)

        deadline = time.time() + 15

        def still_fails(lines):
            if time.time() > deadline:      # minimisation budget used up: keep what we have
                return False
            m, im = _pair(ctx, go, model, lines, "dd", fast=True)
            return any(x != y for x, y in zip(m, im))
        small = ctx.ddmin(case, still_fails, keep_prefix=1) if len(case) <= 400 else case
        m, im = _pair(ctx, go, model, small, "dd")
        j = next((k for k in range(len(small)) if m[k] != im[k]), None)
        if j is None:   # not reproducible on its own: keep the unminimised case
            small, m, im = case, mres[i - len(case) + 1:i + 1], ires[i - len(case) + 1:i + 1]
            j = len(small) - 1
        conc, why = _classify(small[j], im[j], m[j], im[:j])
        concrete_found |= conc
        ann = []
        for k, l in enumerate(small):
            ann.append("%s   => impl: %s%s" % (l, im[k], "" if im[k] == m[k] else "   MODEL: " + m[k]))
        ctx.violation("impl-vs-spec" if conc else "impl-vs-model",
                      "implementation and model differ at op %d of the case%s" % (j, (": " + why) if why else ""),
                      lines=small, annotations=ann + (["spec: " + m[j], "impl: " + im[j]] if conc else
                                                      ["model: " + m[j], "impl: " + im[j]]), concrete=conc)
    # --- the service units on scope trees (sequences of get-or-create / bind / clear / plain / locked sections)
    concrete_found |= _svc_family(ctx, go, ob_notes)
    # --- the property's clauses on the implementation alone
    deep = bool(firsts) or bool(failed)
    n_or = ctx.pick(600, 15000) * (4 if deep and ctx.quick() else 1)
    ofails, _ = _oracle(ctx, go, n_or, "oracle")
    rfails, races = _oracle(ctx, go_race, ctx.pick(40, 1200), "oracle_race", race=True)
    for f in (ofails + rfails)[:3]:
        parts = f.split(" ", 2)
        concrete_found = True
        ctx.violation("impl-vs-spec", "clause '%s' of the property fails on the implementation: %s" % (
            parts[1], parts[2] if len(parts) > 2 else ""),
            lines=["oracle %d seed %d%s" % (n_or if f in ofails else ctx.pick(40, 1200), ctx.seed, "" if f in ofails else " race")],
            annotations=["oracle: " + f] + ob_notes, concrete=True)
    for b in races[:2]:
        concrete_found = True
        ctx.violation("impl-vs-spec", "the race detector reports an unsynchronised access inside datascope while the oracle's "
                      "locked sections and plain traffic run (an access took effect without the scope's mutex)",
                      lines=["oracle %d seed %d race" % (ctx.pick(40, 1200), ctx.seed)],
                      annotations=["race: " + l for l in b.split("\n")[:24]], concrete=True)
    if failed:
        nv = len(ctx.violations)
        ctx.obligation_violations(failed, searcher=lambda: concrete_found)
        for v in ctx.violations[nv:]:     # no input found: say what the extractor saw, next to the theorem names
            if v["kind"] == "obligation":
                with open(v["replay"], "a") as h:
                    for l in ctx.extra.get("idiom_users", []):
                        h.write("#! extracted: %s\n" % l)
                    for l in ctx.extra.get("service_key_plain_writers", []):
                        h.write("#! extracted: plain-writer %s\n" % l)
    if not ctx.quick():
        ctx.leanchecker(["Goat.Props.C13", TIE])
        if any(not o["ok"] for o in ctx.obligations) and not failed:
            ctx.obligation_violations([o for o in ctx.obligations if not o["ok"]])
    ctx.assumptions += [
        "sync.RWMutex is a reader-writer lock; a critical section that contains no blocking call is one atomic action",
        "a locker is used by the goroutine that opened it (the services do so); lockers are committed innermost first in the transition system",
        "get-or-create: no other goroutine writes the service's key on the scope or its ancestors while the callers run "
        "(the functions that do write a service key without a locker are listed in coverage.service_key_plain_writers)",
        "get-or-create: the constructor called under the lock does not use the scope's data (it would wait for the caller's own lock)",
    ]
    ctx.trusted_base += [
        "go/ast skeleton extractor (harness/cmd/datascope facts) and the `bracketed` reading of it",
        "the extractor's reading of the LockData users' bodies as ITok lists, and runSkeleton's reading of those as model programs",
        "which calls block is decided by the model in a first pass and used by the Go driver only to know what to wait for",
        "Go race detector (supporting evidence only)",
    ]
    zero = [k for k in ("lset:panic", "commit:fatal", "lock:blocked", "llock:ok", "get:blocked", "set:blocked")
            if not ctx.histogram.get(k)]
    if zero:
        ctx.notes.append("generator coverage gap, zero hits for: " + ", ".join(zero))


# ----------------------------------------------------------------------------- replay
def replay(ctx, path):
    ops = lib.replay_ops(path)
    go = ctx.build_go("datascope")
    if not ops and "# kind: obligation" in open(path).read():
        # a theorem or a tie_* theorem did not check: regenerate the facts from the tree and check both modules again
        ctx.lean_obligations()
        failed = _tie_obligations(ctx, go)
        direct = [o for o in failed if o["reason"].startswith("line ")]
        for o in direct or failed:
            print("obligation", o["name"], "FAILS:", o["reason"][:300])
        if direct and len(failed) > len(direct):
            print("(%d further theorems of the same module are unchecked because the module does not compile)" % (len(failed) - len(direct)))
        for l in ctx.extra.get("idiom_users", []):
            print("extracted:", l)
        print("replay:", "still failing" if failed else "all obligations check")
        return 1 if failed else 0
    if ops and ops[0].startswith("oracle"):
        f = ops[0].split()
        n, seed, race = int(f[1]), f[3] if len(f) > 3 else "1", "race" in f
        binary = ctx.build_go("datascope", race=True) if race else go
        env = ctx.goenv()
        env["VERIF_SEED"] = seed
        if race:
            env["GORACE"] = "halt_on_error=0 exitcode=0"
        p = subprocess.run([binary, "oracle", str(n)], env=env, stdout=subprocess.PIPE, stderr=subprocess.PIPE, text=True)
        print(p.stdout[-3000:])
        bad = "FAIL " in p.stdout or p.returncode != 0 or ("DATA RACE" in p.stderr and "/app/scope/datascope/" in p.stderr)
        if race and "DATA RACE" in p.stderr:
            print(p.stderr[:3000])
        print("replay:", "still failing" if bad else "all clauses hold")
        return 1 if bad else 0
    if _is_svc(ops):
        model = ctx.build_model("m_dssvc")
        mres, ires = _pair(ctx, go, model, ops, "replay", sub="svcdrive")
    else:
        model = ctx.build_model("m_datascope")
        mres, ires = _pair(ctx, go, model, ops, "replay")
    rc = 0
    for o, a, b in zip(ops, ires, mres):
        print("op    ", o)
        print("impl  ", a)
        print("model ", b)
        if a != b:
            rc = 1
    print("replay:", "still failing" if rc else "implementation and model agree")
    return rc
