"""C14 — pipeline tasks honour wait lists and never run after a failed prerequisite.

Theorems: lean/Goat/Props/C14.lean about lean/Goat/Model/Pipeline.lean (runner, task manager,
completion latch, manager Wait, nested submissions), for all graphs and all schedules, plus the
trace monitor `accepts` (sound and complete for the declarative trace property; every model run
accepted).  Tie to /repo: harness/cmd/pipeline runs generated task graphs on a real app and the
recorded event traces go through the compiled monitor (m_pipeline).  PARTIAL level: the tie is
trace conformance, sampled.
"""
import pipeline_common as pc

META = dict(
    level_claimed=dict(
        category="proof",
        text="Lean 4 theorems over all task graphs and all schedules of an LTS model of Runner.Run / TaskManager.Create+Wait / "
             "RunLoop / pip:run: body_after_waits, no_body_after_failed_prereq, commands_in_order_stop_at_first_failure, "
             "accepted_graph_acyclic, all_finish (deadlock freedom + a decreasing measure), manager_wait_returns, "
             "manager_error_iff_some_failed, reject_leaves_latch (pre-fix model never returns from Wait), and a trace monitor "
             "proved to decide exactly the declarative property (accepts_iff) that every model run has (model_runs_accepted). "
             "PARTIAL: that the running system realises the model is sampled by putting the event traces of a real app "
             "(random DAGs, gated overlapping bodies, nested submissions) through the monitor, not proved.",
        design_ref="DESIGN.md 3 C14"),
    level_note="Partial. Trusted: Lean kernel (axioms propext/Classical.choice/Quot.sound), the hand-written orchestration model, "
               "the Go harness (event recorder, scope-SID to task mapping, gate controller), sync.WaitGroup/select semantics as "
               "modelled; lock maps empty (C15). Trace conformance is sampled: interleavings are the Go scheduler's.",
    technique="Lean 4 proof (invariant of a labelled transition system, well-founded waits-for order, termination measure) "
              "+ verified trace monitor on recorded executions of the real pipeline runner",
)


def run(ctx):
    pc.run_family(ctx, "C14", "c14", 4000, 300000, ["C14", "C16"])


def replay(ctx, path):
    return pc.replay(ctx, path, "C14")
