"""C14 — pipeline tasks honour wait lists and never run after a failed prerequisite.

Theorems: lean/Goat/Props/C14.lean about lean/Goat/Model/Pipeline.lean (runner, task manager,
completion latch, manager Wait, nested submissions), for all graphs and all schedules, plus the
trace monitor `accepts` (sound and complete for the declarative trace property; every model run
accepted).  Tie to /repo: harness/cmd/pipeline runs generated task graphs on a real app and the
recorded event traces go through the compiled monitor (m_pipeline), family c16x (pipeline_common: the graphs of C16 run in
eight kinds of scope, with pip:clear) included; and a STRUCTURAL tie: harness/cmd/pipefacts
(go/ast) regenerates lean/Goat/Tie/ExtractedPipeC14.lean on every run and the theorems tie_* of
lean/Goat/Tie/PipeC14.lean compare the skeletons of runGo, waitForTasks, Create, Wait, Task.Close, RunLoop … with
what the model's steps assume (checks/pipe_tie.py).  PARTIAL level: the structural tie is syntactic and the
behavioural tie is trace conformance, sampled.
"""
import pipe_tie
import pipeline_common as pc

META = dict(
    level_claimed=dict(
        category="proof",
        text="Lean 4 theorems over all task graphs and all schedules of an LTS model of Runner.Run / TaskManager.Create+Wait / "
             "RunLoop / pip:run: body_after_waits, no_body_after_failed_prereq, commands_in_order_stop_at_first_failure (a failing position - returned error, unknown command name, truncated "
             "text - stops the body and the task does not close ok), failure_only_where_scripted, "
             "accepted_graph_acyclic, all_finish (deadlock freedom + a decreasing measure), manager_wait_returns, "
             "manager_error_iff_some_failed, reject_leaves_latch (pre-fix model never returns from Wait), and a trace monitor "
             "proved to decide exactly the declarative property (accepts_iff) that every model run has (model_runs_accepted). "
             "PARTIAL: that the running system realises the model is sampled by putting the event traces of a real app "
             "(random DAGs, gated overlapping bodies, nested submissions) through the monitor, not proved. "
             "In addition a structural tie (go/ast, syntactic): theorems tie_* of Goat/Tie/PipeC14.lean fail by name when "
             "the skeleton of the code moves away from what the model's steps assume: tie_run_creates_then_spawns, "
             "tie_rungo_order (defer task.Close first; waitForTasks and its error return before SharedMutex.Lock; Lock + "
             "deferred Unlock before sandbox.Run; errors appended; then scope Wait), tie_waitfortasks_loop, "
             "tie_create_validates_then_registers / tie_create_error_paths_forget (sign-on to the parent scope first, "
             "duplicate refused, wait list validated against existing tasks, entry deleted on every error path after "
             "insertion, manager wait group armed once), tie_task_scope_shares_context, tie_manager_wait, "
             "tie_task_wait_close, tie_runloop_stops_at_first_failure, tie_runcommand_scope, tie_piprun_submission, "
             "tie_task_scope_label (the SID label the harness maps scopes to tasks by).",
        design_ref="DESIGN.md 3 C14"),
    level_note="Partial. Trusted: Lean kernel (axioms propext/Classical.choice/Quot.sound), the hand-written orchestration model, "
               "the Go harness (event recorder, scope-SID to task mapping, gate controller), sync.WaitGroup/select semantics as "
               "modelled; lock maps empty (C15). Trace conformance is sampled: interleavings are the Go scheduler's. "
               + pipe_tie.META_NOTE % ("C14", "C14", "Runner.Run/runGo/waitForTasks, TaskManager.Create/validWaitList/"
                                       "doneTask/Wait/Get, Task.Close/Wait, termexec.RunLoop/RunCommand, pipc.Run, "
                                       "scope.NewChild/AddTasks/DoneTask/Wait"),
    technique="Lean 4 proof (invariant of a labelled transition system, well-founded waits-for order, termination measure) "
              "+ verified trace monitor on recorded executions of the real pipeline runner "
              "+ structural tie (go/ast normal forms of the modelled functions compared with the model's assumptions by Lean `decide`/`rfl`)",
)


def run(ctx):
    try:
        pc.run_family(ctx, "C14", "c14", 4000, 300000, ["C14", "C16"], scoped=(1600, 40000),
                      obligations=pipe_tie.obligations, tie_modules=[pipe_tie.tie_module(ctx)])
    finally:
        pipe_tie.restore(ctx)   # a run against a scratch worktree leaves the extracted facts of /repo behind


def replay(ctx, path):
    return pc.replay(ctx, path, "C14")
