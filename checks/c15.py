"""C15 — named resource locks: writers exclude everyone, readers share, no deadlock.

Theorems: lean/Goat/Props/C15.lean about lean/Goat/Model/Mutex.lean (both an ideal RW lock and Go's
writer-preferring sync.RWMutex), for every number of holders, every lock map, every schedule.
Tie to /repo (harness/cmd/mutex, real commservices/mutex.SharedMutex built with -tags verif):
  * gated replay: holders park at verifhook.Yield("mutex.acquire") before every per-name acquisition
    and inside their critical sections; a schedule line opens one gate at a time; after each action the
    harness reports who arrived where and who is blocked in which stage of the RW lock (runtime wait
    reasons); the same line is executed by the Lean transition system (m_mutex) and the two
    observation strings are compared token by token;
  * interval monitor: every concurrency case records sequence-numbered enter/exit events; the trace
    goes through the Lean monitor (`monitor_accepts_iff`);
  * stress / lockstep rounds / overlap gates under a 20 s watchdog (deadlock freedom; compatible holders
    must be inside together), plus an in-process occupancy oracle;
  * `parties` (three and more parties): holders inside, waiters OBSERVED parked in Lock, then holders compatible
    with everybody must get inside while the others hold / are parked (`third_party_not_serialised`); a holder
    that does not is the result `serialised:<holder>~<wait reason>` with replay;
  * `ptasks`: task sets created through the real `pip:run` command line with --rlock/--wlock lists (a name in
    both lists is held read-WRITE); intervals judged by the Lean monitor against `parseLocks` of the lists;
  * `markBoolMapForNamespace` (rlock/wlock parsing) reached through the exported pipc.Run and compared
    with the Lean function;
  * tasks layer (lean/Goat/Model/MutexTasks.lean, Props sections 6-8): the holders are pipeline tasks that
    first wait for the tasks of their wait list and only then take their lock map.  go/ast facts of
    Runner.runGo / waitForTasks (wait and its error return BEFORE SharedMutex.Lock; task.Close deferred
    first) are checked by `decide`; `tasks` ops drive the REAL Runner of a freshly assembled application
    (harness/cmd/mutex/tasks.go) with wait lists and lock maps, bodies = gated probes, a deterministic
    adversarial family ("D waits for B, they share a written resource, B is parked behind a third task on
    a smaller resource"; "a task whose body FAILS held a resource somebody needs afterwards"; "a failing
    prerequisite: the dependant gives up without a lock") and random cases (any subset of bodies failing,
    several root scopes) under a random controller; the recorded bodies go through the Lean interval,
    order and failure monitors; a case whose tasks do not all end is the `all get their turn` clause failing.
"""
import fcntl
import glob
import os
import re
import threading
import time

import lib

META = dict(
    level_claimed=dict(
        category="proof",
        text="Lean 4 theorems over all numbers of holders, all lock maps and all schedules (exclusion, compatible "
             "holders are never blocked, deadlock freedom, bounded completion, the unsorted variant deadlocks) for "
             "an ideal RW lock and for Go's writer-preferring sync.RWMutex as modelled, and the same for holders "
             "that are pipeline tasks (any wait lists over earlier tasks, any failing subset: wait first, then "
             "lock; exclusion, deadlock freedom, bounded completion, body only after the prerequisites ended, a "
             "failed or ended task holds nothing and a task gives up only after a failed prerequisite, "
             "the lock-before-wait order deadlocks); the model is tied to SharedMutex on every run by gated "
             "schedule replay compared step by step, a Lean interval monitor over recorded critical sections, "
             "stress/lockstep/overlap runs under a watchdog; the tasks layer is tied to Runner.runGo by go/ast "
             "facts checked by `decide` and by task sets with wait lists and lock maps run through the real "
             "Runner (adversarial family + random controller, interval and order monitors, watchdog).",
        design_ref="DESIGN.md 3 C15"),
    level_note="Proof for the locking protocol over a modelled sync.RWMutex. Trusted: Lean kernel (axioms propext/"
               "Classical.choice/Quot.sound only), the hand-written model of sync.RWMutex and of SharedMutex.Lock/"
               "Unlock (tied by differential gated replay whose reach is bounded by the generator), Go runtime "
               "goroutine wait reasons used to observe 'blocked', the harness gate scheduler.  Tasks layer: the "
               "hand-written model of Runner.runGo/waitForTasks (tied by go/ast facts of the statement order and by "
               "runs of the real Runner whose reach is bounded by the generator; failing bodies are driven too: a failure "
               "marks the whole context of its root scope as done, so the harness puts tasks on several root scopes and "
               "demands a body only of tasks whose scope saw no other failure); that a hang is observed only as 'no event "
               "for the whole watchdog period'.",
    technique="Lean 4 proof (invariants of a labelled transition system, greatest-awaited-name argument, tasks layer "
              "reduced to it: waiting tasks hold nothing) + go/ast facts + gated schedule replay + real-Runner task "
              "sets (adversarial + random controller) + interval/order monitors + stress",
)

SHARDS = 8
CONC = ("sched", "stress", "overlap", "rounds", "tasks", "parties", "ptasks")


def _kind(op):
    return op.split(" ", 1)[0]


def _agree(impl, model):
    """model lines ending in ND predict only a prefix (two writers race for one writer mutex)"""
    if model.endswith(" ND"):
        mt = model.split()[:-1]
        it = impl.split()
        return it[:len(mt)] == mt and it[-1:] == ["fin"]
    return impl == model


def _concrete(impl):
    """does the implementation's own result contradict the property?"""
    if "hang" in impl.split() or "!timeout" in impl:
        m = re.search(r"unfinished=(\S+)", impl)
        if m:
            return ("tasks %s never got their turn (never ended): nothing happened for the whole watchdog period after the "
                    "last gate was opened (deadlock between lock holding and the wait lists, resources kept by a task that "
                    "has ended or failed, or a lost wake-up)" % m.group(1))
        return "some holder never got its turn within the 20 s watchdog (deadlock or lost wake-up)"
    m = re.search(r"excl:(\S+)", impl)
    if m:
        return "two holders were inside together with conflicting access to '%s' (occupancy oracle)" % m.group(1)
    m = re.findall(r"serialised:(\d+)~(\S+)", impl)
    if m:
        return ("holder(s) %s - whose lock maps are disjoint from, or only read-overlap with, the map of EVERY other "
                "holder of the case - did not get inside while the first holders were inside and the waiters (observed "
                "parked in SharedMutex.Lock by the runtime's wait reasons) were parked: not inside after the generous "
                "wait, goroutine wait reason %s (w = sync.Mutex.Lock); after the first holders unlocked everybody "
                "finished: the lock serialised compatible holders against each other"
                % (",".join(h for h, _ in m), ",".join(k for _, k in m)))
    return ""


def _run_impl(ctx, go, ops_lines, tag):
    """run the ops on the implementation in SHARDS parallel processes; returns (results, traces, crash)
    where results/traces are aligned with ops_lines (trace None for `locks`), crash = (index, stderr) or None"""
    n = len(ops_lines)
    shards = [list(range(i, n, SHARDS)) for i in range(SHARDS)]
    res = [None] * n
    trace = [None] * n
    crash = []

    def work(si, idxs):
        if not idxs:
            return
        opf, outf, trf = (ctx.path("%s.%d.%s" % (tag, si, e)) for e in ("ops", "impl", "trace"))
        with open(opf, "w") as h:
            h.write("".join(ops_lines[i] + "\n" for i in idxs))
        rc, err = ctx.run_lines(go, ["drive", trf], opf, outf, timeout=7200)
        out = open(outf).read().splitlines()
        trs = open(trf).read().splitlines() if os.path.exists(trf) else []
        t = 0
        for k, i in enumerate(idxs):
            if k < len(out):
                res[i] = out[k]
                if _kind(ops_lines[i]) in CONC and t < len(trs):
                    trace[i] = trs[t]
                    t += 1
        if rc != 0 or len(out) < len(idxs):
            crash.append((idxs[min(len(out), len(idxs) - 1)], "rc=%d %s" % (rc, err[-1500:])))

    ts = [threading.Thread(target=work, args=(si, idxs)) for si, idxs in enumerate(shards)]
    for t in ts:
        t.start()
    for t in ts:
        t.join()
    return res, trace, (min(crash) if crash else None)


def _run_model(ctx, model, lines, tag):
    opf, outf = ctx.path(tag + ".mops"), ctx.path(tag + ".model")
    with open(opf, "w") as h:
        h.write("".join(l + "\n" for l in lines))
    rc, err = ctx.run_lines(model, [], opf, outf)
    if rc != 0:
        ctx.fatal("model driver failed rc=%d %s" % (rc, err[-500:]))
    out = open(outf).read().splitlines()
    if len(out) != len(lines):
        ctx.fatal("model driver printed %d lines for %d ops" % (len(out), len(lines)))
    return out


def _search(ctx, go, model, holders, tag):
    """Spec vs implementation on the holders of a disagreeing case: lockstep rounds and stress, repeated;
    returns (op, impl result, why) of a concrete failure or None"""
    ops = ["rounds " + holders] * 24 + ["stress %s | 30" % holders] * 8
    if holders.startswith("tasks ") or holders.startswith("ptasks "):    # a whole `tasks` op: the same task set under the deterministic and random controllers
        spec = holders.split(" | ")[0]
        ops = [spec + " | adv"] + [spec + " | rnd %d" % k for k in range(1, 24)]
    res, trace, crash = _run_impl(ctx, go, ops, tag)
    if crash:
        return ops[crash[0]], "crash", "the process died: " + crash[1][-300:]
    for o, r in zip(ops, res):
        why = _concrete(r or "")
        if why:
            return o, r, why
    tl = [t for t in trace if t]
    for t, v in zip(tl, _run_model(ctx, model, tl, tag + ".mon")):
        if v != "accept":
            return t, v, _monitor_text(v)
    return None


def _monitor_text(v):
    if v.startswith("afterfailed"):
        return ("the Lean failure monitor answers `%s` (task, prerequisite): a body was entered although the body of a "
                "task of its wait list fails" % v)
    if v.startswith("early"):
        return ("order violated: the Lean order monitor answers `%s` (task, prerequisite): a body was entered before "
                "the body of a task of its wait list had been left" % v)
    return ("exclusion violated: the Lean interval monitor answers `%s` on the critical sections recorded from the "
            "real SharedMutex" % v)


def _task_specs(op):
    """[(waits, {name: write?}, flags)] of a `tasks` op; flags: n nested body, f failing body, digits scope group;
    of a `ptasks` op: the map the two lists stand for (wlock wins), flags = `b` if a name is in both lists"""
    res = []
    for t in op.split(" ")[1].split(";"):
        f = t.split("/")
        waits = [] if f[0] in ("-", "") else [int(x) for x in f[0].split(",")]
        if op.startswith("ptasks "):
            rl = [] if f[1] == "-" else f[1].split(",")
            wl = [] if f[2] == "-" else f[2].split(",")
            ns = f[3].partition("~")[2] if len(f) == 4 else ""      # nested: names live in the parent's lock namespace

            def eff(n):
                return n if n.startswith("@") else ns + n
            rows = dict((eff(n), False) for n in rl)
            rows.update((eff(n), True) for n in wl)
            res.append((waits, rows, ("b" if set(rl) & set(wl) else "") + ("N" if len(f) == 4 else "") + ("L" if ns else "")))
            continue
        rows = {} if f[1] in ("-", "") else dict((r.split(":")[0], r.split(":")[1] == "w") for r in f[1].split(","))
        res.append((waits, rows, f[2] if len(f) == 3 else ""))
    return res


def _failed_then_needed(specs):
    """a task with a failing body holds a resource that a task outside its wait-list descendants names in a
    conflicting mode (the situation in which a failed task that keeps its locks makes somebody hang)"""
    for i, (_, rows, fl) in enumerate(specs):
        if "f" not in fl:
            continue
        for j, (_, rows2, _) in enumerate(specs):
            if j != i and any(n in rows2 and (w or rows2[n]) for n, w in rows.items()):
                return True
    return False


def _dep_shares(specs):
    """some task shares a resource, at least one side writing, with a (transitive) prerequisite"""
    for i, (waits, rows, _) in enumerate(specs):
        todo, seen = list(waits), set()
        while todo:
            j = todo.pop()
            if j in seen or j >= len(specs):
                continue
            seen.add(j)
            todo += specs[j][0]
            for n, w in specs[j][1].items():
                if n in rows and (w or rows[n]):
                    return True
    return False


def _minimise_sched(ctx, go, model, op):
    head, _, acts = op.partition(" | ")
    acts = acts.split()
    cnt = [0]
    t0 = time.time()

    def fails(cand):
        cnt[0] += 1
        if cnt[0] > 60 or time.time() - t0 > 90:
            return False
        o = head + " | " + " ".join(cand)
        r, _, crash = _run_impl(ctx, go, [o], "min%d" % cnt[0])
        if crash:
            return True
        return not _agree(r[0] or "", _run_model(ctx, model, [o], "min%d" % cnt[0])[0])

    if len(acts) >= 2:
        acts = ctx.ddmin(acts, fails)
    return head + " | " + " ".join(acts)


def _features(op, impl):
    if impl == "bad-op":
        return ["bad-op"]
    k = _kind(op)
    f = [k]
    if k == "sched":
        for tag in ("~w", "~a", "~r", "noop", "@in", "@out"):
            if tag in impl:
                f.append("sched:" + tag)
    elif k == "locks":
        f.append("locks:" + impl.split(" ", 1)[0])
    elif k == "parties":
        na, nb = (int(x) for x in op.split(" | ")[1].split())
        hs = op.split(" ")[1].split(";")
        f.append("parties:waiters=%d" % min(nb, 3))
        f.append("parties:late-comers=%d" % min(len(hs) - na - nb, 3))
        if any("," in h for h in hs[na:na + nb]) and any("," in h for h in hs[na + nb:]):
            f.append("parties:multi-entry-waiter-and-late-comer")
        rd = set(r.split(":")[0] for h in hs[:na + nb] for r in h.split(",") if r.endswith(":r"))
        if any(r.split(":")[0] in rd for h in hs[na + nb:] for r in h.split(",")):
            f.append("parties:read-overlap")
    elif k == "ptasks":
        specs = _task_specs(op)
        f.append("ptasks:" + op.split(" | ")[1].split(" ")[0])
        for i, (_, rows, fl) in enumerate(specs):
            if "b" in fl and any(n in rows2 for j, (_, rows2, _) in enumerate(specs) if j != i
                                 for n in rows if rows[n]):
                f.append("ptasks:name-in-both-lists-contended")
                break
        if any("N" in fl for _, _, fl in specs):
            f.append("ptasks:nested")
        if any("L" in fl for _, _, fl in specs):
            f.append("ptasks:lock-namespace")
        if any(n.startswith("@") for _, rows, _ in specs for n in rows):
            f.append("ptasks:global-name")
        if any("N" in fl and not n.startswith("@") and n in rows2 and (rows[n] or rows2[n])
               for i, (_, rows, fl) in enumerate(specs) for j, (_, rows2, _) in enumerate(specs) if j != i for n in rows):
            f.append("ptasks:nested-contends-on-plain-name")
        if any(w for w, _, _ in specs):
            f.append("ptasks:wait-list")
    elif k == "tasks":
        specs = _task_specs(op)
        f.append("tasks:" + op.split(" | ")[1].split(" ")[0])
        if any(w for w, _, _ in specs):
            f.append("tasks:wait-list")
        if _dep_shares(specs):
            f.append("tasks:dependant-shares-resource")
        if any("n" in fl for _, _, fl in specs):
            f.append("tasks:nested-body")
        if any("f" in fl for _, _, fl in specs):
            f.append("tasks:failing-body")
        if _failed_then_needed(specs):
            f.append("tasks:failed-holder-then-needed")
        if any(w and "f" in specs[j][2] for w, _, _ in specs for j in w):
            f.append("tasks:failing-prerequisite")
        if any(fl.strip("nf") for _, _, fl in specs):
            f.append("tasks:several-scope-groups")
    return f


def _nontrivial(op, impl):
    if impl == "bad-op":
        return False
    k = _kind(op)
    if k == "sched":
        return "~" in impl
    if k == "locks":
        return impl.startswith("map ") and impl != "map -"
    if k == "parties":
        return True     # by construction: holders inside, waiters parked, late-comers
    if k in ("tasks", "ptasks"):
        specs = _task_specs(op)
        names = [set(r) for _, r, _ in specs]
        return any(w for w, _, _ in specs) or any(names[i] & names[j] for i in range(len(names)) for j in range(i))
    # stress / rounds / overlap: at least two holders share a name
    hs = op.split(" ")[1].split(";")
    names = [set(r.split(":")[0] for r in h.split(",") if ":" in r) for h in hs]
    return any(names[i] & names[j] for i in range(len(names)) for j in range(i))


def _oracle(ctx, go, n):
    """`mutex oracle`, in parallel with different seeds derived from VERIF_SEED"""
    fails, lock = [], threading.Lock()
    per = max(1, n // SHARDS)

    def work(si):
        out = ctx.path("oracle.%d.out" % si)
        rc, err = ctx.run_lines(go, ["oracle", str(per)], None, out, timeout=7200,
                                env={"VERIF_SEED": str(ctx.seed * 131 + si)})
        with lock:
            if rc != 0:
                fails.append("FAIL oracle shard %d crashed: rc=%d %s" % (si, rc, err[-800:]))
            for l in open(out):
                if l.startswith("FAIL "):
                    fails.append(l.rstrip("\n"))
                elif l.startswith("oracle "):
                    for tok in l.split()[1:]:
                        k, _, v = tok.partition("=")
                        if k == "cases":
                            ctx.evaluations += int(v)
                        elif k != "fails":
                            ctx.histogram["oracle:" + k] += int(v)

    ts = [threading.Thread(target=work, args=(si,)) for si in range(SHARDS)]
    for t in ts:
        t.start()
    for t in ts:
        t.join()
    return fails


def _tasks_oracle(ctx, go, n):
    """`mutex tasksoracle`: the adversarial family and n/SHARDS random task sets per shard, on the implementation alone"""
    fails, lock = [], threading.Lock()
    per = max(1, n // SHARDS)

    def work(si):
        out = ctx.path("toracle.%d.out" % si)
        rc, err = ctx.run_lines(go, ["tasksoracle", str(per)], None, out, timeout=7200,
                                env={"VERIF_SEED": str(ctx.seed * 257 + si)})
        with lock:
            if rc != 0:
                fails.append("FAIL tasksoracle shard %d crashed: rc=%d %s" % (si, rc, err[-800:]))
            for l in open(out):
                if l.startswith("FAIL "):
                    fails.append(l.rstrip("\n"))
                elif l.startswith("oracle "):
                    for tok in l.split()[1:]:
                        k, _, v = tok.partition("=")
                        if k == "cases":
                            ctx.evaluations += int(v)
                        elif k != "fails":
                            ctx.histogram["oracle:" + k] += int(v)

    ts = [threading.Thread(target=work, args=(si,)) for si in range(SHARDS)]
    for t in ts:
        t.start()
    for t in ts:
        t.join()
    return fails


def _regenerate_facts(ctx, go):
    """structural tie (DESIGN 1.4): go/ast skeleton of Lock/Unlock/runGo/waitForTasks of the repository under test ->
    Goat/Tie/ExtractedC15.lean (rewritten only when it changes, under the build lock)"""
    out = ctx.path("ExtractedC15.lean")
    rc, err = ctx.run([go, "facts", ctx.repo], stdout=out)
    if rc != 0:
        ctx.fatal("fact extraction failed: " + err[-500:])
    new = open(out).read()
    dst = os.path.join(lib.LEAN, "Goat", "Tie", "ExtractedC15.lean")
    with open(os.path.join(lib.LEAN, ".check.lock"), "w") as lock:
        fcntl.flock(lock, fcntl.LOCK_EX)
        try:
            old = open(dst).read() if os.path.exists(dst) else ""
            if old != new:
                tmp = dst + ".tmp%d" % os.getpid()
                open(tmp, "w").write(new)
                os.replace(tmp, dst)
        finally:
            fcntl.flock(lock, fcntl.LOCK_UN)
    ctx.extra["facts_extracted"] = new.count("\n  \"")


def run(ctx):
    go = ctx.build_go("mutex")
    _regenerate_facts(ctx, go)
    failed = ctx.lean_obligations()
    cmd = ctx.checker_cmd
    failed += ctx.lean_obligations(props_module="Goat.Tie.C15")   # audited separately: a moved skeleton
    ctx.checker_cmd = cmd.replace("Goat.Props.C15 &&", "Goat.Props.C15 Goat.Tie.C15 &&")  # fails tie_* only
    model = ctx.build_model("m_mutex")
    n_rand = ctx.pick(20000, 300000)
    n_oracle = ctx.pick(4000, 60000)
    n_tasks = ctx.pick(3000, 40000)
    n_toracle = ctx.pick(800, 8000)
    ctx.rule = ("corpus + %d generated ops from VERIF_SEED: 40%% gated schedules (2-6 holders, pools of 1-3 names, maps "
                "in shuffled order, random gate-opening actions), 20%% stress (2-16 holders, pools of 1-6 names, 1-30 "
                "iterations), 10%% overlap gates (2-5 mutually compatible holders + bystanders), 10%% lockstep rounds "
                "(2-8 holders), 20%% rlock/wlock lists; 6%% (taken from the schedules) `parties`: 1-3 holders that stay inside, "
                "1-4 waiters that each conflict with one of them (observed parked in Lock by the runtime's wait reasons), "
                "then 1-3 late-comers compatible with EVERY other holder (private names, names everybody only reads; "
                "mostly multi-entry maps) that must get inside while the others hold / are parked; "
                "oracle: %d further stress/overlap/rounds/parties cases + the 11 fixed parties cases. non-trivial = "
                "some holder was observed blocked (sched) / two holders share a name (others) / a non-empty map was "
                "parsed (locks); distinct = distinct op lines.  Tasks layer: the adversarial family (20 task sets: D "
                "waits for B, both need a resource at least one writes, B is parked behind a third task holding a smaller "
                "resource; who writes / chains of waits / several blockers / nested bodies vary; 9 sets with FAILING bodies: "
                "a failing holder of a resource that a task of another scope group needs afterwards, a failing prerequisite "
                "whose dependant must give up without a lock, failure inside a nested task) under the deterministic "
                "controller + %d generated task sets (2-7 tasks, pools of 1-4 names, wait lists over earlier tasks in 40%% "
                "of the tasks, half of those share a conflicting resource with a prerequisite, 1/6 nested bodies; in half of "
                "the sets the tasks are spread over 2-3 scope groups = root scopes and each body fails with probability 1/4) "
                "under a "
                "random controller that interleaves submissions, parked per-name acquisitions and body gates; every "
                "fourth generated task set (and 10 fixed ones) is a `ptasks` case: the tasks are created by running the real "
                "command line `pip:run --rlock=<list> --wlock=<list> --wait=<list>` (termexec.RunString), every written name "
                "is in the wlock list and with probability 1/2 ALSO in the rlock list, in shuffled positions; the bodies "
                "record intervals judged by the Lean interval monitor against the map the lists stand for (wlock wins: "
                "Lean `parseLocks`), the map the task was created with is read back and compared; in half of the ptasks sets 40-100%% "
                "of the tasks are NESTED submissions (the command line is the body of a parent task of its own, started through "
                "Runner.Run so that parents run concurrently, in lock namespace ``/`ns`/`a`/`x:`), with a global `@g` name in "
                "the pool: effective names by Lean `nestedLocks` (lock namespace inherited, task names irrelevant); tasks "
                "oracle: the family + %d further task sets per 8 shards; non-trivial = a wait list or a shared name"
                % (n_rand, n_oracle, n_tasks, n_toracle))
    ops = []
    for f in sorted(glob.glob(os.path.join(lib.ROOT, "corpus", "C15", "*.ops"))):
        ops += [l.rstrip("\n") for l in open(f) if l.strip() and not l.startswith("#")]
    n_corpus = len(ops)
    ctx.run([go, "gen", str(n_rand)], stdout=ctx.path("gen.ops"), check=True)
    ops += open(ctx.path("gen.ops")).read().splitlines()
    ctx.run([go, "gentasks", str(n_tasks)], stdout=ctx.path("gentasks.ops"), check=True)
    ops += open(ctx.path("gentasks.ops")).read().splitlines()
    ctx.log("running %d ops on the implementation (%d shards) and on the model" % (len(ops), SHARDS))
    impl, trace, crash = _run_impl(ctx, go, ops, "main")
    mod = _run_model(ctx, model, ops, "main")
    ctx.evaluations += sum(1 for r in impl if r is not None and r != "skipped")
    ctx.extra["skipped_after_hangs"] = sum(1 for r in impl if r == "skipped")
    concrete_found = False
    if crash:
        i, err = crash
        concrete_found = True
        ctx.violation("impl-vs-spec", "the implementation driver died while executing op %d (a runtime fatal error "
                      "such as an unlock of an unlocked RWMutex kills every holder): %s" % (i, err[-600:]),
                      lines=[ops[i]], annotations=["model: " + mod[i]], concrete=True)
    # --- interval monitor over the recorded traces
    tl = [(i, t) for i, t in enumerate(trace) if t]
    verdicts = _run_model(ctx, model, [t for _, t in tl], "mon")
    ctx.evaluations += len(verdicts)
    ctx.extra["intervals_checked"] = sum(t.count(" ") for _, t in tl)
    rejected = [(i, t, v) for (i, t), v in zip(tl, verdicts) if v != "accept"]
    for i, t, v in rejected:
        if not (v.startswith("reject ") or v.startswith("early ") or v.startswith("afterfailed ")):
            ctx.fatal("the Lean monitor could not read the trace of op %d (%s): %s" % (i, v, t[:300]))
    ctx.histogram["monitor:accept"] = len(verdicts) - len(rejected)
    ctx.histogram["monitor:reject"] = len(rejected)
    for i, t, v in rejected[:3]:
        concrete_found = True
        why = _monitor_text(v)
        if _kind(ops[i]) == "ptasks":
            why += (" - the bodies of tasks created by `pip:run --rlock=… --wlock=…`; the rows of each interval are what the "
                    "two lists of the task stand for (a name of the wlock list is held read-write even if the rlock list "
                    "names it too; a name lives in the LOCK namespace of the scope that runs pip:run - a nested task "
                    "`<waits>/<rlock>/<wlock>/<parent>[~<lock namespace>]` inherits it from its parent whatever the task "
                    "names are - and `@name` is global: Lean `nestedLocks`)")
        ctx.violation("impl-vs-spec", why, lines=[ops[i]],
                      annotations=["trace: " + t, "monitor: " + v], concrete=True)
    # --- line-by-line comparison
    mism = []
    for i, (o, a, b) in enumerate(zip(ops, impl, mod)):
        if a is None or a == "skipped":
            continue
        for f in _features(o, a):
            ctx.histogram[f] += 1
        if b.endswith(" ND"):
            ctx.histogram["sched:ND"] += 1
        ctx.note_case(o, nontrivial=_nontrivial(o, a))
        if len(ctx.samples) < 5 and (i % 997 == 0 or (i < n_corpus and i < 2)):
            ctx.samples.append(dict(op=o, impl=a, model=b))
        if not _agree(a, b):
            mism.append((i, o, a, b))
    ctx.extra["mismatches"] = len(mism)
    mism.sort(key=lambda m: 0 if _concrete(m[2]) else 1)    # stable: those whose own result contradicts the property first
    for i, o, a, b in mism[:3]:
        why = _concrete(a)
        if why:
            concrete_found = True
            ann = ["impl: " + a, "model: " + b]
            if _kind(o) == "tasks":
                sw = _run_model(ctx, model, ["tswap " + o.split(" ")[1]], "swap%d" % i)[0]
                ann.append("model of the swapped order (SharedMutex.Lock before waitForTasks, tsysSwapped) on this task "
                           "set: " + sw + (" (schedule of task indices reaching a state with no enabled step)"
                                           if sw.startswith("stuck") else " (that order does not explain the hang)"))
            ctx.violation("impl-vs-spec", "op %d: %s" % (i, why), lines=[o], annotations=ann, concrete=True)
            continue
        mo = o
        ann = ["impl: " + a, "model: " + b]
        if _kind(o) == "sched":
            mo = _minimise_sched(ctx, go, model, o)
            if mo != o:
                ra, _, _ = _run_impl(ctx, go, [mo], "minfinal")
                ann = ["original op: " + o, "impl: " + (ra[0] or "crash"),
                       "model: " + _run_model(ctx, model, [mo], "minfinal")[0]]
        if _kind(o) in CONC:
            found = _search(ctx, go, model, o if _kind(o) in ("tasks", "ptasks") else o.split(" ")[1], "search%d" % i)
            if found:
                concrete_found = True
                fo, fr, fwhy = found
                ctx.violation("impl-vs-spec", "implementation and model differ on op %d; on the same holders: %s"
                              % (i, fwhy), lines=[fo, mo], annotations=ann + ["failing: " + fr], concrete=True)
                continue
        ctx.violation("impl-vs-model", "implementation and model differ on op %d (%s)" % (i, _kind(o)),
                      lines=[mo], annotations=ann, concrete=False)
    # --- the property's clauses on the implementation alone
    ofails = _oracle(ctx, go, n_oracle)
    for f in ofails[:3]:
        concrete_found = True
        m = re.match(r"FAIL (.*) => (.*)$", f)
        ctx.violation("impl-vs-spec", "oracle: " + (_concrete(m.group(2)) or m.group(2) if m else f),
                      lines=[m.group(1)] if m else [], annotations=["oracle: " + f], concrete=True)
    for f in _tasks_oracle(ctx, go, n_toracle)[:3]:
        concrete_found = True
        m = re.match(r"FAIL (.*) => (.*)$", f)
        ctx.violation("impl-vs-spec", "tasks oracle: " + (_concrete(m.group(2)) or m.group(2) if m else f),
                      lines=[m.group(1)] if m else [], annotations=["oracle: " + f], concrete=True)
    for k in ("parties", "parties:waiters=1", "parties:waiters=3", "parties:multi-entry-waiter-and-late-comer",
              "parties:read-overlap", "ptasks:adv", "ptasks:rnd", "ptasks:name-in-both-lists-contended", "ptasks:wait-list",
              "ptasks:nested", "ptasks:lock-namespace", "ptasks:global-name", "ptasks:nested-contends-on-plain-name",
              "sched:~w", "sched:~a", "sched:~r", "sched:ND", "locks:err", "locks:map", "tasks:adv", "tasks:rnd",
              "tasks:wait-list", "tasks:dependant-shares-resource", "tasks:nested-body", "tasks:failing-body",
              "tasks:failed-holder-then-needed", "tasks:failing-prerequisite", "tasks:several-scope-groups"):
        if not ctx.histogram.get(k):
            ctx.notes.append("coverage gap: no case hit " + k)
    if failed:
        def searcher():
            if concrete_found:
                return True
            deep = _tasks_oracle(ctx, go, 8000) + _oracle(ctx, go, 40000)
            for f in deep[:3]:
                m = re.match(r"FAIL (.*) => (.*)$", f)
                ctx.violation("impl-vs-spec", "oracle (deep): " + (_concrete(m.group(2)) if m else f),
                              lines=[m.group(1)] if m else [], annotations=["oracle: " + f], concrete=True)
            return bool(deep)
        ctx.obligation_violations(failed, searcher=searcher)
    if not ctx.quick():
        ctx.leanchecker(["Goat.Props.C15", "Goat.Tie.C15"])
        if any(not o["ok"] for o in ctx.obligations) and not failed:
            ctx.obligation_violations([o for o in ctx.obligations if not o["ok"]])
    ctx.assumptions += [
        "sync.RWMutex behaves as modelled (Variant.pref: one writer past the internal mutex, announced writer blocks "
        "new readers, Unlock admits all parked readers at once) — modelled, not verified; the theorems also hold for "
        "the ideal lock (Variant.plain)",
        "every holder calls Lock once, then Unlock once (the documented contract of SharedMutex); holders that nest "
        "Lock calls are outside the property",
        "tasks layer: a wait list names only tasks created earlier (TasksManager.Create rejects unknown names: "
        "validWaitList), Task.Wait returns only after Task.Close, and runGo's deferred calls run in reverse order "
        "(Unlock before Close) — the last two read off the go/ast facts, the first is C14's territory",
    ]
    ctx.trusted_base += [
        "go/ast fact extractor (harness/cmd/mutex facts): syntactic skeleton of SharedMutex.Lock, unlockHandler.Unlock and "
        "Runner.runGo and Runner.waitForTasks compared with the models' assumptions by `decide` (tie_mutex_sorted, "
        "tie_mutex_unlock, tie_runner_brackets)",
        "Go runtime goroutine dump (wait reasons sync.Mutex.Lock / sync.RWMutex.Lock / sync.RWMutex.RLock) used to observe "
        "that a holder is blocked, and the harness gate scheduler built on verifhook.Yield(\"mutex.acquire\")",
        "tasks layer: go/ast facts tie_runner_waits_before_lock, tie_runner_wait_loop, tie_runner_closes_after_unlock; the "
        "real-Runner harness (harness/cmd/mutex/tasks.go: application assembled like pipelinem's own tests, probe command, "
        "controller steering by stop-the-world goroutine snapshots — steering only, no verdict depends on it)",
    ]


def replay(ctx, path):
    go = ctx.build_go("mutex")
    model = ctx.build_model("m_mutex")
    ops = [l for l in lib.replay_ops(path)]
    rc = 0
    for o in ops:
        if _kind(o) in ("ivs", "tivs"):
            v = _run_model(ctx, model, [o], "rp")[0]
            print("trace ", o)
            print("monitor", v)
            rc |= v != "accept"
            continue
        reps = 1 if _kind(o) == "locks" else (8 if _kind(o) == "sched" else (3 if _kind(o) in ("tasks", "ptasks", "parties") else 20))
        for k in range(reps):
            impl, trace, crash = _run_impl(ctx, go, [o], "rp")
            m = _run_model(ctx, model, [o], "rp")[0]
            a = impl[0] or "crash"
            v = _run_model(ctx, model, [trace[0]], "rpm")[0] if trace[0] else "accept"
            bad = crash or not _agree(a, m) or v != "accept"
            if bad or k == reps - 1:
                print("op     ", o)
                print("impl   ", a)
                print("model  ", m)
                print("monitor", v)
            if bad:
                rc = 1
                break
    print("replay:", "still failing" if rc else "implementation, model and monitor agree")
    return rc


META["level_claimed"]["text"] += (' Added: third_party_not_serialised (a late-comer compatible with every holder and waiter is never blocked: any number of parties, all schedules, both lock variants) and nested_lock_names_ignore_task_names (Model/MutexNames.lean: a nested pip:run names its resources in the lock namespace its parent was created with, whatever the task names); families `parties` (waiters observed parked via runtime wait reasons) and `ptasks` (tasks created by the real pip:run command line, nested submissions, lock namespaces, names in both lists).')
