"""C16 — pip:try runs exactly the matching handler and contains the body's failure.

Theorems: lean/Goat/Props/C16.lean (same model and monitor as C14: the try block = body task in a
scope with its own context, handlers submitted after Wait on it; handler submissions are events).
Tie to /repo: harness/cmd/pipeline family c16 (handler subsets x failing handlers x body shapes
enumerated, nested tasks, concurrently failing siblings) and the STEERED family c16s (the gate
controller holds one handler of a try block at its first command until it has seen the fate of the
other; `stall` if nothing happens), traces decided by the compiled monitor.  PARTIAL level as C14.
"""
import pipeline_common as pc

META = dict(
    level_claimed=dict(
        category="proof",
        text="Lean 4 theorems over all graphs with try blocks (any nesting, any handler subset, failing handlers, bodies failing "
             "at any command or spawning nested tasks) and all schedules: success_iff_body_ok, fail_iff_body_err, finally_always, "
             "handlers_after_body_and_spawned, body_failure_contained (a task / the root reports an error exactly when a task of "
             "the same context closed with one, and a task closes with an error only with a cause in its own or the root "
             "context); the `if` directions with a TIMED excuse: handler_starts_unless_prior_cause / "
             "finally_starts_unless_prior_cause (a handler that has to run has started when the owner closes, or the trace "
             "splits at the event that sealed its fate - its close without a first command or a refused submission - with a cause of failure strictly before that event), "
             "handlers_submitted_after_body, finally_submitted_first, accepted_handlers_close_before_owner_leaves; and for the "
             "model under every steering policy of the gate controller: stall_free (the controller's time-out never fires: no "
             "`stall` event), held_handler_awaits_live, steered_no_deadlock, steered_all_finish, steered_runs_accepted; the "
             "verified trace monitor (accepts_iff, model_runs_accepted). PARTIAL: the implementation is tied by trace "
             "conformance of a real app (pip:try through the terminal, probe events, handler submissions seen by a wrapper "
             "around the PipRunner service, Err() of the owner task and of the app scope), free-running (sampled) and steered "
             "(288 enumerated combinations per round, 3 rounds quick / 40 thorough).",
        design_ref="DESIGN.md 3 C16"),
    level_note="Partial, as C14. Handlers are observed by their first probe command and by the outcome of their submission. "
               "'Never starts while the other handler is held' is decided through the explicit `stall` event after a generous "
               "wait (10 s), never through 'did not happen within t'. The witness of the repaired crash (a handler submitted after "
               "an earlier handler of the same try had failed ran detached from its owner) is replayed 25 / 3000 times per run.",
    technique="Lean 4 proof on the pipeline LTS model (invariant, progress under steering by induction on nesting depth) + verified "
              "trace monitor on recorded executions of the real pip:try, free-running and under steered schedules",
)


def run(ctx):
    pc.run_family(ctx, "C16", "c16", 3000, 200000, ["C16", "C14"], steered=(288 * 3, 288 * 40))


def replay(ctx, path):
    return pc.replay(ctx, path, "C16")
