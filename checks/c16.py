"""C16 — pip:try runs exactly the matching handler and contains the body's failure.

Theorems: lean/Goat/Props/C16.lean (same model and monitor as C14: the try block = body task in a
scope with its own context, handlers submitted after Wait on it; handler submissions are events).
Tie to /repo: harness/cmd/pipeline family c16 (handler subsets x failing handlers x body shapes
enumerated, nested tasks, concurrently failing siblings) and the STEERED family c16s (the gate
controller holds one handler of a try block at its first command until it has seen the fate of the
other; `stall` if nothing happens) and the SCOPE family c16x (the same graphs run in eight kinds of scope: application /
scope.New session / scope.NewChild / the real terminal's isolated scope, each also with the scripts run directly by
Terminal.RunLoop one after another in the session, half of them with the real pip:clear in bodies - so that a try block is
the first pipeline command of a data scope without a task manager), traces decided by the compiled monitor; and a STRUCTURAL tie:
harness/cmd/pipefacts (go/ast) regenerates lean/Goat/Tie/ExtractedPipeC16.lean on every run and the theorems tie_*
of lean/Goat/Tie/PipeC16.lean compare the skeleton of pipc.Try with what the model's try steps assume
(checks/pipe_tie.py).  PARTIAL level as C14.
"""
import pipe_tie
import pipeline_common as pc

META = dict(
    level_claimed=dict(
        category="proof",
        text="Lean 4 theorems over all graphs with try blocks (any nesting, any handler subset, failing handlers, bodies failing "
             "at any command or spawning nested tasks) and all schedules: success_iff_body_ok, fail_iff_body_err, finally_always, "
             "body_ok_iff_completed_or_stopped (a body closes ok only if every command completed or it cleanly stopped its own "
             "scope - Cmd.stop - and what was entered completed; a body with a failing position - returned error, unknown "
             "command name, truncated text - never closes ok), handlers_after_body_and_spawned, body_failure_contained (a task / the root reports an error exactly when a task of "
             "the same context closed with one, and a task closes with an error only with a cause in its own or the root "
             "context); the `if` directions with a TIMED excuse: handler_starts_unless_prior_cause / "
             "finally_starts_unless_prior_cause (a handler that has to run has started when the owner closes, or the trace "
             "splits at the event that sealed its fate - its close without a first command or a refused submission - with a cause of failure strictly before that event), "
             "handlers_submitted_after_body, finally_submitted_first, accepted_handlers_close_before_owner_leaves; and for the "
             "model under every steering policy of the gate controller: stall_free (the controller's time-out never fires: no "
             "`stall` event), held_handler_awaits_live, steered_no_deadlock, steered_all_finish, steered_runs_accepted; the "
             "verified trace monitor (accepts_iff, model_runs_accepted). PARTIAL: the implementation is tied by trace "
             "conformance of a real app (pip:try through the terminal, probe events, handler submissions seen by a wrapper "
             "around the PipRunner service, Err() of the owner task and of the app scope), free-running (sampled) and steered "
             "(288 enumerated combinations per round, 3 rounds quick / 40 thorough). "
             "In addition a structural tie (go/ast, syntactic): theorems tie_* of Goat/Tie/PipeC16.lean fail by name when "
             "pipc.Try moves away from what the model's try steps assume: tie_try_separated_scope (body in scope.New with "
             "its own context, Data/Event/Injector from the parent), tie_try_parent_signed_on, "
             "tie_try_handlers_after_body_wait (the goroutine starts with Wait on the body's scope), "
             "tie_try_handler_order_and_selection (finally first and unconditionally, fail iff catchErr != nil, success iff "
             "catchErr == nil, a refused submission is appended to the parent's base context and ends the goroutine), "
             "tie_try_handlers_in_parent_scope, tie_try_one_namespace, tie_runcommand_scope, tie_task_scope_label.",
        design_ref="DESIGN.md 3 C16"),
    level_note="Partial, as C14. Handlers are observed by their first probe command and by the outcome of their submission. "
               "'Never starts while the other handler is held' is decided through the explicit `stall` event after a generous "
               "wait (10 s), never through 'did not happen within t'. The witness of the repaired crash (a handler submitted after "
               "an earlier handler of the same try had failed ran detached from its owner) is replayed 25 / 3000 times per run. "
               + pipe_tie.META_NOTE % ("C16", "C16", "pipc.Try (its submissions, their scopes and namespaces, the handler "
                                       "goroutine), scope.New/Wait/AddTasks/DoneTask, termexec.RunCommand"),
    technique="Lean 4 proof on the pipeline LTS model (invariant, progress under steering by induction on nesting depth) + verified "
              "trace monitor on recorded executions of the real pip:try, free-running and under steered schedules "
              "+ structural tie (go/ast normal forms of pipc.Try compared with the model's assumptions by Lean `decide`/`rfl`)",
)


def run(ctx):
    try:
        pc.run_family(ctx, "C16", "c16", 3000, 200000, ["C16", "C14"], steered=(288 * 3, 288 * 40), scoped=(3200, 80000),
                      obligations=pipe_tie.obligations, tie_modules=[pipe_tie.tie_module(ctx)])
    finally:
        pipe_tie.restore(ctx)   # a run against a scratch worktree leaves the extracted facts of /repo behind


def replay(ctx, path):
    return pc.replay(ctx, path, "C16")
