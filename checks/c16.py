"""C16 — pip:try runs exactly the matching handler and contains the body's failure.

Theorems: lean/Goat/Props/C16.lean (same model and monitor as C14: the try block = body task in a
scope with its own context, handlers submitted after Wait on it).  Tie to /repo: harness/cmd/pipeline
family c16 (handler subsets x failing handlers x body shapes enumerated, nested tasks, concurrently
failing siblings), traces decided by the compiled monitor.  PARTIAL level as C14.
"""
import pipeline_common as pc

META = dict(
    level_claimed=dict(
        category="proof",
        text="Lean 4 theorems over all graphs with try blocks (any nesting, any handler subset, failing handlers, bodies failing "
             "at any command or spawning nested tasks) and all schedules: success_iff_body_ok, fail_iff_body_err, finally_always "
             "(the `if` directions unless the owner's or the root context already has a cause of failure), "
             "handlers_after_body_and_spawned, body_failure_contained (a task / the root reports an error exactly when a task of "
             "the same context closed with one, and a task closes with an error only with a cause in its own or the root "
             "context), and the verified trace monitor. PARTIAL: the implementation is tied by trace conformance of a real app "
             "(pip:try through the terminal, probe events, Err() of the owner task and of the app scope), sampled.",
        design_ref="DESIGN.md 3 C16"),
    level_note="Partial, as C14. Handlers are observed by their first probe command; a handler whose submission is refused because "
               "the root scope is already done is excused by the clause (cause in the owner's or root context).",
    technique="Lean 4 proof on the pipeline LTS model + verified trace monitor on recorded executions of the real pip:try",
)


def run(ctx):
    pc.run_family(ctx, "C16", "c16", 3000, 200000, ["C16", "C14"], steered=(288, 288 * 20))


def replay(ctx, path):
    return pc.replay(ctx, path, "C16")
