"""C17 — command-line splitting is total, byte-preserving and reversible for quoted input.

Theorems: lean/Goat/Props/C17.lean about lean/Goat/Model/Args.lean.
Correspondence: harness/cmd/args (real varutil.ReadArguments, argscope.InjectArgs) against the
compiled model driver m_args on (a) every byte string up to length N over the nine significant
bytes (exhaustive), (b) random long inputs, rendered argument lists, heredoc shapes and inject
lists, (c) the corpus.  Spec-vs-implementation: `args oracle` evaluates the property's own
clauses on the implementation with expectations known by construction.
"""
import glob
import os

import lib

META = dict(
    level_claimed=dict(
        category="proof",
        text="Lean 4 theorems over all byte strings / argument lists (totality without panic, plain words, quoted "
             "round trip for every byte value, heredoc, continuation, stop-at-newline, named/positional mapping) about "
             "an executable model of ReadArguments/InjectArgs; the model is tied to the Go code on every run by an "
             "exhaustive differential over all strings up to length 7 (quick) / 8 (thorough) of the 9 significant bytes "
             "plus random long inputs, compared byte for byte including the unread remainder of the reader.",
        design_ref="DESIGN.md 3 C17"),
    level_note="Trusted: Lean kernel (axioms propext/Classical.choice/Quot.sound only), the hand-written model's "
               "correspondence to /repo (differential, exhaustive to the stated bound, random beyond), io.Reader/"
               "strings.* semantics as modelled, the datascope used to observe InjectArgs.",
    technique="Lean 4 proof (induction over the byte state machine) + exhaustive differential correspondence",
)

TRIVIAL = r"ok eof=true rest=0 args=\[\]$"


def _run_pair(ctx, go, model, ops, tag):
    a, b = ctx.path(tag + ".impl"), ctx.path(tag + ".model")
    rc, err = ctx.run_lines(go, ["drive"], ops, a)
    if rc != 0:
        ctx.fatal("implementation driver failed rc=%d %s" % (rc, err[-500:]))
    rc, err = ctx.run_lines(model, [], ops, b)
    if rc != 0:
        ctx.fatal("model driver failed rc=%d %s" % (rc, err[-500:]))
    return a, b


def _classify(op, impl, model):
    """is a model/implementation difference by itself a counterexample to the property?"""
    if impl.endswith("panic") or impl == "panic":
        return True, "the splitter panicked (totality clause)"
    return False, ""


def _oracle(ctx, go, n):
    out = ctx.path("oracle.out")
    rc, err = ctx.run_lines(go, ["oracle", str(n)], None, out)
    if rc != 0:
        ctx.fatal("oracle run failed: " + err[-500:])
    fails, summary = [], ""
    for l in open(out):
        if l.startswith("FAIL "):
            fails.append(l.rstrip("\n"))
        elif l.startswith("oracle "):
            summary = l.strip()
    for tok in summary.split()[1:]:
        k, _, v = tok.partition("=")
        if k not in ("cases", "fails"):
            ctx.histogram["oracle:" + k] += int(v)
        elif k == "cases":
            ctx.evaluations += int(v)
    ctx.extra["oracle_summary"] = summary
    return fails


def _report_oracle_fails(ctx, fails):
    for f in fails[:3]:
        _, cls, hexin, rest = f.split(" ", 3)
        op = ("inject " if cls == "inject" else "split ") + hexin
        ctx.violation("impl-vs-spec", "clause '%s' of the property fails on the implementation: %s" % (cls, rest),
                      lines=[op] if cls != "inject" else [], annotations=["oracle: " + f], concrete=True)


def run(ctx):
    failed = ctx.lean_obligations()
    go = ctx.build_go("args")
    model = ctx.build_model("m_args")
    n_enum = ctx.pick(7, 8)
    n_rand = ctx.pick(20000, 400000)
    ctx.rule = ("exhaustive: every byte string of length <= %d over {sp,tab,nl,\",\\,=,<,a,0xC3}; random: %d ops "
                "(long inputs with arbitrary bytes, rendered argument lists, heredoc shapes, inject lists) from "
                "VERIF_SEED; non-trivial = result is not `no arguments at EOF`; distinct = distinct input lines"
                % (n_enum, n_rand))
    # --- corpus + random stream (one result line per op)
    ops = ctx.path("rand.ops")
    with open(ops, "w") as h:
        for f in sorted(glob.glob(os.path.join(lib.ROOT, "corpus", "C17", "*.ops"))):
            h.writelines(l for l in open(f) if l.strip() and not l.startswith("#"))
    rc, err = ctx.run([go, "gen", str(n_rand)], stdout=ctx.path("gen.ops"))
    with open(ops, "a") as h:
        h.write(open(ctx.path("gen.ops")).read())
    a, b = _run_pair(ctx, go, model, ops, "rand")
    mism = ctx.diff_streams(ops, a, b)
    # account distinct non-trivial cases of the random stream
    with open(ops) as fo, open(a) as fa:
        for i, (o, r) in enumerate(zip(fo, fa)):
            kind = o.split(" ", 1)[0].strip() + ":" + r.split(" ", 1)[0].strip()
            ctx.note_case(o, nontrivial=not r.startswith("ok eof=true rest=0 args=[]"), kind=kind)
            if i < 3:
                ctx.samples.append(dict(op=o.strip(), impl=r.strip()))
    # --- exhaustive stream (self-describing lines `<hex> <result>`)
    eops = ctx.path("enum.ops")
    open(eops, "w").write("enum %d\n" % n_enum)
    ea, eb = _run_pair(ctx, go, model, eops, "enum")
    emism = ctx.diff_streams(None, ea, eb)
    total = ctx.count_lines(ea)
    nontriv = ctx.grep_count(TRIVIAL, ea, invert=True)
    ctx.extra["exhaustive_strings"] = total
    ctx.extra["exhaustive_nontrivial"] = nontriv
    ctx.exhaustive = False  # the enumerated space is complete to the bound, the property's domain is unbounded
    ctx.histogram["enum:strings"] = total
    ctx.histogram["enum:panic"] = ctx.grep_count(r" panic$", ea)
    ctx.histogram["enum:err"] = ctx.grep_count(r" err eof=", ea)
    # distinct non-trivial: every enumerated string is distinct by construction
    base = len(ctx.distinct)
    ctx.extra["distinct_nontrivial_breakdown"] = dict(random=base, enumerated=nontriv)
    # --- Spec vs implementation: the property's clauses evaluated directly on the real code
    ofails = _oracle(ctx, go, ctx.pick(6000, 200000))
    # --- verdicts
    if ofails:
        _report_oracle_fails(ctx, ofails)
    concrete_found = bool(ofails)
    for idx, op, ia, mb in mism[:3]:
        conc, why = _classify(op, ia, mb)
        concrete_found |= conc
        ctx.violation("impl-vs-model" if not conc else "impl-vs-spec",
                      "implementation and model differ on op %d%s" % (idx, (": " + why) if why else ""),
                      lines=[op], annotations=["impl: " + ia, "model: " + mb], concrete=conc or bool(ofails))
    for idx, _, ia, mb in emism[:3]:
        hexin = ia.split(" ", 1)[0] if ia else mb.split(" ", 1)[0]
        conc, why = _classify("", ia, mb)
        concrete_found |= conc
        ctx.violation("impl-vs-model" if not conc else "impl-vs-spec",
                      "implementation and model differ on enumerated input %s%s" % (hexin, (": " + why) if why else ""),
                      lines=["split " + hexin], annotations=["impl: " + ia, "model: " + mb],
                      concrete=conc or bool(ofails))
    if ctx.histogram["enum:panic"] and not (mism or emism):
        ctx.violation("impl-vs-spec", "implementation and model both panic", concrete=True)
    if failed:
        ctx.obligation_violations(failed, searcher=lambda: concrete_found)
    if not ctx.quick():
        ctx.leanchecker(["Goat.Props.C17"])
        if any(not o["ok"] for o in ctx.obligations) and not failed:
            ctx.obligation_violations([o for o in ctx.obligations if not o["ok"]])
    # distinct_nontrivial counts enumerated strings too (all distinct by construction)
    ctx.distinct_extra = nontriv


def replay(ctx, path):
    go = ctx.build_go("args")
    model = ctx.build_model("m_args")
    ops = ctx.path("replay.ops")
    open(ops, "w").write("\n".join(lib.replay_ops(path)) + "\n")
    a, b = _run_pair(ctx, go, model, ops, "replay")
    rc = 0
    for o, x, y in zip(open(ops), open(a), open(b)):
        print("op    ", o.strip())
        print("impl  ", x.strip())
        print("model ", y.strip())
        if x != y or x.strip().endswith("panic"):
            rc = 1
    print("replay:", "still failing" if rc else "implementation and model agree, no panic")
    return rc
