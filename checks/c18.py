"""C18 — environment values reach sandbox shells verbatim, with no shell interpretation.

Theorems: lean/Goat/Props/C18.lean about lean/Goat/Model/EnvScript.lean (the two start-up script
builders, the name pattern, and a mini-shell for exactly the emitted fragment).

Correspondence, every run, against the current /repo:
 (1) builder vs model: the real dcmd.InitSequence and sshsb.(*SSHSandbox).initSequence (through the
     verif-tagged export) against the Lean builders, byte for byte, on the same (envs, tag) — the
     random tag and Go's map order are recovered from the Go output and handed to the model;
     the real envs.Environments.Set/SetAll against the Lean name recogniser.
 (2) mini-shell vs the REAL /bin/sh: every generated script is executed by /bin/sh with the
     entrypoint `env -0`; the environment it dumps is compared with what the mini-shell computes;
     exit status 0, empty stderr, an untouched canary directory and no executed trip-wire command
     (a PATH directory holds a trip-wire for every word over {a,E,O,F} up to length 5 and `trip`).
 (3) the property itself on the implementation alone (oracle inside the Go harness): every variable
     arrives as strip-trailing-newlines(value), names are accepted iff plain identifiers, the tag
     is EOF + 10 capitals.
Values: exhaustive over {$ ` " ' \\ nl ) a E O F} to length 4 (quick) / 5 (thorough), 48 per shell
invocation, through both builders; random beyond (long strings over the alphabet, snippets such as
$(trip), `trip`, $PRESET, EOF lines, arbitrary bytes 1..255), 1-6 variables from a pool of names
with shell meaning (IFS, HOME, ENV, PWD, set, export, cat, ...).
"""
import glob
import os
import re
import subprocess

import lib

META = dict(
    level_claimed=dict(
        category="proof",
        text="PARTIAL. Lean 4 theorems for all environment lists, tags, entrypoints and initial shell states: running "
             "either start-up script (container, SSH) in the mini-shell equals 'set and export every variable to exactly "
             "strip-trailing-newlines(value), then go on with the entrypoint' (so $, backquote, quotes, backslash, newline, "
             "`)` and EOF-like lines are data; nothing else is set; no variable can alter another), names that are not "
             "plain identifiers are rejected by Set, the recogniser is the language of the regexp; the pre-da68e47 SSH "
             "builder is disproved (unquoted_expands). The theorems are relative to the mini-shell (POSIX semantics of "
             "exactly the emitted fragment); that the real /bin/sh implements it is validated on every run by executing "
             "every generated script (exhaustive to the stated bound, random beyond) and is part of the trusted base. "
             "The differential run found one deviation of the real shell, recorded as KF-C18-1 (dash 0.5.12 drops a byte "
             ">= 0x80 after a prefix of the tag at a line start): disproved for the dash dialect in Lean, _partial theorems "
             "outside that class.",
        design_ref="DESIGN.md 3 C18"),
    level_note="Trusted: Lean kernel (axioms propext/Classical.choice/Quot.sound only); the hand-written builders' "
               "correspondence to /repo (byte-exact differential on every run); /bin/sh (dash) implementing the mini-shell "
               "fragment - validated by executing every generated script, not proved; `cat`, `env -0` of coreutils. "
               "Assumed, not proved: the random 10-letter tag is not a line of any value (26^-10 per line with a math/rand "
               "source); variables named PATH or OPTIND are outside (they change how the shell runs the script itself); "
               "values contain no NUL.",
    technique="Lean 4 proof (induction over the variable blocks of the script, line-level mini-shell) + byte-exact builder "
              "differential + execution of every generated script by the real /bin/sh with canaries",
)

ENTRY_SSH = "656e76202d30"
KINDS = ("container", "ssh")


def _abstract(resolved):
    """abstract op (no tag) of a resolved `case` line; other ops are unchanged"""
    f = resolved.split(" ")
    if f[0] == "case" and len(f) == 5:
        return " ".join([f[0], f[1], f[2], f[4]])
    return resolved


def _nvars(op):
    f = op.split(" ")
    if f[0] != "case" or f[-1] == "_":
        return 0
    return f[-1].count(",") + 1


def _run(ctx, go, model, ops_path, tag, workers=None):
    """run both drivers; returns list of records (abstract, resolved, impl lines, model lines), oracle lines"""
    impl, res, orc, mod = (ctx.path(tag + s) for s in (".impl", ".resolved", ".oracle", ".model"))
    args = ["drive", "-resolved", res, "-oracle", orc, "-work", "/var/tmp"]
    if workers:
        args += ["-workers", str(workers)]
    rc, err = ctx.run_lines(go, args, ops_path, impl)
    if rc != 0:
        ctx.fatal("implementation driver failed rc=%d %s" % (rc, err[-800:]))
    rc, err = ctx.run_lines(model, [], res, mod)
    if rc != 0:
        ctx.fatal("model driver failed rc=%d %s" % (rc, err[-800:]))
    rd = lambda p: [l.rstrip("\n") for l in open(p, errors="replace")]
    ops = [l for l in rd(ops_path) if l.strip() and not l.startswith("#")]
    resolved, a, b = rd(res), rd(impl), rd(mod)
    if len(ops) != len(resolved):
        ctx.fatal("driver answered %d ops for %d op lines" % (len(resolved), len(ops)))
    recs, i, j = [], 0, 0
    for op, r in zip(ops, resolved):
        kind = op.split(" ", 1)[0]
        na, nb = (2, 3) if kind == "case" else (1, 2) if kind == "raw" else (1, 1)
        if i + na > len(a) or j + nb > len(b):
            ctx.fatal("result streams are shorter than the op stream (impl %d, model %d lines)" % (len(a), len(b)))
        recs.append((op, r, a[i:i + na], b[j:j + nb]))
        i += na
        j += nb
    if i != len(a) or j != len(b):
        ctx.fatal("result streams are longer than the op stream")
    oracle = rd(orc)
    return recs, oracle


def _compare(ctx, recs, count=True):
    """three-way comparison; returns (diffs, known) — diffs: list of dict(op, what, impl, model, repo)"""
    diffs, known = [], []
    for op, r, a, b in recs:
        f = op.split(" ")
        kind = f[0] + (":" + f[1] if f[0] == "case" else "")
        repo_code = f[0] == "name" or (f[0] == "case" and f[1] in KINDS)
        if count:
            ctx.evaluations += len(a)
        if f[0] == "selfcheck":
            if a[0] != "selfcheck ok" or b[0] != "selfcheck ok":
                ctx.fatal("self-check of the drivers failed: impl=%r model=%r" % (a[0], b[0]))
            continue
        if f[0] == "name":
            if count:
                ctx.histogram["name:" + a[0].split(" ")[0]] += 1
            if a[0] != b[0]:
                diffs.append(dict(op=op, what="name", impl=a[0], model=b[0], repo=True))
            continue
        if f[0] == "case":
            if a[0] != b[0]:
                diffs.append(dict(op=op, what="script", impl=a[0], model=b[0], repo=repo_code))
            elif count:
                ctx.histogram[kind + ":script-equal"] += 1
            a, b = a[1:], b[1:]
        real, posix, dash = a[0], b[0], b[1][len("dash-"):]
        if posix.startswith("vars"):
            if real == posix:
                if count:
                    ctx.histogram[kind + ":shell-equal"] += 1
            elif real == dash:
                known.append(dict(op=op, real=real, posix=posix))
                if count:
                    ctx.histogram[kind + ":shell-known-dash-class"] += 1
            else:
                diffs.append(dict(op=op, what="shell", impl=real, model=posix, repo=repo_code))
        elif count:
            # outside the modelled fragment: nothing is claimed, nothing is compared
            ctx.histogram["%s:model-%s:real-%s" % (kind, posix.split(" ")[0], real.split(" ")[0])] += 1
    return diffs, known


def _shell_id():
    try:
        path = os.path.realpath("/bin/sh")
        ver = subprocess.run(["dpkg-query", "-W", "-f", "${Version}", os.path.basename(path)],
                             stdout=subprocess.PIPE, stderr=subprocess.DEVNULL, text=True).stdout.strip()
        return "%s %s" % (path, ver or "version unknown")
    except Exception:
        return "/bin/sh"


def _minimise(ctx, go, model, op, what):
    """drop variables of a failing case while it still fails the same way: what = "oracle:<clause>" (the
    property oracle still prints FAIL <clause>) or the kind of model difference ("script", "shell", "name")"""
    f = op.split(" ")
    if f[0] != "case" or f[-1] == "_":
        return op
    items = f[-1].split(",")
    n = [0]

    def fails(cand):
        n[0] += 1
        p = ctx.path("min%d.ops" % n[0])
        open(p, "w").write(" ".join(f[:-1] + [",".join(cand)]) + "\n")
        recs, oracle = _run(ctx, go, model, p, "min%d" % n[0], workers=1)
        if what.startswith("oracle:"):
            return any(l.startswith("FAIL " + what[7:] + " ") for l in oracle)
        d, _ = _compare(ctx, recs, count=False)
        return any(x["what"] == what for x in d)

    if len(items) > 1:
        items = ctx.ddmin(items, fails)
    return " ".join(f[:-1] + [",".join(items)])


def run(ctx):
    failed = ctx.lean_obligations()
    go = ctx.build_go("envscript")
    model = ctx.build_model("m_envscript")
    deep = (not ctx.quick()) or bool(failed)      # a broken proof is followed by the deep search (DESIGN 1.3)
    vlen = 5 if deep else 4
    nlen = 4
    n_rand = 40000 if deep else 5000
    batch = 48
    shell = _shell_id()
    ctx.extra["real_shell"] = shell
    ctx.rule = ("exhaustive: every value of length <= %d over {$,`,\",',\\,nl,),a,E,O,F} through both builders (%d values "
                "per shell invocation) and every name of length <= %d over {A,z,_,0,sp,;,=,$,nl,0xC3,-}; random: %d ops "
                "from VERIF_SEED (cases of 0-6 variables from a pool of shell-meaningful names with long/snippet/"
                "arbitrary-byte values, names, the unquoted reference template, near-miss raw scripts); every script is "
                "compared byte for byte with the model's and executed by the real %s; non-trivial = a case with at "
                "least one variable, or a name; distinct = distinct op lines, enumerated values counted per (kind, value)"
                % (vlen, batch, nlen, n_rand, shell))
    # --- op stream: self-check, known-finding witnesses, corpus, exhaustive, random
    kf = ctx.known_findings()
    witnesses = [w for f in kf for w in f.get("witness", [])]
    ops = ctx.path("all.ops")
    with open(ops, "w") as h:
        h.write("selfcheck\n")
        for w in witnesses:
            h.write(w + "\n")
        for f in sorted(glob.glob(os.path.join(lib.ROOT, "corpus", "C18", "*.ops"))):
            h.writelines(l for l in open(f) if l.strip() and not l.startswith("#"))
    ctx.run([go, "enum", str(vlen), str(nlen), str(batch)], stdout=ctx.path("enum.ops"), check=True)
    ctx.run([go, "gen", str(n_rand)], stdout=ctx.path("gen.ops"), check=True)
    n_enum_values = 0
    with open(ops, "a") as h:
        for l in open(ctx.path("enum.ops")):
            h.write(l)
            n_enum_values += _nvars(l.rstrip("\n"))
        h.write(open(ctx.path("gen.ops")).read())
    ctx.log("running %d op lines through the builders, /bin/sh and the model" % ctx.count_lines(ops))
    recs, oracle = _run(ctx, go, model, ops, "all")
    diffs, known = _compare(ctx, recs)
    # --- accounting
    n_shells = 0
    for idx, (op, r, a, b) in enumerate(recs):
        f = op.split(" ")
        if f[0] in ("case", "raw"):
            n_shells += 1
        enumerated = f[0] == "case" and _nvars(op) > 6
        if not enumerated:
            ctx.note_case(op, nontrivial=(f[0] == "name" or _nvars(op) > 0 or f[0] == "raw"),
                          kind="op:" + f[0] + (":" + f[1] if f[0] == "case" else ""))
        else:
            ctx.histogram["op:case:%s:enumerated-batch" % f[1]] += 1
        if 1 + len(witnesses) <= idx < 4 + len(witnesses):
            ctx.samples.append(dict(op=op, resolved=r[:400], impl=[x[:400] for x in a], model=[x[:400] for x in b]))
    ctx.distinct_extra = n_enum_values
    ctx.extra["exhaustive_values_per_builder"] = n_enum_values // 2
    ctx.extra["exhaustive_value_length"] = vlen
    ctx.extra["exhaustive_names"] = ctx.grep_count(r"^name ", ctx.path("enum.ops"))
    ctx.extra["shell_invocations"] = n_shells
    ctx.exhaustive = False   # complete to the bound; the property's domain is unbounded
    for l in oracle:
        if l.startswith("INFO "):
            ctx.histogram["oracle:" + l[5:]] += 1
        elif l.startswith("KNOWN "):
            ctx.histogram["oracle:known-" + l.split(" ")[1]] += 1
    prio = {"deliver": 0, "name": 1, "build": 2, "tagshape": 3, "tagfresh": 4}
    ofails = sorted((l for l in oracle if l.startswith("FAIL ")), key=lambda l: prio.get(l.split(" ")[1], 9))
    ctx.histogram["oracle:fail"] = len(ofails)
    # --- known finding KF-C18-1: replay of the witnesses (they are the first ops after the self-check)
    wit = recs[1:1 + len(witnesses)]
    for fnd in kf:
        reproduced = []
        for op, r, a, b in wit:
            if op in fnd.get("witness", []) and len(b) == 3 and b[1].startswith("vars") \
                    and a[1] != b[1] and a[1] == b[2][len("dash-"):]:
                reproduced.append(op)
        if reproduced:
            ctx.known(fnd["id"], "the real %s loses a byte >= 0x80 that follows a prefix of the here-document tag at the "
                                 "start of a value line (witness A=45c3a9 arrives as 45a9; %d further generated cases of "
                                 "the class this run, all as predicted by the dash dialect of the model)"
                      % (shell, max(0, len(known) - len(reproduced))))
        else:
            ctx.notes.append("%s: witness not reproduced on this machine's /bin/sh (%s) — the shell delivers the value "
                             "exactly or the witness is outside the model" % (fnd["id"], shell))
    if known and not kf:
        # the class is only tolerated while it is listed
        for k in known[:3]:
            diffs.append(dict(op=k["op"], what="shell", impl=k["real"], model=k["posix"], repo=True))
    # --- verdicts
    concrete = False
    seen_ops = set()
    for l in ofails[:3]:
        m = re.match(r"FAIL (\S+) (case \S+ \S+ \S+ \S+|name \S+)(.*)", l)
        cls, rop, rest = (m.group(1), m.group(2), m.group(3)) if m else ("?", "", l)
        if cls == "tagfresh":   # needs two builds in one process: the single case cannot be minimised alone
            aop = _abstract(rop)
        else:
            aop = _minimise(ctx, go, model, _abstract(rop), "oracle:" + cls) if rop else ""
        seen_ops.add(_abstract(rop))
        concrete = True
        ctx.violation("impl-vs-spec", "clause '%s' of the property fails on the implementation (real builders, real %s): %s"
                      % (cls, shell, rest.strip()[:600]),
                      lines=[aop] if aop else [], annotations=["oracle: " + l[:1500]], concrete=True)
    for d in diffs[:4]:
        if d["op"] in seen_ops:
            continue
        if d["repo"]:
            detail = ("the %s of /repo and the model differ" % ("name check" if d["what"] == "name" else
                                                               "start-up script" if d["what"] == "script" else
                                                               "effect of the start-up script in /bin/sh"))
        else:
            detail = ("the real %s and the mini-shell differ on a script of the modelled fragment (the theorems are "
                      "relative to the mini-shell: this invalidates the trusted-base assumption, not /repo)" % shell)
        ctx.violation("impl-vs-model", detail, lines=[_minimise(ctx, go, model, d["op"], d["what"])],
                      annotations=["impl: " + d["impl"][:1500], "model: " + d["model"][:1500]], concrete=concrete)
    if failed:
        ctx.obligation_violations(failed, searcher=lambda: concrete)
    if not ctx.quick():
        ctx.leanchecker(["Goat.Props.C18"])
        if any(not o["ok"] for o in ctx.obligations) and not failed:
            ctx.obligation_violations([o for o in ctx.obligations if not o["ok"]])
    # --- evidence texts
    ctx.assumptions += [
        "the here-document tag (EOF + 10 letters from varutil.RandString, math/rand seeded from the clock) is not a line "
        "of any value: hypothesis TagFree of the theorems, a 26^-10 event per value line for a value chosen independently "
        "of the tag; an adversary who can predict math/rand could violate it (the tag's shape is checked on every case)",
        "variable names PATH and OPTIND are excluded (ValidKeys): assigning PATH changes where the shell finds `cat` for "
        "the following variables, dash rejects a non-numeric OPTIND; observed on the real shell, not a property of values",
        "values contain no NUL byte (a shell variable cannot hold one; dash drops it)",
        "SSH certificate lines of dcmd.InitSequence are outside the property (empty certificate in every case)",
    ]
    ctx.trusted_base += [
        "the real /bin/sh (%s) implements the mini-shell fragment (blank, set -e, set +x, K=$(cat <<'T' ... T ), export K): "
        "validated on every run by executing every generated script and comparing the dumped environment, not proved; "
        "known deviation KF-C18-1 modelled as dialect `dash`" % shell,
        "coreutils `cat` copies its input, `env -0` prints the environment; os/exec delivers stdin and the initial "
        "environment unchanged",
        "recovery of the random tag and of Go's map order from the builder output (harness), checked by re-building the "
        "script in the model from the recovered values and comparing all bytes",
    ]
    zero = [k for k in ("oracle:fail",) if ctx.histogram.get(k, 0) == 0]
    ctx.notes.append("branches with zero hits this run: %s" % (", ".join(zero) or "none"))


def replay(ctx, path):
    go = ctx.build_go("envscript")
    model = ctx.build_model("m_envscript")
    ops = ctx.path("replay.ops")
    open(ops, "w").write("\n".join(lib.replay_ops(path)) + "\n")
    recs, oracle = _run(ctx, go, model, ops, "replay", workers=2)
    diffs, known = _compare(ctx, recs, count=False)
    for op, r, a, b in recs:
        print("op      ", op)
        print("resolved", r)
        for x in a:
            print("impl    ", x)
        for x in b:
            print("model   ", x)
    for l in oracle:
        print("oracle  ", l)
    bad = bool(diffs) or any(l.startswith("FAIL ") for l in oracle)
    if known and not bad:
        print("replay: inside the known defect class KF-C18-1 (real shell = dash dialect of the model)")
    print("replay:", "still failing" if bad else "builders, real shell and model agree; the property oracle passes")
    return 1 if bad else 0
