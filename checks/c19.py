"""C19 — template providers: layered definitions, isolated views, cache-transparent.

Theorems: lean/Goat/Props/C19.lean about lean/Goat/Model/Templates.lean (set algebra of template
definitions, both providers' Base/Layout/View with their caches, a guarded-map transition system).
Correspondence (harness/cmd/tmpl):
  (a) differential  real providers (`tmpl drive`) vs compiled model (`m_tmpl`) on generated cases, each in
      the four configurations html/text x caching on/off; answers compared as sorted definition lists;
  (b) oracle        the property's clauses on the implementation alone against a REFERENCE RENDERER built
      directly with html/template / text/template from the same files: layering (definitions and rendered
      output of every defined name), asking twice, isolation markers, caching on = caching off;
  (c) concurrency   first use from 2..32 goroutines in CHILD PROCESSES (exit status and stderr observed),
      plain build and race-detector build, look-ups perturbed through the `tmpl.lookup` yield point.
No known findings: the two defects this check exposed (executing a cached html base/layout broke later
views; view cache keyed by a joined string) are repaired (/repo 0187fed, 7d60dbb) and listed as `fixed` in
known_findings.d/C19.json.  Their witnesses stay in corpus/C19 and must pass: implementation = model (the
model is the providers as they are) and caching on = caching off, like every other case.
"""
import concurrent.futures
import glob
import os
import random
import re

import lib

META = dict(
    level_claimed=dict(
        category="proof",
        text="Lean 4 theorems over all template file sets, all request sequences, both providers and every "
             "variant of the code (as it is / repaired): layering (view over layout over helpers, blank bodies do "
             "not override), isolation of views and layouts, asking twice, answers with caching on = answers with "
             "caching off = the fresh build (proved under the two decidable defect predicates of KF-C19-1/2, "
             "disproved without them by concrete witnesses, proved without hypotheses for the repaired variant); "
             "guarded cache-map protocol: no fatal outcome and mutual exclusion for any number of goroutines and "
             "every schedule, fatal outcome reachable in the pinned (unlocked look-up) protocol. The model is tied "
             "to the Go code on every run by a differential over generated file sets/request orders in all four "
             "configurations, an oracle against a reference renderer built with the standard template packages, "
             "and concurrent first-use runs in child processes (plain and race-detector builds).",
        design_ref="DESIGN.md 3 C19"),
    level_note="PARTIAL: the layering/isolation/ask-twice/cache theorems are proofs about the model; what a template "
               "RENDERS to is delegated to Go's html/template and text/template (the reference renderer is the oracle, "
               "the model stops at the set of definitions); the data-race part rests on the transition-system proof "
               "(map read / write-begin / write-end as actions under an RW lock whose state is derived from the program "
               "counters) plus the child-process runs - that the Go statements really sit inside the critical sections "
               "is observed by the race detector, not proved. Trusted: Lean kernel, the hand-written model and its "
               "differential tie, Go's template packages and memfs directory order, the harness.",
    technique="Lean 4 proof (cache invariant by induction over request sequences; LTS invariant) + differential "
              "correspondence + reference-renderer oracle + child-process concurrency runs",
)

REQ = ("base", "layout", "view")


# ------------------------------------------------------------------ op-line helpers
def _unhex(s):
    return "" if s == "-" else bytes.fromhex(s).decode("utf-8", "replace")


def _blocks(lines):
    """split op lines into cases (each starts with `new`)"""
    res = []
    for l in lines:
        if l.startswith("new "):
            res.append([l])
        elif res:
            res[-1].append(l)
    return res


def _classes(block):
    """the two formerly defective request classes a block falls into (coverage histogram only): a cached html
    base/layout object is executed; two view requests whose joined names `layout:view` coincide"""
    f = block[0].split()
    kind, cached = f[1], f[2] == "on"
    cls = set()
    seen = {}
    for l in block[1:]:
        t = l.split()
        if t[0] in ("base", "layout") and t[-1] == "exec" and kind == "html" and cached:
            cls.add("exec")
        if t[0] == "view" and len(t) >= 3 and cached:
            lay, v = _unhex(t[1]) or "default", _unhex(t[2])
            if not v:
                continue
            k = lay + ":" + v
            if k in seen and seen[k] != (lay, v):
                cls.add("colon")
            seen[k] = (lay, v)
    return cls


def _twin(block):
    f = block[0].split()
    return ["new %s %s" % (f[1], "off" if f[2] == "on" else "on")] + block[1:]


def _req_answers(block, answers):
    return [a for l, a in zip(block, answers) if l.split()[0] in REQ]


# ------------------------------------------------------------------ running the two sides
class Sides:
    def __init__(self, ctx, go, model):
        self.ctx, self.go, self.model = ctx, go, model
        self.n = 0

    def run(self, lines, tag=None):
        """returns (impl answers, model answers) for a list of op lines"""
        self.n += 1
        tag = tag or "t%d" % self.n
        ops = self.ctx.path(tag + ".ops")
        with open(ops, "w") as h:
            h.write("\n".join(lines) + "\n")
        return self.run_file(ops, tag)

    def run_file(self, ops, tag):
        a, b = self.ctx.path(tag + ".impl"), self.ctx.path(tag + ".model")
        rc, err = self.ctx.run_lines(self.go, ["drive"], ops, a, timeout=1800)
        if rc != 0:
            self.ctx.fatal("implementation driver failed rc=%d %s" % (rc, err[-500:]))
        rc, err = self.ctx.run_lines(self.model, [], ops, b, timeout=1800)
        if rc != 0:
            self.ctx.fatal("model driver failed rc=%d %s" % (rc, err[-500:]))
        return [l.rstrip("\n") for l in open(a)], [l.rstrip("\n") for l in open(b)]

    def impl_only(self, lines):
        self.n += 1
        ops, a = self.ctx.path("i%d.ops" % self.n), self.ctx.path("i%d.impl" % self.n)
        with open(ops, "w") as h:
            h.write("\n".join(lines) + "\n")
        rc, err = self.ctx.run_lines(self.go, ["drive"], ops, a, timeout=600)
        if rc != 0:
            self.ctx.fatal("implementation driver failed rc=%d %s" % (rc, err[-500:]))
        return [l.rstrip("\n") for l in open(a)]


# ------------------------------------------------------------------ the check
def _setup(ctx):
    """build both sides (the model driver without arguments = the providers as they are)"""
    for f in ctx.known_findings():
        ctx.fatal("known_findings.d lists %s for C19, but this check has no known-finding handling (both recorded "
                  "defects are repaired); a new finding needs its defect predicate here and in Props/C19.lean" % f.get("id"))
    return Sides(ctx, ctx.build_go("tmpl"), ctx.build_model("m_tmpl"))


def _shards(ctx, sides, n_cases, shards):
    """generate and run the differential in parallel shards; returns list of (ops_path, impl, model)"""
    per = max(1, n_cases // shards)

    def one(k):
        env = ctx.goenv()
        env["VERIF_SEED"] = str(ctx.seed * 1000 + k)
        ops = ctx.path("gen%d.ops" % k)
        rc, err = ctx.run([sides.go, "gen", str(per)], stdout=ops, env=env)
        if rc != 0:
            ctx.fatal("generator failed: " + err[-300:])
        impl, model = sides.run_file(ops, "gen%d" % k)
        return ops, impl, model

    with concurrent.futures.ThreadPoolExecutor(max_workers=shards) as ex:
        return list(ex.map(one, range(shards)))


def _account(ctx, block, answers):
    ok = [a for a in answers if a.startswith("defs ") and a != "defs -"]
    err = [a for a in answers if a == "err"]
    f = block[0].split()
    ctx.note_case("\n".join(block), nontrivial=bool(ok) and len(set(ok)) > 1,
                  kind="case:%s:%s" % (f[1], f[2]))
    for l, a in zip(block, answers):
        t = l.split()
        if t[0] in REQ:
            ctx.histogram["req:%s%s" % (t[0], ":exec" if t[-1] == "exec" else "")] += 1
            ctx.histogram["ans:" + a.split(" ", 1)[0]] += 1
        elif t[0] == "file":
            ctx.histogram["file" + (":bad" if t[-1] == "bad" else "")] += 1
    if err and ok:
        ctx.histogram["case:ok-and-err"] += 1


def _judge_block(ctx, sides, block, why):
    """a block on which implementation and model differ: minimise, then ask the property (Spec vs Impl)"""
    def fails(lines):
        i, m = sides.run(lines)
        return i != m
    # while minimising a block that already fails, a request that never returns is given 3 s instead of 20 s
    # (the minimised block is run again with the generous watchdog below)
    os.environ["TMPL_WATCHDOG_MS"] = "3000"
    try:
        small = ctx.ddmin(block, fails, keep_prefix=1) if len(block) <= 120 else block
    finally:
        os.environ.pop("TMPL_WATCHDOG_MS", None)
    impl, model = sides.run(small)
    ann = []
    for l, x, y in zip(small, impl, model):
        if x != y:
            ann += ["op: " + l, "impl: " + x, "model: " + y]
            break
    # Spec verdict on the implementation: no panic; caching flipped gives the same answers
    concrete, detail = False, why
    if any(a == "panic" for a in impl):
        concrete, detail = True, why + "; the provider panicked"
    if not concrete:
        other = sides.impl_only(_twin(small))
        if _req_answers(small, impl) != _req_answers(small, other):
            concrete = True
            detail = why + "; the implementation answers differently with caching on and off on this input"
            ann += ["spec: same answers with caching on and off", "impl(twin): " + " | ".join(_req_answers(small, other))]
            small = small + _twin(small)
    ctx.violation("impl-vs-spec" if concrete else "impl-vs-model", detail, lines=small, annotations=ann, concrete=concrete)
    return concrete


def _oracle(ctx, sides, n, shards):
    per = max(1, n // shards)
    args = ["oracle", str(per)]

    def one(k):
        env = ctx.goenv()
        env["VERIF_SEED"] = str(ctx.seed * 1000 + 500 + k)
        out = ctx.path("oracle%d.out" % k)
        rc, err = ctx.run([sides.go] + args, stdout=out, env=env, timeout=3000)
        if rc != 0:
            ctx.fatal("oracle run failed: " + err[-500:])
        return out

    with concurrent.futures.ThreadPoolExecutor(max_workers=shards) as ex:
        outs = list(ex.map(one, range(shards)))
    fails = []
    for out in outs:
        cur = None
        for l in open(out):
            l = l.rstrip("\n")
            if l.startswith("FAIL "):
                cur = dict(head=l, ops=[])
                fails.append(cur)
            elif l.startswith("| ") and cur is not None:
                cur["ops"].append(l[2:])
            elif l.startswith("oracle "):
                for tok in l.split()[1:]:
                    k, _, v = tok.partition("=")
                    if k == "evals":
                        ctx.evaluations += int(v)
                    ctx.histogram["oracle:" + k] += int(v)
    return fails


def _stress(ctx, go, rounds, tag):
    out = ctx.path("stress_%s.out" % tag)
    rc, err = ctx.run([go, "stress", str(rounds)], stdout=out, timeout=3000)
    if rc != 0:
        ctx.fatal("stress driver failed: " + err[-300:])
    res = []
    for l in open(out):
        m = re.match(r"child kind=(\w+) g=(\d+) status=(\S+) concurrent-map=(\w+) data-race=(\w+)(.*)", l)
        if m:
            res.append(dict(kind=m.group(1), g=int(m.group(2)), status=m.group(3), fatal=m.group(4) == "true",
                            race=m.group(5) == "true", rest=m.group(6).strip()))
    return res


def _lts(ctx, sides, n_sched):
    """the transition system on random schedules (model only): guarded never fatal, pinned sometimes"""
    rnd = random.Random(ctx.seed)
    lines = ["lts 0 1 2 0,0,0,0,1"]
    for _ in range(n_sched):
        n = rnd.choice([2, 3, 4, 8, 16, 32])
        sched = ",".join(str(rnd.randrange(n)) for _ in range(rnd.randrange(10, 200)))
        lines.append("lts 1 %d %d %s" % (rnd.randrange(2), n, sched))
        lines.append("lts 0 1 %d %s" % (n, sched))
    ops, out = ctx.path("lts.ops"), ctx.path("lts.model")
    open(ops, "w").write("\n".join(lines) + "\n")
    rc, err = ctx.run_lines(sides.model, [], ops, out)
    res = [l.strip() for l in open(out)]
    guarded = [r for l, r in zip(lines, res) if l.startswith("lts 1")]
    pinned = [r for l, r in zip(lines, res) if l.startswith("lts 0")]
    ctx.extra["lts_schedules"] = dict(guarded=len(guarded), guarded_fatal=sum(r == "fatal" for r in guarded),
                                      pinned=len(pinned), pinned_fatal=sum(r == "fatal" for r in pinned),
                                      witness_schedule="0,0,0,0,1 -> " + res[0])
    return res[0] == "fatal" and not any(r == "fatal" for r in guarded)


def run(ctx):
    failed = ctx.lean_obligations()
    sides = _setup(ctx)
    shards = ctx.pick(6, 12)
    n_cases = ctx.pick(1400, 24000)
    ctx.rule = ("cases = random template file sets on memfs (template names from a pool of 5 plus the root and per-directory "
                "marker names, overlapping definitions across helper/layout/view layers, blank bodies, template calls, "
                "nested directories, non-template files, 1-4 layouts x 1-4 views incl. nested and ':' names, missing/empty "
                "directories, ~20%% with malformed/empty/doubly-defining files) + a random order of 3-12 Base/Layout/View "
                "requests (exec flags, default layout, unknown names, empty view name); every case is run in 4 "
                "configurations (html/text x caching on/off); %d cases from VERIF_SEED in %d shards, corpus first; "
                "non-trivial = a configuration with at least two different non-empty answers; distinct = distinct op "
                "sequences (hashed)" % (n_cases, shards))
    concrete_found = False
    # ---- corpus (witnesses of the findings and minimised past failures) first
    for f in sorted(glob.glob(os.path.join(lib.ROOT, "corpus", "C19", "*.ops"))):
        lines = lib.replay_ops(f)
        impl, model = sides.run(lines)
        ctx.evaluations += len(impl)
        i = 0
        per = []
        for b in _blocks(lines):
            ia, ma = impl[i:i + len(b)], model[i:i + len(b)]
            i += len(b)
            _account(ctx, b, ia)
            per.append((b, _req_answers(b, ia)))
            if ia != ma:
                concrete_found |= _judge_block(ctx, sides, b, "corpus %s: implementation and model differ" % os.path.basename(f))
        for (b1, a1), (b2, a2) in zip(per[0::2], per[1::2]):
            if b1[1:] == b2[1:] and a1 != a2:
                concrete_found = True
                ctx.violation("impl-vs-spec", "corpus %s: caching on and off answer differently" % os.path.basename(f),
                              lines=b1 + b2, annotations=["cached: " + " | ".join(a1), "uncached: " + " | ".join(a2)])
    ctx.log("corpus done")
    # ---- differential, and cache transparency on the implementation's own answers
    nsamples = 0
    for ops, impl, model in _shards(ctx, sides, n_cases, shards):
        lines = lib.replay_ops(ops)
        ctx.evaluations += len(impl)
        if len(impl) != len(lines) or len(model) != len(lines):
            ctx.fatal("driver output is not one line per op (%d ops, %d impl, %d model)" % (len(lines), len(impl), len(model)))
        i, per, bad = 0, [], 0
        for b in _blocks(lines):
            ia, ma = impl[i:i + len(b)], model[i:i + len(b)]
            i += len(b)
            _account(ctx, b, ia)
            per.append((b, _req_answers(b, ia)))
            if nsamples < 3 and any(a.startswith("defs ") and a != "defs -" for a in ia):
                nsamples += 1
                ctx.samples.append(dict(ops=b[:40], impl=ia[:40], model=ma[:40]))
            if ia != ma and bad < 2:
                bad += 1
                concrete_found |= _judge_block(ctx, sides, b, "implementation and model differ")
        for (b1, a1), (b2, a2) in zip(per[0::2], per[1::2]):
            cls = _classes(b1) | _classes(b2)
            for c in cls:
                ctx.histogram["class:" + c] += 1
            ctx.histogram["transparent-checked"] += 1
            if a1 != a2 and bad < 4:
                bad += 1
                concrete_found = True
                ctx.violation("impl-vs-spec", "caching on and off answer differently",
                              lines=b1 + b2, annotations=["cached: " + " | ".join(a1), "uncached: " + " | ".join(a2)])
    ctx.log("differential done")
    # ---- the property's clauses against the reference renderer
    ofails = _oracle(ctx, sides, ctx.pick(1000, 16000), shards)
    for f in ofails[:3]:
        concrete_found = True
        ctx.violation("impl-vs-spec", "clause of the property fails on the implementation (reference renderer): " + f["head"][:1500],
                      lines=f["ops"], annotations=["oracle: " + f["head"][:3000]])
    ctx.extra["oracle_fails"] = len(ofails)
    ctx.log("oracle done")
    # ---- concurrent first use in child processes
    runs = _stress(ctx, sides.go, ctx.pick(15, 250), "plain")
    race_go = ctx.build_go("tmpl", race=True)
    runs_race = _stress(ctx, race_go, ctx.pick(3, 40), "race")
    ctx.extra["child_runs"] = dict(plain=runs, race=runs_race)
    for tag, rr in (("plain", runs), ("race-detector", runs_race)):
        for r in rr:
            ctx.evaluations += 1
            ctx.histogram["child:%s:%s" % (tag, "ok" if r["status"] == "0" else "fail")] += 1
        for r in [r for r in rr if r["status"] != "0"][:1]:
            concrete_found = True
            what = ("the process was aborted by the runtime (concurrent map access)" if r["fatal"] else
                    "the race detector reports a data race" if r["race"] else
                    "callers got different templates" if "MISMATCH" in r["rest"] else "the child failed")
            ctx.violation("impl-vs-spec", "concurrent first use, %s build, %d goroutines, %s provider: %s\n%s" % (
                tag, r["g"], r["kind"], what, r["rest"][:1500]),
                lines=["stress %s %s %d" % (tag, r["kind"], r["g"])])
    if not runs or not runs_race:
        ctx.fatal("no child-process run was recorded")
    ctx.log("child runs done")
    lts_ok = _lts(ctx, sides, ctx.pick(200, 5000))
    if not lts_ok:
        ctx.violation("impl-vs-model", "the compiled transition system disagrees with no_fatal / fatal_reachable", concrete=False)
    # ---- verdicts about the proof obligations
    if failed:
        ctx.obligation_violations(failed, searcher=lambda: concrete_found)
    if not ctx.quick():
        ctx.leanchecker(["Goat.Props.C19"])
        if any(not o["ok"] for o in ctx.obligations) and not failed:
            ctx.obligation_violations([o for o in ctx.obligations if not o["ok"]])
    ctx.assumptions += [
        "rendering is a function of the set of definitions (Go's template semantics); the model stops at the definitions",
        "generated bodies call only templates that the case's helper layer defines, so every defined template renders "
        "(html/template drops a template whose execution failed from its set: looking at a template would change it)",
        "template files are fixed before the first request (a cache that is stale after files changed is not a violation)",
        "layout/view names have no '.', '..' or empty path segments; an empty template file is an error by the loaders' own rule",
    ]
    ctx.trusted_base += [
        "html/template, text/template (reference renderer; parse/merge rules mirrored in the model: first non-blank "
        "definition per file, blank bodies do not override, root template `baseTemplate`)",
        "memfs keeps directory entries in creation order (mirrored by the model's WalkFS order; compared on every run)",
        "Go runtime map-race detection and the race detector as observers of the child processes",
    ]
    for k in ("ans:err", "class:exec", "class:colon", "file:bad"):
        if not ctx.histogram.get(k):
            ctx.notes.append("coverage: zero hits for " + k)


def replay(ctx, path):
    lines = lib.replay_ops(path)
    if lines and lines[0].startswith("stress "):
        _, tag, kind, g = lines[0].split()
        go = ctx.build_go("tmpl", race=(tag != "plain"))
        rc, out = ctx.capture([go, "child", kind, g, "40", str(ctx.seed)], timeout=600)
        print(out[-3000:])
        print("replay:", "still failing" if rc != 0 else "child exited 0")
        return 1 if rc != 0 else 0
    sides = _setup(ctx)
    impl, model = sides.run(lines)
    rc, i, per = 0, 0, []
    for b in _blocks(lines):
        for l, x, y in zip(b, impl[i:], model[i:]):
            print("op    ", l)
            print("impl  ", x)
            print("model ", y)
            if x != y or x == "panic":
                rc = 1
        per.append((b, _req_answers(b, impl[i:i + len(b)])))
        i += len(b)
    for (b1, a1), (b2, a2) in zip(per[0::2], per[1::2]):
        if b1[1:] == b2[1:] and a1 != a2:
            print("caching on :", " | ".join(a1))
            print("caching off:", " | ".join(a2))
            rc = 1
    print("replay:", "still failing" if rc else "implementation and model agree, caching on = caching off")
    return rc
