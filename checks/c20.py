"""C20 — config and translation maps survive flattening, JSON and loading unchanged.

Theorems: lean/Goat/Props/C20.lean about lean/Goat/Model/PlainMap.lean (flatten / rebuild, the JSON
emitter with encoding/json's string encoder, the reader = the used part of buger/jsonparser, i18mem.Set,
the loader as a fold of Set in any order).
Correspondence: harness/cmd/pmap (real plainmap / i18mem / fsi18loader, memfs and a real temp dir) against
the compiled model driver m_pmap on generated op lines (flatten / rebuild / emit / read / load), compared
line by line.  Spec-vs-implementation: `pmap oracle` evaluates the property's clauses on the
implementation alone with encoding/json (UseNumber) as the independent decoder.
Known findings KF-C20-1..3 (known_findings.d/C20.json): witnesses replayed every run; the model mirrors
the documented behaviour, the oracle classifies every case by the defect predicates, anything outside
the listed classes is a VIOLATION.  When KF-C20-1 is moved to "fixed" the model runs with the repaired
reader (`m_pmap fixed`, theorems `*_repaired`).
"""
import concurrent.futures
import glob
import os

import lib

META = dict(
    level_claimed=dict(
        category="proof",
        text="Lean 4 theorems over all nested maps / flat maps / JSON documents (as concrete syntax: any white space, "
             "any spelling of any character) / file orders: flatten and rebuild are mutually inverse (any iteration "
             "order), the reader yields exactly the string and number leaves a standard decoder yields, write-then-"
             "read is the identity for all well-formed UTF-8 keys and values, every key of every loaded file "
             "translates to the value of the last file that defines it. Three recorded findings carve out defect "
             "classes (_partial / _full_false theorems; _repaired theorems prove the full statements for the proposed "
             "one-line repair). The model is tied to the Go code on every run by a differential over generated ops "
             "(byte-exact emitted documents, read results incl. malformed input, loader on memfs and real disk with "
             "1-16 consumers) and by an oracle using encoding/json as independent decoder.",
        design_ref="DESIGN.md 3 C20"),
    level_note="Trusted: Lean kernel (axioms propext/Classical.choice/Quot.sound only); the hand-written model's "
               "correspondence to /repo (differential, generator reach printed in the histogram); encoding/json's string "
               "encoder and buger/jsonparser are modelled, not verified (compared on every run); the directory walk "
               "(fsloop) is C08's subject - here only that Load calls Set once per reachable *.json file; "
               "fmt.Sprintf(v) = v for %-free v; Go map iteration order = some permutation.",
    technique="Lean 4 proof (structural induction over association trees, concrete-syntax trees and the emitter's "
              "recursion) + differential correspondence + encoding/json oracle",
)

TRIVIAL = {"map -", "err", "tree -", "doc 7b7d", "unordered"}
KF1, KF2, KF3 = "KF-C20-1", "KF-C20-2", "KF-C20-3"


def _run_shards(ctx, binary, args_of, n, tag, stdin_of=None, env_of=None):
    """run n processes in parallel; returns list of (rc, err, outpath)"""
    def one(i):
        out = ctx.path("%s.%d.out" % (tag, i))
        rc, err = ctx.run_lines(binary, args_of(i), stdin_of(i) if stdin_of else None, out,
                                env=env_of(i) if env_of else None, timeout=3000)
        return rc, err, out
    with concurrent.futures.ThreadPoolExecutor(max_workers=n) as ex:
        return list(ex.map(one, range(n)))


def _abort_violation(ctx, what, ops_path, out_path, rc, err):
    """the implementation driver died (e.g. fatal error: concurrent map writes): the op in flight is the input"""
    if len([v for v in ctx.violations if "process aborted" in v["detail"]]) >= 2:
        return
    done = ctx.count_lines(out_path) if os.path.exists(out_path) else 0
    ops = [l.rstrip("\n") for l in open(ops_path) if l.strip() and not l.startswith("#")] if ops_path else []
    culprit = ops[done:done + 1]
    ctx.violation("impl-vs-spec", "%s: the implementation process aborted (rc=%d) while executing op %d\n%s" % (
        what, rc, done, err[-1500:]), lines=culprit, concrete=True)


def _drive_pair(ctx, go, model, model_args, ops, tag):
    a, b = ctx.path(tag + ".impl"), ctx.path(tag + ".model")
    rc, err = ctx.run_lines(go, ["drive"], ops, a)
    if rc != 0:
        _abort_violation(ctx, tag, ops, a, rc, err)
        return None, None
    rc, err = ctx.run_lines(model, model_args, ops, b)
    if rc != 0:
        ctx.fatal("model driver failed rc=%d %s" % (rc, err[-500:]))
    return a, b


def _minimise(ctx, go, model, model_args, op):
    """shrink the comma-separated payload of an emit / rebuild / load op while impl and model still differ"""
    f = op.split(" ")
    idx = {"emit": 1, "rebuild": 1, "load": 2}.get(f[0])
    if idx is None or f[idx] == "-":
        return op
    items = f[idx].split(",")

    def differs(cand):
        g = list(f)
        g[idx] = ",".join(cand) if cand else "-"
        p = ctx.path("min.ops")
        open(p, "w").write(" ".join(g) + "\n")
        a, b = ctx.path("min.impl"), ctx.path("min.model")
        rc, _ = ctx.run_lines(go, ["drive"], p, a, timeout=120)
        if rc != 0:
            return True
        ctx.run_lines(model, model_args, p, b, timeout=120)
        return open(a).read() != open(b).read()
    try:
        items = ctx.ddmin(items, differs)
    except Exception:
        pass
    f[idx] = ",".join(items)
    return " ".join(f)


def _oracle(ctx, go, n, shards, tag="oracle", binary=None, extra_env=None):
    def env_of(i):
        e = dict(VERIF_SEED=str(ctx.seed * 1000 + i), GOMAXPROCS=str((2, 4, 8, 16)[i % 4]))
        e.update(extra_env or {})
        return e
    res = _run_shards(ctx, binary or go, lambda i: ["oracle", str(n // shards)], shards, tag, env_of=env_of)
    fails, known, hist = [], [], {}
    for rc, err, out in res:
        if rc != 0:
            if len([v for v in ctx.violations if "process aborted" in v["detail"]]) < 2:
                ctx.violation("impl-vs-spec", "%s: the implementation process aborted (rc=%d)\n%s" % (tag, rc, err[-1500:]),
                              concrete=True)
            continue
        for l in open(out):
            l = l.rstrip("\n")
            if l.startswith("FAIL "):
                fails.append(l)
            elif l.startswith("KNOWN "):
                known.append(l)
            elif l.startswith("oracle "):
                for tok in l.split()[1:]:
                    k, _, v = tok.rpartition("=")
                    hist[k] = hist.get(k, 0) + int(v)
    return fails, known, hist


def _split_oracle_line(l):
    """FAIL <clause> <class> <op>;;<op> :: detail   /   KNOWN <id> <clause> <op>;;<op> :: detail"""
    head, _, detail = l.partition(" :: ")
    f = head.split(" ", 3)
    ops = f[3].split(";;") if len(f) > 3 else []
    return f[1], f[2], ops, detail


def run(ctx):
    failed = ctx.lean_obligations()
    go = ctx.build_go("pmap")
    model = ctx.build_model("m_pmap")
    kfs = {k["id"]: k for k in ctx.known_findings()}
    if os.environ.get("VERIF_C20_REPAIRED"):
        # try out the repair of KF-C20-1 on a patched tree without editing the shared fragment
        kfs.pop(KF1, None)
    repaired = KF1 not in kfs
    margs = ["fixed"] if repaired else []
    ctx.extra["reader_mode"] = "repaired (KF-C20-1 not listed)" if repaired else "current (KF-C20-1 listed)"
    shards = 8
    n_rand = ctx.pick(24000, 1200000)
    n_oracle = ctx.pick(24000, 1200000)
    ctx.rule = ("%d generated ops from VERIF_SEED in %d shards: flatten (nested maps depth<=3, 80%% well-formed, rest with "
                "dotted keys / empty sub-maps), rebuild (prefix-free maps from trees, free dotted keys, empty segments, "
                "leading dots, conflicts, empty key), emit (same plus invalid UTF-8), read (rendered concrete syntax with "
                "random white space / escape spellings / numbers / arrays / bools / null, dotted keys, KF classes, emitted "
                "documents, 30%% byte-mutated = malformed), load (0-40 files, nested dirs, non-json names, files outside "
                "the base, memfs or a real temp dir, 1-16 consumers; disjoint / agreeing / conflicting / %%-values / "
                "broken files). Keys and values over quotes, backslash, slash, control, DEL, <>&, 2-4 byte UTF-8, "
                "U+2028/9. non-trivial = result other than empty map / err / empty doc; distinct = distinct op lines"
                % (n_rand, shards))
    # ---------------------------------------------------------------- known findings: replay the witnesses
    for fid, kf in sorted(kfs.items()):
        ops = ctx.path("kf.ops")
        open(ops, "w").write("\n".join(kf["witness"]) + "\n")
        a, b = _drive_pair(ctx, go, model, margs, ops, "kf")
        if a is None:
            continue
        impl = [l.rstrip("\n") for l in open(a)]
        mod = [l.rstrip("\n") for l in open(b)]
        ctx.extra.setdefault("known_finding_witness", []).append(
            dict(id=fid, ops=kf["witness"], impl=impl, model=mod, spec=kf["spec"]))
        if impl and impl[-1] == kf["observed"] and impl == mod:
            ctx.known(fid, "%s -> spec `%s`, code `%s`" % (kf["witness"][-1][:60], kf["spec"], kf["observed"]))
        elif impl and impl[-1] == kf["spec"]:
            ctx.violation("impl-vs-model", "%s is listed as a known finding but the implementation now shows the "
                          "specified behaviour on its witness: move the entry to \"fixed\" in known_findings.d/C20.json"
                          % fid, lines=kf["witness"], annotations=["impl: " + impl[-1], "model: " + (mod[-1] if mod else "")],
                          concrete=False)
        else:
            ctx.violation("impl-vs-spec", "%s: the witness shows neither the documented nor the specified behaviour" % fid,
                          lines=kf["witness"], annotations=["impl: " + (impl[-1] if impl else ""), "spec: " + kf["spec"],
                                                            "documented: " + kf["observed"]], concrete=True)
    # ---------------------------------------------------------------- corpus + generated stream, sharded
    corpus = ctx.path("corpus.ops")
    with open(corpus, "w") as h:
        for f in sorted(glob.glob(os.path.join(lib.ROOT, "corpus", "C20", "*.ops"))):
            h.writelines(l for l in open(f) if l.strip() and not l.startswith("#"))
    gens = _run_shards(ctx, go, lambda i: ["gen", str(n_rand // shards)], shards, "gen",
                       env_of=lambda i: dict(VERIF_SEED=str(ctx.seed * 1000 + i)))
    for rc, err, _ in gens:
        if rc != 0:
            ctx.fatal("generator failed: " + err[-500:])
    streams = [("corpus", corpus)] + [("gen%d" % i, g[2]) for i, g in enumerate(gens)]

    def pair(s):
        tag, ops = s
        a, b = ctx.path(tag + ".impl"), ctx.path(tag + ".model")
        # the loader's consumers spin while they wait: keep the number of OS threads per shard small (and varied)
        procs = {"gen%d" % i: str((2, 4, 8, 16)[i % 4]) for i in range(shards)}.get(tag, "4")
        rc, err = ctx.run_lines(go, ["drive"], ops, a, timeout=3000, env=dict(GOMAXPROCS=procs))
        rc2, err2 = ctx.run_lines(model, margs, ops, b, timeout=3000)
        return tag, ops, a, b, rc, err, rc2, err2
    with concurrent.futures.ThreadPoolExecutor(max_workers=shards + 1) as ex:
        results = list(ex.map(pair, streams))
    mism, concrete_found = [], False
    for tag, ops, a, b, rc, err, rc2, err2 in results:
        if rc2 != 0:
            ctx.fatal("model driver failed rc=%d %s" % (rc2, err2[-500:]))
        if rc != 0:
            _abort_violation(ctx, tag, ops, a, rc, err)
            concrete_found = True
            continue
        mism += ctx.diff_streams(ops, a, b)
        with open(ops) as fo, open(a) as fa:
            for i, (o, r) in enumerate(zip(fo, fa)):
                r = r.rstrip("\n")
                kind = o.split(" ", 1)[0] + ":" + r.split(" ", 1)[0]
                if o.startswith("load "):
                    kind += ":" + o.rsplit(" ", 1)[1].split(":")[0]
                ctx.note_case(o, nontrivial=r not in TRIVIAL, kind=kind)
                if r == "panic" or r == "hang":
                    ctx.violation("impl-vs-spec", "the implementation answers `%s`" % r, lines=[o], concrete=True)
                    concrete_found = True
                if tag == "gen0" and i < 400 and len(ctx.samples) < 5 and len(o) < 400 and r not in TRIVIAL \
                        and o.split(" ", 1)[0] not in [s["op"].split(" ", 1)[0] for s in ctx.samples]:
                    ctx.samples.append(dict(op=o.strip(), impl=r, model=r))
    # ---------------------------------------------------------------- Spec vs implementation
    ofails, oknown, ohist = _oracle(ctx, go, n_oracle, shards)
    ctx.evaluations += ohist.get("cases", 0)
    for k, v in ohist.items():
        if k not in ("cases", "fails"):
            ctx.histogram["oracle:" + k] += v
    for f in ofails[:3]:
        clause, cls, ops, detail = _split_oracle_line(f)
        ctx.violation("impl-vs-spec", "clause `%s` of the property fails on the implementation (%s): %s" % (clause, cls, detail[:600]),
                      lines=ops, annotations=["oracle: " + f[:1500]], concrete=True)
    concrete_found |= bool(ofails)
    for fid in (KF1, KF2, KF3):
        seen = ohist.get("known:" + fid, 0)
        if seen and fid not in kfs:
            ex = [l for l in oknown if l.startswith("KNOWN " + fid)][:1]
            _, clause, ops, detail = _split_oracle_line(ex[0]) if ex else ("", "", [], "")
            ctx.violation("impl-vs-spec", "clause `%s` fails on the implementation in the defect class of %s, which is not "
                          "listed as a known finding (%d cases): %s" % (clause, fid, seen, detail[:600]),
                          lines=ops, concrete=True)
            concrete_found = True
        if fid in kfs and not seen:
            ctx.violation("impl-vs-model", "the separate stream of the defect class of %s did not show the defect (%s)" % (
                fid, " ".join("%s=%d" % (k, v) for k, v in ohist.items() if "kf" in k)), concrete=False)
    ctx.extra["oracle_summary"] = " ".join("%s=%d" % (k, ohist[k]) for k in sorted(ohist))
    ctx.extra["excluded_point_invalid_utf8"] = dict(
        cases=ohist.get("write_read:badutf8:excluded", 0), differs=ohist.get("excluded:write_read:differs", 0),
        equal=ohist.get("excluded:write_read:equal", 0),
        note="write_read_* assume well-formed UTF-8; on the real code a value with invalid bytes comes back with U+FFFD "
             "in their place (the emitted document is still valid JSON - checked)")
    # ---------------------------------------------------------------- loader under the race detector
    n_race = ctx.pick(600, 20000)
    grace = ctx.build_go("pmap", race=True)
    rfails, _, rhist = _oracle(ctx, go, n_race, 4, tag="race", binary=grace, extra_env=dict(PMAP_NO_BROKEN="1"))
    ctx.histogram["race:oracle-cases"] += rhist.get("cases", 0)
    ctx.evaluations += rhist.get("cases", 0)
    if rfails:
        clause, cls, ops, detail = _split_oracle_line(rfails[0])
        ctx.violation("impl-vs-spec", "clause `%s` fails under the race-detector build: %s" % (clause, detail[:600]),
                      lines=ops, concrete=True)
        concrete_found = True
    # ---------------------------------------------------------------- verdicts for model/implementation differences
    for idx, op, ia, mb in mism[:3]:
        small = _minimise(ctx, go, model, margs, op)
        conc = ia in ("panic", "hang")
        ctx.violation("impl-vs-spec" if conc else "impl-vs-model",
                      "implementation and model differ on op %d (%s)" % (idx, op.split(" ", 1)[0]),
                      lines=[small], annotations=["impl: " + ia[:1500], "model: " + mb[:1500]] +
                      (["full op: " + op[:3000]] if small != op else []),
                      concrete=conc or concrete_found)
    if mism and not concrete_found:
        # DESIGN 1.3: search deeper for an input on which the implementation contradicts the property
        dfails, _, _ = _oracle(ctx, go, 160000, shards, tag="deep")
        for f in dfails[:2]:
            clause, cls, ops, detail = _split_oracle_line(f)
            ctx.violation("impl-vs-spec", "clause `%s` fails on the implementation (%s): %s" % (clause, cls, detail[:600]),
                          lines=ops, concrete=True)
        concrete_found |= bool(dfails)
    if failed:
        def searcher():
            if concrete_found:
                return True
            dfails, _, _ = _oracle(ctx, go, 160000, shards, tag="deep2")
            for f in dfails[:2]:
                clause, cls, ops, detail = _split_oracle_line(f)
                ctx.violation("impl-vs-spec", "clause `%s` fails on the implementation (%s): %s" % (clause, cls, detail[:600]),
                              lines=ops, concrete=True)
            return bool(dfails)
        ctx.obligation_violations(failed, searcher=searcher)
    if not ctx.quick():
        ctx.leanchecker(["Goat.Props.C20"])
        if any(not o["ok"] for o in ctx.obligations) and not failed:
            ctx.obligation_violations([o for o in ctx.obligations if not o["ok"]])
    # ---------------------------------------------------------------- evidence
    zero = [k for k in ("flatten:map", "rebuild:tree", "rebuild:err", "rebuild:unordered", "emit:doc", "read:map", "read:err",
                        "load:map:mem", "load:map:disk", "load:err:mem", "load:err:disk") if not ctx.histogram.get(k)]
    if zero:
        ctx.notes.append("result kinds with zero hits in this run: " + ", ".join(zero))
    ctx.assumptions += [
        "keys and values of write_read_* are well-formed UTF-8 (invalid bytes are replaced by U+FFFD by encoding/json; tested as excluded point)",
        "documents of read_matches_decoder_* contain \\u escapes of surrogate code units only as proper high/low pairs (KF-C20-3)",
        "load_all_keys: the walk hands every reachable *.json file to OnFile exactly once (C08) and Set is atomic (sync.RWMutex; "
        "checked under the race detector); Translate(k) = stored value for %-free values (fmt.Sprintf)",
        "a Go map is iterated in some permutation of its entries; flat maps have distinct keys",
    ]
    ctx.trusted_base += [
        "encoding/json string encoder (go1.23, escapeHTML=true) and github.com/buger/jsonparser (ObjectEach, Get, Unescape) are modelled "
        "byte-exactly in Goat/Model/PlainMap.lean and compared with the real libraries on every run",
        "encoding/json decoder (UseNumber) as the independent standard decoder of the oracle",
        "memfs / diskfs / fsloop as the carrier of the loader runs (their own properties: C01, C02, C08)",
    ]


def replay(ctx, path):
    go = ctx.build_go("pmap")
    model = ctx.build_model("m_pmap")
    kfs = {k["id"] for k in ctx.known_findings()}
    if os.environ.get("VERIF_C20_REPAIRED"):
        kfs.discard(KF1)
    margs = [] if KF1 in kfs else ["fixed"]
    ops = ctx.path("replay.ops")
    lines = []
    for l in lib.replay_ops(path):
        lines += l.split(";;")
    open(ops, "w").write("\n".join(lines) + "\n")
    a, b, j = ctx.path("replay.impl"), ctx.path("replay.model"), ctx.path("replay.judge")
    rc, err = ctx.run_lines(go, ["drive"], ops, a)
    if rc != 0:
        print("implementation process aborted rc=%d\n%s" % (rc, err[-2000:]))
        return 1
    ctx.run_lines(model, margs, ops, b)
    rcj, err = ctx.run_lines(go, ["judge"], ops, j)
    if rcj != 0:
        print("implementation process aborted rc=%d\n%s" % (rcj, err[-2000:]))
        return 1
    rc = 0
    for o, x, y, v in zip(open(ops), open(a), open(b), open(j)):
        print("op      ", o.strip()[:2000])
        print("impl    ", x.strip()[:2000])
        print("model   ", y.strip()[:2000])
        print("property", v.strip()[:2000])
        verdict = v.split(" ", 1)[0]
        fid = ([t[3:] for t in v.split() if t.startswith("id=")] + [""])[0]
        if x != y or x.strip() in ("panic", "hang") or verdict == "fail" or (verdict == "known" and fid not in kfs):
            rc = 1
    print("replay:", "still failing" if rc else "implementation and model agree and the property's clause holds on every op "
          "(or the op lies in a listed known-finding class)")
    return rc
