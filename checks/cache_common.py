"""Shared machinery of the C06 / C07 checks (write-back filesystem cache).

Three parties per history (op lines of the `fs` protocol, family `cache`):
  Impl   harness/cmd/cache `drive`: the real fscache.Cache over a real memfs remote behind a failing-remote decorator
  Model  lean/Driver/Cache.lean (`m_cache`): Goat/Model/Cache.lean, the mirror of cache.go the theorems are about
  Spec   direct application of the same successful operations to the remote's initial tree: inside `m_cache` a second
         memfs tree (MemFS.step refines FS.Step, Props/C01), inside `cache oracle` the flat reference fsdrv.Ref

C06 and C07 are KNOWN to fail on the current code (known_findings.d/C06.json, C07.json).  Protocol (DESIGN 1.5):
  * every witness is replayed: Impl = Model, the deviation from the Spec is still there, its class is reported by the
    decidable defect predicates (Goat.Cache.defectsAt, evaluated by `classify`)  ->  KNOWN-FINDING line
  * every explored history: Impl = Model on every line (any difference is a VIOLATION, inside or outside the classes);
    a history on which the Model deviates from the Spec must be in a listed class of that property (else VIOLATION:
    Impl = Model /= Spec outside all classes)
  * the oracle (no Lean model) judges Impl against the reference; each failing history must be in a class of the
    property AND equal the Model; the restricted generators (class of the `_partial` theorems) admit no failure at all
  * `untouched` (the remote changed, or was called, outside Commit) is never excusable.
"""
import concurrent.futures
import glob
import json
import os
import subprocess

import lib

NSHARDS = 16
C06_EXTRA = {"KF-C07-3", "KF-C07-5", "KF-C07-6"}     # listed for C06 as KF-C06-9/10/11 (same predicates)
READ_WORDS = {"isexist", "isfile", "isdir", "readfile", "reader", "readdir", "lstat"}
MUT_WORDS = {"write", "writer", "mkdir", "remove", "removeall", "copy", "copyfile", "copydir"}
ORACLE_KINDS = {"C06": {"untouched", "tree", "retry-tree", "second-commit", "commit-err", "swallowed", "crash", "setup"},
                "C07": {"ryw", "crash", "setup"}}


def classes_for(prop, ids):
    if prop == "C06":
        return [c for c in ids if c.startswith("KF-C06") or c in C06_EXTRA]
    return [c for c in ids if c.startswith("KF-C07")]


def sh(ctx, argv, stdin=None, stdout=None, stderr=None, timeout=None):
    e = ctx.goenv()
    e.setdefault("GOMEMLIMIT", "3GiB")
    fin = open(stdin, "rb") if stdin else subprocess.DEVNULL
    fout = open(stdout, "wb") if stdout else subprocess.DEVNULL
    ferr = open(stderr, "wb") if stderr else subprocess.PIPE
    try:
        p = subprocess.run(argv, stdin=fin, stdout=fout, stderr=ferr, env=e, timeout=timeout or ctx.pick(400, 2400))
        return p.returncode, ((p.stderr or b"").decode("utf-8", "replace") if not stderr else "")
    except subprocess.TimeoutExpired:
        return 124, "timeout"
    finally:
        for h in (fin, fout, ferr):
            if hasattr(h, "close"):
                h.close()


def lines_of(path):
    return [l.rstrip("\n") for l in open(path, "r", errors="replace")]


def op_lines(path):
    return [l.rstrip("\n") for l in open(path, "r", errors="replace") if l.strip() and not l.startswith("#")]


class Sides:
    """the two drivers"""

    def __init__(self, ctx):
        self.ctx = ctx
        self.go = ctx.build_go("cache")
        self.model = ctx.build_model("m_cache")
        self.n = 0

    def run_files(self, ops, tag, stats=None, verbose=False, watchdog=None):
        """-> (impl path, model path, classify path)"""
        ctx = self.ctx
        a, b, c = ctx.path(tag + ".impl"), ctx.path(tag + ".model"), ctx.path(tag + ".cls")
        argv = [self.go, "drive"]
        if stats:
            argv += ["-stats", stats]
        if watchdog:
            argv += ["-watchdog", str(watchdog)]
        rc, err = sh(ctx, argv, stdin=ops, stdout=a)
        if rc == 124:
            raise TimeoutError(ops)
        if rc != 0:
            raise RuntimeError("implementation driver failed rc=%d %s" % (rc, err[-500:]))
        rc, err = sh(ctx, [self.model] + (["-v"] if verbose else []), stdin=ops, stdout=b, stderr=c)
        if rc != 0:
            raise RuntimeError("model driver failed rc=%d %s" % (rc, open(c).read()[-500:]))
        return a, b, c

    def run(self, lines, verbose=False, watchdog=None):
        """-> (impl lines, model lines (with ` | spec` when verbose), {line index: classify dict})"""
        self.n += 1
        tag = "t%d" % self.n
        ops = self.ctx.path(tag + ".ops")
        with open(ops, "w") as h:
            h.write("\n".join(lines) + "\n")
        a, b, c = self.run_files(ops, tag, verbose=verbose, watchdog=watchdog)
        res = lines_of(a), lines_of(b), parse_cls(c)
        for f in (ops, a, b, c):
            os.unlink(f)
        return res


def parse_cls(path):
    """stderr of m_cache: `C <line> classes=… c06=<n> c07=<n> first=…` -> {line: dict}"""
    res = {}
    for l in open(path, "r", errors="replace"):
        f = l.split()
        if len(f) >= 5 and f[0] == "C":
            d = dict(t.split("=", 1) for t in f[2:])
            res[int(f[1])] = dict(classes=[] if d["classes"] == "-" else d["classes"].split(","),
                                  c06=int(d["c06"]), c07=int(d["c07"]), first=d.get("first", "-"))
    return res


def split_spec(line):
    """`res | spec` -> (res, spec or None)"""
    if " | " in line:
        a, b = line.split(" | ", 1)
        return a, b
    return line, None


def relevant(prop, op):
    """is a difference on this op line about this property?  Pure reads through the cache are C07's, the remote's
    tree and Commit are C06's, the verdict of a mutating call is both's (the states have diverged)."""
    w = op.split(" ", 1)[0]
    f = op.split(" ")
    if w in READ_WORDS:
        return prop == "C07"
    if w == "dump":
        return (prop == "C06") == (len(f) > 1 and f[1] == "0")
    if w == "commit":
        return prop == "C06"
    return True


def history_at(ops_lines, idx):
    """(start, lines) of the history containing op line idx"""
    start = idx
    while start > 0 and ops_lines[start] != "reset":
        start -= 1
    end = idx + 1
    while end < len(ops_lines) and ops_lines[end] != "reset":
        end += 1
    return start, ops_lines[start:end]


def diff_indices(ops, a, b, limit=200000):
    """indices of differing result lines"""
    if subprocess.call(["cmp", "-s", a, b]) == 0:
        return []
    res = []
    with open(a, "rb") as fa, open(b, "rb") as fb:
        i = 0
        while True:
            la, lb = fa.readline(), fb.readline()
            if not la and not lb:
                break
            if la != lb:
                res.append(i)
                if len(res) >= limit:
                    break
            i += 1
    return res


def shard(ctx, sides, mode, n, k):
    """one shard of a differential campaign"""
    tag = "%s%02d" % (mode, k)
    ops, gstat, stats = ctx.path(tag + ".ops"), ctx.path(tag + ".gstat"), ctx.path(tag + ".stats")
    rc, err = sh(ctx, [sides.go, mode, str(n), str(k), str(NSHARDS)], stdout=ops, stderr=gstat)
    if rc != 0:
        raise RuntimeError("generator %s failed rc=%d %s" % (mode, rc, open(gstat).read()[-300:]))
    try:
        a, b, c = sides.run_files(ops, tag, stats=stats)
    except TimeoutError:
        return dict(mode=mode, shard=k, timeout=True, ops=ops)
    res = dict(mode=mode, shard=k, timeout=False, ops=ops, impl=a, model=b, diffs=diff_indices(ops, a, b),
               cls=parse_cls(c), stats=json.load(open(stats)), gstat=open(gstat).read())
    os.unlink(c)
    return res


def is_concrete(prop, op, impl, model_v, prev_ops):
    """Does the implementation contradict the property on this line?  model_v = `model | spec` (verbose)."""
    model, spec = split_spec(model_v)
    w = op.split(" ", 1)[0]
    if impl in ("panic", "hang", "swallowed", "nil"):
        return True, "the implementation answered `%s`" % impl
    if w == "dump" and op.split(" ")[1:] == ["0"]:
        # the remote's tree: between two commits it must not change at all (clause (i))
        for p in reversed(prev_ops):
            pw = p.split(" ", 1)[0]
            if pw == "dump" and p.split(" ")[1:] == ["0"]:
                return True, "the remote's tree changed although no Commit was issued since the previous walk"
            if pw == "commit":
                break
        if spec is not None and impl != spec:
            return True, "after Commit the remote is neither what the model says nor the direct tree"
        return False, ""
    if spec is not None and impl != spec:
        return True, "the answer is neither the model's nor the specification's (direct application)"
    return False, ""


def judge(ctx, sides, prop, hist, what):
    """minimise a history on which Impl and Model differ on a line relevant to prop, decide whether the
    implementation contradicts the property there, record the violation"""
    def rel_diff(lines):
        if not lines or lines[0] != "reset":
            return None
        ia, mb, _ = sides.run(lines)
        for i, (o, x, y) in enumerate(zip(lines, ia, mb)):
            if x != y and relevant(prop, o):
                return i
        return None
    ia0, _, _ = sides.run(hist)
    if "hang" in ia0:
        # a call that does not return costs a watchdog period per attempt: no minimisation, cut after it
        small = hist[:ia0.index("hang") + 1]
    else:
        small = ctx.ddmin(hist, lambda ls: rel_diff(ls) is not None, keep_prefix=1) if len(hist) <= 400 else hist
    ia, mv, cls = sides.run(small + ([] if small[-1].startswith("classify") else ["classify 1"]), verbose=True)
    d = None
    for i, (o, x, y) in enumerate(zip(small, ia, mv)):
        if x != split_spec(y)[0] and relevant(prop, o):
            d = i
            break
    if d is None:
        d = 0
    concrete, why = is_concrete(prop, small[d], ia[d], mv[d], small[:d])
    ids = sorted(set(sum((c["classes"] for c in cls.values()), [])))
    mine = classes_for(prop, ids)
    where = ("inside the defect class(es) %s: the implementation no longer shows the documented behaviour the model pins"
             % ",".join(mine)) if mine else "outside every defect class of %s" % prop
    ann = ["op:    " + small[d][:400], "impl:  " + ia[d][:600], "model: " + split_spec(mv[d])[0][:600]]
    if split_spec(mv[d])[1] is not None:
        ann.append("spec:  " + split_spec(mv[d])[1][:600])
    ctx.violation("impl-vs-spec" if concrete else "impl-vs-model",
                  "%s: implementation and model differ on line %d of the minimised history (%d lines), %s\n%s"
                  % (what, d, len(small), where, why or "no answer of the implementation on this history contradicts "
                     "the specification; the model (the mirror the theorems are about) is contradicted"),
                  lines=small, annotations=ann, concrete=concrete)
    return concrete


def campaign(ctx, sides, prop, plan):
    """plan: list of (mode, n).  Runs the shards in parallel; accounts evidence; returns (concrete_found, results)"""
    jobs = [(m, n, k) for m, n in plan for k in range(NSHARDS)]
    with concurrent.futures.ThreadPoolExecutor(NSHARDS) as ex:
        results = list(ex.map(lambda j: shard(ctx, sides, *j), jobs))
    concrete = False
    judged = 0
    unexplained = 0
    tot = dict(histories=0, nontrivial=0, lines=0)
    inclass = outclass = deviating = 0
    gen_counts = {}
    for r in results:
        if r["timeout"]:
            ctx.violation("impl-vs-model", "%s shard %d: the implementation-side driver did not finish within the time "
                          "limit; op file = `cache %s` shard %d/%d with VERIF_SEED=%d" % (r["mode"], r["shard"], r["mode"],
                                                                                      r["shard"], NSHARDS, ctx.seed),
                          concrete=False)
            continue
        st = r["stats"]
        for k in tot:
            tot[k] += st[k]
        ctx.evaluations += st["lines"]
        for k, v in st["histogram"].items():
            ctx.histogram[k] += v
        for h in st.get("hashes", []):
            ctx.distinct.add(bytes.fromhex(h.rjust(16, "0")))
        for line in r["gstat"].split("\n"):
            if line.startswith("genstat "):
                for tok in line.split()[1:]:
                    k, _, v = tok.partition("=")
                    gen_counts[k] = gen_counts.get(k, 0) + int(v)
        ops_lines = None
        # 1. Impl = Model on every line relevant to this property
        if r["diffs"]:
            ops_lines = op_lines(r["ops"])
            rel = [i for i in r["diffs"] if relevant(prop, ops_lines[i])]
            ctx.histogram["impl-vs-model:lines"] += len(r["diffs"])
            if rel and judged < 3:
                judged += 1
                _, hist = history_at(ops_lines, rel[0])
                concrete |= judge(ctx, sides, prop, hist, "%s shard %d" % (r["mode"], r["shard"]))
        # 2. Model /= Spec only inside the listed classes of this property
        key = "c06" if prop == "C06" else "c07"
        for line, c in r["cls"].items():
            mine = classes_for(prop, c["classes"])
            for cid in c["classes"]:
                ctx.histogram["class:" + cid] += 1
            if mine:
                inclass += 1
            else:
                outclass += 1
            if c[key]:
                deviating += 1
            if c[key] and not mine:
                unexplained += 1
                if unexplained <= 2:
                    ops_lines = ops_lines or op_lines(r["ops"])
                    _, hist = history_at(ops_lines, line)
                    ia, mv, _ = sides.run(hist, verbose=True)
                    same = all(x == split_spec(y)[0] for x, y in zip(ia, mv))
                    ann = []
                    for o, x, y in zip(hist, ia, mv):
                        m, s = split_spec(y)
                        if s is not None and m != s:
                            ann = ["op:    " + o[:400], "impl:  " + x[:400], "model: " + m[:400], "spec:  " + s[:400]]
                            break
                    ctx.violation("impl-vs-spec" if same else "impl-vs-model",
                                  "%s shard %d: the model deviates from direct application (%s) on a history that is in no "
                                  "listed defect class of %s (classes: %s); the implementation %s" % (
                                      r["mode"], r["shard"], c["first"], prop, ",".join(c["classes"]) or "none",
                                      "equals the model: the property fails outside the known findings" if same
                                      else "differs from the model as well"),
                                  lines=hist, annotations=ann, concrete=same)
                    concrete |= same
        if not r["diffs"] and not (r["mode"] == "gen" and r["shard"] == 0):
            for f in (r["ops"], r["impl"], r["model"]):
                if os.path.exists(f):
                    os.unlink(f)
    for k, v in gen_counts.items():
        ctx.histogram["gen:" + k] = v
    ctx.extra["differential"] = dict(tot, histories_in_a_class_of_this_property=inclass,
                                     histories_outside_every_class=outclass,
                                     histories_on_which_model_deviates_from_spec=deviating,
                                     model_deviations_outside_classes=unexplained, plan=["%s:%d" % p for p in plan])
    return concrete, results


def oracle(ctx, sides, prop, plan):
    """plan: list of (mode, n).  Every failing history of the oracle must be explained: in a class of the property and
    equal to the model (restricted modes: nothing is explained).  Returns concrete_found."""
    def one(job):
        mode, n, k = job
        out = ctx.path("%s%02d.out" % (mode, k))
        rc, err = sh(ctx, [sides.go, mode, str(n), str(k), str(NSHARDS)], stdout=out)
        if rc == 124:
            return mode, k, None
        if rc != 0:
            raise RuntimeError("oracle failed: " + err[-300:])
        return mode, k, out
    jobs = [(m, n, k) for m, n in plan for k in range(NSHARDS)]
    with concurrent.futures.ThreadPoolExecutor(NSHARDS) as ex:
        outs = list(ex.map(one, jobs))
    mine_kinds = ORACLE_KINDS[prop]
    total = dict(histories=0, cases=0, failing=0)
    todo = []   # (mode, fails, hist)
    concrete = False
    for mode, k, out in outs:
        if out is None:
            ctx.violation("impl-vs-spec", "oracle %s shard %d did not finish (an interface call never returns)" % (mode, k),
                          lines=["# cache %s shard %d/%d VERIF_SEED=%d" % (mode, k, NSHARDS, ctx.seed)], concrete=True)
            concrete = True
            continue
        fails, hist = [], []
        for l in open(out, "r", errors="replace"):
            l = l.rstrip("\n")
            if l.startswith("FAIL "):
                fails.append(l)
            elif l.startswith("H "):
                hist.append(l[2:])
            elif l == "E":
                if any(f.split(" ")[1] in mine_kinds for f in fails):
                    todo.append((mode, fails, hist))
                fails, hist = [], []
            elif l.startswith("oracle "):
                for tok in l.split()[1:]:
                    key, _, v = tok.partition("=")
                    if key in total:
                        total[key] += int(v)
                    else:
                        ctx.histogram["oracle:" + mode + ":" + key] += int(v)
        os.unlink(out)
    ctx.evaluations += total["cases"]
    # classify all failing histories in one run of both drivers
    explained = 0
    reported = 0
    if todo:
        lines, starts = [], []
        for _, _, hist in todo:
            starts.append(len(lines))
            lines += hist if hist[-1].startswith("classify") else hist + ["classify 1"]
        starts.append(len(lines))
        ops = ctx.path("oracle_cls.ops")
        with open(ops, "w") as h:
            h.write("\n".join(lines) + "\n")
        a, b, c = sides.run_files(ops, "oracle_cls")
        ia, mb, cls = lines_of(a), lines_of(b), parse_cls(c)
        for n, (mode, fails, hist) in enumerate(todo):
            lo, hi = starts[n], starts[n + 1]
            ids = sorted(set(sum((cls[i]["classes"] for i in range(lo, hi) if i in cls), [])))
            mine = classes_for(prop, ids)
            kinds = sorted(set(f.split(" ")[1] for f in fails if f.split(" ")[1] in mine_kinds))
            same = all(x == y or not relevant(prop, o) for o, x, y in zip(lines[lo:hi], ia[lo:hi], mb[lo:hi]))
            hard = [kd for kd in kinds if kd in ("untouched", "swallowed", "crash", "setup")]
            restricted = mode != "oracle"
            if mine and same and not hard and not restricted:
                explained += 1
                for cid in mine:
                    ctx.histogram["oracle:explained-by:" + cid] += 1
                continue
            if reported >= 3:
                reported += 1
                continue
            reported += 1
            why = []
            if hard:
                why.append("failure kind %s is never excusable" % ",".join(hard))
            if restricted:
                why.append("the history was generated inside the class of the `_partial` theorems (%s), where no deviation is known" % mode)
            if not mine:
                why.append("the history is in no listed defect class of %s (classes: %s)" % (prop, ",".join(ids) or "none"))
            if not same:
                why.append("the implementation also differs from the model on it")
            real = kinds != ["setup"]   # `setup`: the reference and the implementation disagree before the cache exists
            ctx.violation("impl-vs-spec", "property oracle (flat reference, no Lean model): %s\n%s" % (
                "; ".join(why), "\n".join(f[:500] for f in fails[:4])), lines=hist,
                annotations=[f[:600] for f in fails[:4]], concrete=real)
            concrete |= real
        for f in (ops, a, b, c):
            if os.path.exists(f):
                os.unlink(f)
    ctx.extra["oracle"] = dict(total, failing_for_this_property=len(todo), explained_by_known_findings=explained,
                               unexplained=reported, plan=["%s:%d" % p for p in plan])
    return concrete


CONC_SHARDS = 8


def conc_family(ctx, sides, prop, rounds):
    """C07, concurrent family (harness/cmd/cache/conc.go): one writer goroutine, several reader goroutines through the
    cache and a child view; every answer must be the direct-application answer in SOME state between the last mutation
    completed before the read started and the last mutation started before it ended (atomic counters, no clocks).
    A sample of the sequential histories goes through the Lean model and the classifier: Impl = Model on every line
    and no deviation of the model from direct application (the family stays inside the class of ryw_partial, where
    the reference's answers are the model's view).  Returns concrete_found."""
    def one(k):
        out = ctx.path("conc%02d.out" % k)
        rc, err = sh(ctx, [sides.go, "conc", str(rounds), str(k), str(CONC_SHARDS)], stdout=out, timeout=ctx.pick(300, 1500))
        if rc == 124:
            return k, None
        if rc != 0:
            raise RuntimeError("conc failed: " + err[-300:])
        return k, out
    with concurrent.futures.ThreadPoolExecutor(CONC_SHARDS) as ex:
        outs = list(ex.map(one, range(CONC_SHARDS)))
    concrete = False
    tot = {}
    sample = []
    reported = 0
    failing = 0
    for k, out in outs:
        if out is None:
            ctx.violation("impl-vs-spec", "concurrent family shard %d did not finish (a call through the cache never returns)" % k,
                          lines=["conc %d %d %d -1" % (ctx.seed, k, CONC_SHARDS)], concrete=True)
            concrete = True
            continue
        head, vs, hist = None, [], []
        for l in open(out, "r", errors="replace"):
            l = l.rstrip("\n")
            if l.startswith("S "):
                sample.append(l[2:])
            elif l.startswith("R "):
                head = dict(t.split("=", 1) for t in l.split()[1:])
            elif l.startswith("V "):
                vs.append(l[2:])
            elif l.startswith("H "):
                hist.append(l[2:])
            elif l == "E":
                failing += 1
                if reported < 3 and head:
                    reported += 1
                    seqonly = all(v.startswith(("sequential", "setup")) for v in vs if not v.startswith(" "))
                    ctx.violation(
                        "impl-vs-spec",
                        "concurrent family (one writer, %s readers through the cache and a child view, GOMAXPROCS=%s, round %s of "
                        "shard %s/%s): %s\n%s\nreplay re-runs this round repeatedly (the interleaving is not forced); the op "
                        "lines below are the round's history in sequential form" % (
                            head.get("readers"), head.get("gomaxprocs"), head.get("round"), head.get("shard"), head.get("nshards"),
                            "the sequential answers differ from direct application (the family left its class or the code changed "
                            "sequentially)" if seqonly else
                            "an answer equals the read-your-writes answer in NO state between the last mutation completed before "
                            "the read started and the last mutation started before it ended",
                            "\n".join(v[:500] for v in vs[:8])),
                        lines=["conc %s %s %s %s %s" % (head.get("seed"), head.get("shard"), head.get("nshards"), head.get("round"),
                                                       head.get("kinds", ""))] + ["# " + h for h in hist],
                        annotations=[v[:600] for v in vs[:8]], concrete=True)
                    concrete = True
                head, vs, hist = None, [], []
            elif l.startswith("conc "):
                for tok in l.split()[1:]:
                    key, _, v = tok.partition("=")
                    tot[key] = tot.get(key, 0) + int(v)
        os.unlink(out)
    ctx.evaluations += tot.get("reads", 0) + tot.get("mutations", 0)
    for key, v in tot.items():
        if ":" in key:
            ctx.histogram["conc:" + key] += v
    # the sample through the model
    model_lines = 0
    if sample:
        ops = ctx.path("conc_sample.ops")
        with open(ops, "w") as h:
            h.write("\n".join(sample) + "\n")
        a, b, c = sides.run_files(ops, "conc_sample")
        diffs = diff_indices(ops, a, b)
        cls = parse_cls(c)
        model_lines = len(sample)
        ctx.evaluations += model_lines
        if diffs:
            _, hist = history_at(sample, diffs[0])
            concrete |= judge(ctx, sides, prop, hist, "concurrent family, sequential form of a round")
        for line, cl in cls.items():
            if cl["c07"] or classes_for(prop, cl["classes"]):
                _, hist = history_at(sample, line)
                ctx.violation("impl-vs-model", "concurrent family: the sequential form of a round is not inside the class of "
                              "ryw_partial (classes %s, model/spec deviations %d, first %s): its reference answers are not the "
                              "model's view" % (",".join(cl["classes"]) or "-", cl["c07"], cl["first"]), lines=hist, concrete=False)
                break
        for f in (ops, a, b, c):
            if os.path.exists(f):
                os.unlink(f)
    ctx.extra["concurrent"] = dict(
        rounds=tot.get("rounds", 0), failing_rounds=failing, mutations=tot.get("mutations", 0), reads=tot.get("reads", 0),
        reads_overlapping_a_mutation=tot.get("overlapping", 0), reads_with_exactly_known_state=tot.get("exact", 0),
        overlapping_reads_answering_oldest_state=tot.get("window-old", 0),
        overlapping_reads_answering_newest_state=tot.get("window-new", 0),
        overlapping_reads_answering_inner_state=tot.get("window-inner", 0),
        violations=tot.get("violations", 0), shards=CONC_SHARDS,
        sequential_lines_through_the_model=model_lines,
        writer_mutation_kinds="WriteFile, MkdirAll (one new level), Remove of buffer-only file / empty directory; reader side: "
                              "IsExist IsFile IsDir ReadFile Reader Lstat ReadDir + CopyFile-source",
        left_out="Writer streams and CopyFile as the writer's mutations: on the unchanged code Lstat answers the size of the "
                 "prefix written so far while the stream is open (`cache conc <n> kinds=write,writer,copyfile,mkdir,remove,copysrc` "
                 "shows it)")
    if tot.get("rounds", 0) and not tot.get("overlapping", 0):
        ctx.notes.append("concurrent family: no read overlapped a mutation")
    return concrete


def replay_conc(ctx, sides, line):
    """replay file of the concurrent family: `conc <seed> <shard> <nshards> <round> [<kinds>]` - the round is re-run
    many times (the interleaving is up to the scheduler)"""
    f = line.split()
    if len(f) < 5:
        print("malformed conc line")
        return 2
    e = ctx.goenv()
    e["VERIF_SEED"] = f[1]
    argv = [sides.go, "conc", str(int(f[4]) + 1) if f[4] != "-1" else "64", f[2], f[3]]
    if f[4] != "-1":
        argv += ["only=" + f[4], "repeat=400"]
    if len(f) > 5:
        argv += ["kinds=" + f[5]]
    p = subprocess.run(argv, env=e, stdout=subprocess.PIPE, stderr=subprocess.STDOUT, timeout=1200)
    out = p.stdout.decode("utf-8", "replace").split("\n")
    bad = [l for l in out if l.startswith(("R ", "V "))]
    for l in bad[:20]:
        print(l[:600])
    for l in out:
        if l.startswith("conc "):
            print(l[:400])
    print("replay:", "still failing" if bad else "no violating interleaving in 400 runs of the round")
    return 1 if bad else 0


def replay_findings(ctx, sides, prop):
    """replay the witness of every listed finding of this property"""
    for kf in ctx.known_findings():
        wit = ["reset"] + [l for l in kf.get("witness", []) if l.strip() and not l.startswith("#")]
        cid = kf.get("class", kf["id"])
        ia, mv, cls = sides.run(wit, verbose=True)
        same = all(x == split_spec(y)[0] for x, y in zip(ia, mv))
        c = list(cls.values())[-1] if cls else dict(classes=[], c06=0, c07=0, first="-")
        still = c["c06"] if prop == "C06" else c["c07"]
        dev = ""
        for o, x, y in zip(wit, ia, mv):
            m, s = split_spec(y)
            if s is not None and m != s:
                dev = "`%s` answers `%s`, direct application `%s`" % (o, x[:80], s[:80])
                break
        ctx.extra.setdefault("known_finding_witness", []).append(
            dict(id=kf["id"], impl_equals_model=same, classes=c["classes"], deviation=dev or c["first"]))
        if same and still and cid in c["classes"]:
            ctx.known(kf["id"], "%s [%s]" % (kf["observed"][:220], dev or c["first"]))
        else:
            bad = [(o, x, y) for o, x, y in zip(wit, ia, mv) if x != split_spec(y)[0]]
            detail = ("the witness of %s no longer behaves as recorded (%s): the finding or the model is out of date" % (
                kf["id"], "implementation and model differ" if not same else
                "the model no longer deviates from the specification" if not still else "class %s not reported" % cid))
            conc = False
            if bad:
                conc, _ = is_concrete(prop, bad[0][0], bad[0][1], bad[0][2], [])
            ctx.violation("impl-vs-spec" if conc else "impl-vs-model", detail, lines=wit,
                          annotations=(["op: " + bad[0][0], "impl: " + bad[0][1][:400], "model: " + bad[0][2][:400]] if bad else []),
                          concrete=conc)


def corpus(ctx, sides, prop):
    """corpus/<prop>/*.ops that are not finding witnesses (minimised past failures): Impl = Model"""
    concrete = False
    # (the witnesses of repaired findings — known_findings.d `fixed` lines — stay here: the violation is reported
    # again if a defect returns)
    wit = {f["id"].lower() for f in ctx.known_findings()}
    for f in sorted(glob.glob(os.path.join(lib.ROOT, "corpus", prop, "*.ops"))):
        if os.path.basename(f)[:-4] in wit:
            continue
        hist = ["reset"] + op_lines(f)
        if not hist[-1].startswith("classify"):
            hist.append("classify 1")
        ia, mb, cls = sides.run(hist)
        ctx.evaluations += len(hist)
        ctx.histogram["corpus:files"] += 1
        if any(x != y and relevant(prop, o) for o, x, y in zip(hist, ia, mb)):
            concrete |= judge(ctx, sides, prop, hist, "corpus " + os.path.basename(f))
            continue
        # a repaired finding's witness must also satisfy the specification (no deviation outside the classes)
        key = "c06" if prop == "C06" else "c07"
        for c in cls.values():
            if c[key] and not classes_for(prop, c["classes"]):
                ctx.violation("impl-vs-spec", "corpus %s: the model (= the implementation on this history) deviates from "
                              "direct application (%s) outside every listed class of %s" % (os.path.basename(f), c["first"], prop),
                              lines=hist, concrete=True)
                concrete = True
    return concrete


def account(ctx, results):
    """samples and coverage gaps"""
    r0 = [r for r in results if r["mode"] == "gen" and r["shard"] == 0 and not r["timeout"]]
    if r0 and os.path.exists(r0[0]["ops"]):
        try:
            ops_lines = op_lines(r0[0]["ops"])
            _, hist = history_at(ops_lines, 0)
            ia, mb = lines_of(r0[0]["impl"])[:len(hist)], lines_of(r0[0]["model"])[:len(hist)]
            ctx.samples.append(dict(ops=[h[:160] for h in hist[:60]], impl=[x[:160] for x in ia[:60]],
                                    model=[x[:160] for x in mb[:60]]))
        except (OSError, IndexError):
            pass
    gaps = []
    for cmd in ("write", "writer", "mkdir", "remove", "removeall", "copy", "copyfile", "copydir"):
        for res in ("ok", "err"):
            if not ctx.histogram.get("%s:%s" % (cmd, res)):
                gaps.append("%s:%s" % (cmd, res))
    for key in ("readfile:data", "readfile:err", "readdir:list", "readdir:err", "reader:rd", "reader:err", "lstat:stat",
                "lstat:err", "isexist:t", "isexist:f", "isfile:t", "isfile:f", "isdir:t", "isdir:f", "dump:tree",
                "view:ok", "commit:ok", "commit:err", "commit-failat:ok", "commit-failat:err"):
        if not ctx.histogram.get(key):
            gaps.append(key)
    if gaps:
        ctx.notes.append("coverage gap: no case of " + ", ".join(gaps))


def replay(ctx, path, prop):
    sides = Sides(ctx)
    hist = lib.replay_ops(path)
    if hist and hist[0].startswith("conc "):
        return replay_conc(ctx, sides, hist[0])
    if not hist or hist[0] != "reset":
        hist = ["reset"] + hist
    if not any(l.startswith("classify") for l in hist):
        hist.append("classify 1")
    ia, mv, cls = sides.run(hist, verbose=True, watchdog=10)
    rc = 0
    for o, x, y in zip(hist, ia, mv):
        m, s = split_spec(y)
        print("op    ", o[:300])
        print("impl  ", x[:300])
        print("model ", m[:300])
        if s is not None:
            print("spec  ", s[:300])
        if x != m or x in ("panic", "hang", "swallowed"):
            rc = 1
    for line, c in sorted(cls.items()):
        print("classes", ",".join(c["classes"]) or "-", "model/spec deviations: c06=%d c07=%d first=%s" % (c["c06"], c["c07"], c["first"]))
        key = c["c06"] if prop == "C06" else c["c07"]
        if key and not classes_for(prop, c["classes"]):
            rc = 1
    out = ctx.path("replay.ref")
    ops = ctx.path("replay.ops")
    open(ops, "w").write("\n".join(hist) + "\n")
    sh(ctx, [sides.go, "refcheck"], stdin=ops, stdout=out)
    for l in open(out):
        if l.startswith(("FAIL", "oracle")):
            print("ref   ", l.rstrip("\n")[:400])
    print("replay:", "still failing" if rc else "implementation and model agree; every deviation from direct application is in a listed class")
    return rc
