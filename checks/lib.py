"""Shared machinery of the goatcore checks (see DESIGN.md section 1).

A property module `checks/cNN.py` defines

    META  = {...}              # what MANIFEST.json says about the check
    def run(ctx): ...          # the check proper; uses the helpers of `Ctx`
    def replay(ctx, path): ... # optional, default: lib.default_replay

and `./check CNN quick|thorough` calls `run(ctx)` then `ctx.finish()`.

Every check has the same three stages (DESIGN 1.1):
  1. proof obligations   ctx.lean_obligations(...)    lake build + axiom audit of Props/CNN.lean
  2. correspondence      ctx.build_go / ctx.build_model / ctx.run_lines / ctx.diff_streams
  3. verdict + evidence  ctx.violation(...), ctx.finish()
and the same rule for breakage (DESIGN 1.3): a broken obligation or a model/implementation
difference is followed by a search for a concrete failing input; the VIOLATION line ends with
`no-failing-input-found` when that search found none.
"""
import collections
import fcntl
import hashlib
import json
import os
import re
import shutil
import subprocess
import sys
import time

ROOT = os.path.dirname(os.path.dirname(os.path.abspath(__file__)))
LEAN = os.path.join(ROOT, "lean")
HARNESS = os.path.join(ROOT, "harness")
REPO = os.environ.get("VERIF_REPO", "/repo")
GOENV = dict(GOFLAGS="-mod=mod", GOPROXY="off", GOSUMDB="off", GOTOOLCHAIN="local")
ALLOWED_AXIOMS = {"propext", "Classical.choice", "Quot.sound"}
FORBIDDEN = re.compile(
    r"\bsorry\b|\badmit\b|^\s*axiom\s|native_decide|bv_decide|implemented_by|\bunsafe\s|maxHeartbeats\s+0\b",
    re.M)
TRUSTED_BASE_COMMON = [
    "Lean 4.33.0 kernel; axioms limited to propext, Classical.choice, Quot.sound (audited by #print axioms on every run)",
    "hand-written Lean model tied to /repo only by the differential correspondence run of this check (generator reach is printed in coverage.histogram)",
    "harness canonicalisation and op-line parsers on both sides",
]


def env_seed():
    try:
        return int(os.environ.get("VERIF_SEED", "1"))
    except ValueError:
        return 1


def strip_lean_comments(src):
    """remove /- ... -/ (nested) and -- comments, keep line structure"""
    out, i, depth, n = [], 0, 0, len(src)
    while i < n:
        if src.startswith("/-", i):
            depth += 1
            i += 2
        elif depth and src.startswith("-/", i):
            depth -= 1
            i += 2
        elif depth:
            if src[i] == "\n":
                out.append("\n")
            i += 1
        elif src.startswith("--", i):
            while i < n and src[i] != "\n":
                i += 1
        elif src[i] == '"':
            j = i + 1
            while j < n and src[j] != '"':
                j += 2 if src[j] == "\\" else 1
            out.append('""')
            i = j + 1
        else:
            out.append(src[i])
            i += 1
    return "".join(out)


def theorems_of(path):
    """fully qualified names of the `theorem`s declared in a Lean file (namespace-aware), with lines"""
    src = strip_lean_comments(open(path).read())
    ns, res = [], []
    for ln, line in enumerate(src.split("\n"), 1):
        m = re.match(r"\s*namespace\s+(\S+)", line)
        if m:
            ns.append(m.group(1))
            continue
        m = re.match(r"\s*end\s+(\S+)\s*$", line)
        if m and ns and ns[-1] == m.group(1):
            ns.pop()
            continue
        m = re.match(r"\s*(?:@\[[^\]]*\]\s*)?(?:private\s+|protected\s+)?theorem\s+([^\s:({\[]+)", line)
        if m:
            res.append((".".join(ns + [m.group(1)]), ln))
    return res


class Ctx:
    def __init__(self, prop, tier, seed=None):
        self.prop = prop
        self.tier = tier
        self.seed = env_seed() if seed is None else seed
        self.t0 = time.time()
        self.repo = REPO
        self.rundir = os.path.join(ROOT, ".run", "%s-%d" % (prop, os.getpid()))
        shutil.rmtree(self.rundir, ignore_errors=True)
        os.makedirs(self.rundir)
        self.obligations = []       # dict(name, ok, axioms, reason)
        self.checker_cmd = ""
        self.evaluations = 0
        self.distinct = set()
        self.distinct_extra = 0     # distinct cases counted in bulk (e.g. an exhaustive enumeration)
        self.rule = ""
        self.samples = []
        self.histogram = collections.Counter()
        self.extra = {}
        self.exhaustive = None
        self.violations = []        # dict(kind, detail, replay, concrete)
        self.known_printed = []
        self.assumptions = []
        self.trusted_base = list(TRUSTED_BASE_COMMON)
        self.notes = []
        self._goenv = None

    # ------------------------------------------------------------------ utilities
    def log(self, *a):
        print("[%s %s +%.1fs]" % (self.prop, self.tier, time.time() - self.t0), *a, flush=True)

    def path(self, name):
        return os.path.join(self.rundir, name)

    def quick(self):
        return self.tier != "thorough"

    def pick(self, quick, thorough):
        return quick if self.quick() else thorough

    def goenv(self):
        env = dict(os.environ)
        env.update(GOENV)
        if getattr(self, "_minimising", False):
            # probes of a minimisation: drivers may use their short watchdog from the start (a hang was waited
            # for generously before the minimisation began, and its result is confirmed without this flag)
            env["VERIF_MINIMISING"] = "1"
        else:
            env.pop("VERIF_MINIMISING", None)
        return env

    def run(self, argv, stdin=None, stdout=None, timeout=3600, env=None, cwd=None, check=False):
        """run a command; stdin/stdout are file paths (or None); returns (rc, stderr_text)"""
        fin = open(stdin, "rb") if stdin else subprocess.DEVNULL
        fout = open(stdout, "wb") if stdout else subprocess.DEVNULL
        try:
            p = subprocess.run(argv, stdin=fin, stdout=fout, stderr=subprocess.PIPE, timeout=timeout,
                               env=env or self.goenv(), cwd=cwd)
            rc, err = p.returncode, p.stderr.decode("utf-8", "replace")
        except subprocess.TimeoutExpired as e:
            rc, err = 124, "timeout after %ss: %s" % (timeout, (e.stderr or b"").decode("utf-8", "replace"))
        finally:
            if stdin:
                fin.close()
            if stdout:
                fout.close()
        if check and rc != 0:
            self.fatal("command failed (%d): %s\n%s" % (rc, " ".join(argv), err[-4000:]))
        return rc, err

    def capture(self, argv, input_text=None, timeout=3600, cwd=None, env=None):
        p = subprocess.run(argv, input=input_text, stdout=subprocess.PIPE, stderr=subprocess.STDOUT,
                           timeout=timeout, cwd=cwd, env=env or self.goenv(), text=True)
        return p.returncode, p.stdout

    def fatal(self, msg):
        """infrastructure failure (cannot build /repo, tool missing): not a verdict about the property"""
        print("CHECK-ERROR property=%s %s" % (self.prop, msg), flush=True)
        self.cleanup()
        sys.exit(2)

    # ------------------------------------------------------------------ stage 1: Lean
    def _lake(self, targets, timeout=3000):
        lock = open(os.path.join(LEAN, ".check.lock"), "w")
        fcntl.flock(lock, fcntl.LOCK_EX)
        try:
            return self.capture(["lake", "build"] + targets, cwd=LEAN, timeout=timeout)
        finally:
            fcntl.flock(lock, fcntl.LOCK_UN)
            lock.close()

    def lean_obligations(self, props_module=None, extra_modules=(), extra_files=()):
        """Build Props/<prop>.lean (and extra modules, e.g. Goat.Tie.CNN), audit every theorem in it.
        Fills self.obligations; returns list of failed obligation names."""
        props_module = props_module or "Goat.Props.%s" % self.prop
        modules = [props_module] + list(extra_modules)
        files = [os.path.join(LEAN, m.replace(".", "/") + ".lean") for m in modules]
        self.checker_cmd = ("cd /verif/lean && lake build %s && lake env lean <generated audit: "
                            "#print axioms for every theorem>" % " ".join(modules))
        names = []
        for f in files:
            if not os.path.exists(f):
                self.obligations.append(dict(name=f, ok=False, axioms=[], reason="missing file"))
                continue
            names += [(n, ln, f) for n, ln in theorems_of(f)]
        # forbidden tokens anywhere in the import closure of the obligations (project files only)
        bad_tokens = []
        for p in sorted(self._closure(files)):
            m = FORBIDDEN.search(strip_lean_comments(open(p).read()))
            if m:
                bad_tokens.append("%s: %s" % (os.path.relpath(p, LEAN), m.group(0).strip()))
        self.extra["lean_files_audited"] = len(self._closure(files))
        rc, out = self._lake(modules)
        failed_lines = {}
        dep_failure = None
        if rc != 0:
            for m in re.finditer(r"error: ([^\s:]+\.lean):(\d+):(\d+): (.*)", out):
                failed_lines.setdefault(os.path.join(LEAN, m.group(1)), []).append((int(m.group(2)), m.group(4)))
            if not any(f in failed_lines for f in files):
                dep_failure = out[-1500:]
        audit = {}
        if rc == 0 and names:
            af = self.path("Audit.lean")
            with open(af, "w") as h:
                h.write("".join("import %s\n" % m for m in modules))
                for n, _, _ in names:
                    h.write("#print axioms %s\n" % n)
            rc2, aout = self.capture(["lake", "env", "lean", af], cwd=LEAN, timeout=600)
            for m in re.finditer(r"'([^']+)' depends on axioms: \[([^\]]*)\]", aout):
                audit[m.group(1)] = [a.strip() for a in m.group(2).replace("\n", " ").split(",") if a.strip()]
            for m in re.finditer(r"'([^']+)' does not depend on any axioms", aout):
                audit[m.group(1)] = []
            if rc2 != 0 and not audit:
                dep_failure = "audit failed: " + aout[-800:]
        for n, ln, f in names:
            ob = dict(name=n, ok=True, axioms=audit.get(n, []), reason="")
            if rc != 0:
                errs = failed_lines.get(f, [])
                # attribute an error to the theorem whose declaration line is the last one <= error line
                mine = [e for e in errs if self._owner(names, f, e[0]) == n]
                if dep_failure is not None:
                    ob.update(ok=False, reason="dependency of %s does not build" % os.path.basename(f))
                elif mine:
                    ob.update(ok=False, reason="line %d: %s" % mine[0])
                else:
                    # file failed elsewhere: the .olean was not produced, so nothing in it is checked
                    ob.update(ok=False, reason="module did not compile (error in another declaration)")
            elif n not in audit:
                ob.update(ok=False, reason="not found by #print axioms")
            elif set(audit[n]) - ALLOWED_AXIOMS:
                ob.update(ok=False, reason="uses axioms %s" % sorted(set(audit[n]) - ALLOWED_AXIOMS))
            elif bad_tokens:
                ob.update(ok=False, reason="forbidden token in sources: %s" % "; ".join(bad_tokens[:3]))
            self.obligations.append(ob)
        if not names:
            self.obligations.append(dict(name=props_module, ok=False, axioms=[], reason="no theorems found"))
        self.lean_log = out if rc != 0 else ""
        failed = [o for o in self.obligations if not o["ok"]]
        self.log("obligations %d, discharged %d" % (len(self.obligations), len(self.obligations) - len(failed)))
        return failed

    @staticmethod
    def _closure(files):
        """project-local transitive imports of the given Lean files"""
        seen, todo = set(), [f for f in files if os.path.exists(f)]
        while todo:
            f = todo.pop()
            if f in seen:
                continue
            seen.add(f)
            for m in re.finditer(r"^\s*import\s+((?:Goat|Driver)\.[\w.]+)", open(f).read(), re.M):
                g = os.path.join(LEAN, m.group(1).replace(".", "/") + ".lean")
                if os.path.exists(g):
                    todo.append(g)
        return seen

    @staticmethod
    def _owner(names, f, line):
        best = None
        for n, ln, ff in names:
            if ff == f and ln <= line:
                best = n
        return best

    def leanchecker(self, modules):
        """thorough tier: independent kernel re-check of the compiled .olean files"""
        rc, out = self.capture(["lake", "env", "leanchecker"] + list(modules), cwd=LEAN, timeout=3000)
        self.extra["leanchecker"] = dict(modules=list(modules), rc=rc, tail=out[-300:])
        if rc != 0:
            for o in self.obligations:
                o.update(ok=False, reason="leanchecker rejected: " + out[-300:])
        return rc == 0

    def build_model(self, exe):
        rc, out = self._lake([exe])
        if rc != 0:
            self.fatal("model driver %s does not build:\n%s" % (exe, out[-3000:]))
        src = os.path.join(LEAN, ".lake", "build", "bin", exe)
        dst = self.path(exe)
        shutil.copy2(src, dst)
        return dst

    # ------------------------------------------------------------------ stage 2: Go side
    def _modfile(self):
        """go.mod for the harness with `replace goatcore => <repo under test>`"""
        if self.repo == "/repo":
            shutil.copy2(os.path.join(self.repo, "go.sum"), os.path.join(HARNESS, "go.sum"))
            return None
        d = self.path("mod")
        os.makedirs(d, exist_ok=True)
        src = open(os.path.join(HARNESS, "go.mod")).read().replace("=> /repo", "=> " + self.repo)
        open(os.path.join(d, "go.mod"), "w").write(src)
        shutil.copy2(os.path.join(self.repo, "go.sum"), os.path.join(d, "go.sum"))
        return os.path.join(d, "go.mod")

    def build_go(self, cmd, tags="verif", race=False):
        """build harness/cmd/<cmd> against the current working tree of the repository under test"""
        out = self.path("go_" + cmd + ("_race" if race else ""))
        argv = ["go", "build", "-tags", tags, "-o", out]
        mf = self._modfile()
        if mf:
            argv += ["-modfile", mf]
        if race:
            argv += ["-race"]
        argv += ["./cmd/" + cmd]
        rc, txt = self.capture(argv, cwd=HARNESS, timeout=1200)
        if rc != 0:
            self.fatal("harness %s does not build against %s:\n%s" % (cmd, self.repo, txt[-3000:]))
        return out

    def run_lines(self, binary, args, ops_path, out_path, timeout=3600, env=None):
        e = self.goenv()
        e.setdefault("GOMEMLIMIT", "6GiB")
        if env:
            e.update(env)
        rc, err = self.run([binary] + list(args), stdin=ops_path, stdout=out_path, timeout=timeout, env=e)
        return rc, err

    # ------------------------------------------------------------------ comparison helpers
    def diff_streams(self, ops_path, a_path, b_path, limit=20, per_op_lines=None):
        """line-by-line comparison of two result streams; returns list of (index, op, a, b).
        ops and results are 1:1 unless per_op_lines maps an op line to a result-line count."""
        res = []
        if subprocess.call(["cmp", "-s", a_path, b_path]) == 0:
            self.evaluations += self.count_lines(a_path)
            return res
        with open(a_path, "rb") as fa, open(b_path, "rb") as fb:
            i = 0
            ops = None
            if ops_path:
                ops = (l for l in open(ops_path, "r", errors="replace") if l.strip() and not l.startswith("#"))
            cur_op, left = None, 0
            while True:
                la, lb = fa.readline(), fb.readline()
                if not la and not lb:
                    break
                if ops is not None:
                    if left == 0:
                        cur_op = next(ops, None)
                        left = per_op_lines(cur_op) if (per_op_lines and cur_op) else 1
                    left -= 1
                if la != lb:
                    res.append((i, (cur_op or "").rstrip("\n"), la.decode("utf-8", "replace").rstrip("\n"),
                                lb.decode("utf-8", "replace").rstrip("\n")))
                    if len(res) >= limit:
                        break
                i += 1
        self.evaluations += i
        return res

    def count_lines(self, path):
        return int(subprocess.check_output(["wc", "-l", path]).split()[0])

    def grep_count(self, pattern, path, invert=False):
        p = subprocess.run(["grep", "-c" + ("v" if invert else "") + "E", pattern, path], stdout=subprocess.PIPE)
        return int(p.stdout.split()[0]) if p.stdout.strip() else 0

    def note_case(self, key, nontrivial=True, kind=None):
        """account one explored case: key identifies it (hashed), kind feeds the histogram"""
        if nontrivial:
            self.distinct.add(hashlib.blake2b(key.encode("utf-8", "replace") if isinstance(key, str) else key,
                                              digest_size=8).digest())
        if kind:
            self.histogram[kind] += 1

    def ddmin(self, lines, fails, keep_prefix=0):
        """delta-debugging on a list of op lines; `fails(lines)->bool`; first keep_prefix lines are kept"""
        head, body = lines[:keep_prefix], lines[keep_prefix:]
        n = 2
        self._minimising = True
        try:
            body = self._ddmin_body(head, body, fails, n)
        finally:
            self._minimising = False
        if len(body) < len(lines) - keep_prefix and not fails(head + body):
            return list(lines)      # the reduced history fails only under the short watchdog: keep the original
        return head + body

    def _ddmin_body(self, head, body, fails, n):
        while len(body) >= 2:
            chunk = max(1, len(body) // n)
            reduced = False
            for i in range(0, len(body), chunk):
                cand = body[:i] + body[i + chunk:]
                if cand and fails(head + cand):
                    body, n, reduced = cand, max(n - 1, 2), True
                    break
            if not reduced:
                if chunk == 1:
                    break
                n = min(len(body), n * 2)
        return body

    # ------------------------------------------------------------------ known findings
    def known_findings(self):
        """entries of this property from known_findings.d/*.json (fragments, one per property; the
        committed single file known_findings.json is the merge written by `./check manifest`)"""
        import glob
        res = []
        for p in sorted(glob.glob(os.path.join(ROOT, "known_findings.d", "*.json"))):
            res += [f for f in json.load(open(p)).get("findings", []) if f.get("property") == self.prop]
        return res

    def known(self, fid, what):
        line = "KNOWN-FINDING: property=%s %s %s" % (self.prop, fid, what)
        print(line, flush=True)
        self.known_printed.append(line)

    # ------------------------------------------------------------------ stage 3: verdict
    def violation(self, kind, detail, lines=(), concrete=True, theorem=None, annotations=()):
        """record a violation and write its replay file.
        kind: impl-vs-spec | impl-vs-model | obligation ; concrete: a failing input was found"""
        os.makedirs(os.path.join(ROOT, "replays"), exist_ok=True)
        n = len(self.violations) + 1
        path = os.path.join(ROOT, "replays", "%s-%d-%d.ops" % (self.prop, self.seed, n))
        with open(path, "w") as h:
            h.write("# property: %s\n# kind: %s\n" % (self.prop, kind))
            if theorem:
                h.write("# theorem: %s\n" % theorem)
            h.write("# tier: %s seed: %d repo: %s\n" % (self.tier, self.seed, self.repo))
            for d in detail.split("\n"):
                h.write("# %s\n" % d)
            if not concrete:
                h.write("# no-failing-input-found: the property is no longer shown to hold, but no input was found "
                        "on which the implementation contradicts it\n")
            for a in annotations:
                h.write("#! %s\n" % a)
            for l in lines:
                h.write(l.rstrip("\n") + "\n")
        self.violations.append(dict(kind=kind, detail=detail, replay=path, concrete=concrete))
        return path

    def obligation_violations(self, failed, searcher=None):
        """DESIGN 1.3 row 1: a theorem no longer checks.  `searcher()` runs the deep search on the
        implementation and returns True when it recorded a concrete violation itself."""
        if not failed:
            return
        found = bool(searcher and searcher())
        if not found:
            names = ", ".join(o["name"] for o in failed[:6])
            self.violation("obligation", "proof obligations no longer check: %s\n%s" % (
                names, "\n".join("%s: %s" % (o["name"], o["reason"]) for o in failed[:12])),
                concrete=False, theorem=failed[0]["name"])

    def evidence(self):
        ob = len(self.obligations)
        dis = len([o for o in self.obligations if o["ok"]])
        cov = dict(
            obligations=ob, discharged=dis, checker_cmd=self.checker_cmd or "n/a",
            trusted_base=self.trusted_base,
            theorems=[dict(name=o["name"], ok=o["ok"], axioms=o["axioms"], **({"reason": o["reason"]} if o["reason"] else {}))
                      for o in self.obligations],
            evaluations=self.evaluations, distinct_nontrivial=len(self.distinct) + self.distinct_extra,
            rule=self.rule, samples=self.samples[:6], histogram=dict(self.histogram),
            known_findings_replayed=self.known_printed,
        )
        if self.exhaustive is not None:
            cov["exhaustive"] = self.exhaustive
        cov.update(self.extra)
        return dict(property_id=self.prop, tier=self.tier, seed=self.seed, level="proof", coverage=cov,
                    assumptions=self.assumptions, wall_s=round(time.time() - self.t0, 2),
                    violations=len(self.violations), repo=self.repo, notes=self.notes)

    def cleanup(self):
        if not os.environ.get("VERIF_KEEP"):
            shutil.rmtree(self.rundir, ignore_errors=True)

    def finish(self):
        os.makedirs(os.path.join(ROOT, "evidence"), exist_ok=True)
        ev = self.evidence()
        evp = os.environ.get("VERIF_EVIDENCE") or os.path.join(ROOT, "evidence", "%s.json" % self.prop)
        tmp = evp + ".tmp%d" % os.getpid()
        with open(tmp, "w") as h:
            json.dump(ev, h, indent=1, sort_keys=True)
        os.replace(tmp, evp)
        self.cleanup()
        if self.violations:
            # one VIOLATION line per distinct replay; concrete ones first
            for v in sorted(self.violations, key=lambda v: not v["concrete"]):
                print("VIOLATION property=%s replay=%s%s" % (
                    self.prop, v["replay"], "" if v["concrete"] else " no-failing-input-found"), flush=True)
            sys.exit(1)
        self.log("ok: %d obligations discharged, %d evaluations, %d distinct non-trivial, %.1fs" % (
            ev["coverage"]["discharged"], self.evaluations, len(self.distinct) + self.distinct_extra, ev["wall_s"]))
        sys.exit(0)


def replay_ops(path):
    """op lines of a replay file (comments and annotations dropped)"""
    return [l.rstrip("\n") for l in open(path) if l.strip() and not l.startswith("#")]
