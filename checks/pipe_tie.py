"""Structural tie of the pipeline family (C14, C16; DESIGN 1.4) — the wiring shared by checks/c14.py and c16.py.
Sibling of checks/fs_tie.py (same protocol, other extractor and module names).

`harness/cmd/pipefacts facts <Cxx>` (go/ast, standard library only) prints normal forms of the Go functions that
lean/Goat/Model/Pipeline.lean mirrors (Runner.Run / runGo / waitForTasks, TaskManager.Create / Wait, Task.Close /
Wait, termexec.RunLoop / RunCommand, pipc.Run, pipc.Try, scope.New / NewChild / Wait / AddTasks); they are written to
lean/Goat/Tie/ExtractedPipe<Cxx>.lean on every run and compared with the hand-written expectations by the theorems
`tie_*` of lean/Goat/Tie/Pipe<Cxx>.lean.

The tie theorems are proof obligations of the check like the theorems of Props/<Cxx>.lean: they are counted,
audited, and a failing one goes down the same road (DESIGN 1.3): `ctx.obligation_violations(failed, searcher)`,
i.e. the check's search for a concrete failing input (a thorough-depth trace campaign), and
`VIOLATION … no-failing-input-found` when there is none.  A moved skeleton is never ignored and never by itself
called a counterexample.
"""
import fcntl
import os

import lib

NOTE = ("go/ast fact extractor harness/cmd/pipefacts (syntactic, trusted as such): it normalises the TEXT of the named "
        "functions (locals renamed per declaration, comments / status texts / progress output / yield points / message "
        "texts dropped, long functions filtered to the statements about scopes, the task table and the latches) and does "
        "not follow calls; the expectations in lean/Goat/Tie/Pipe%s.lean are hand-written from the header comments of "
        "lean/Goat/Model/Pipeline.lean; theorems: %s")

META_NOTE = ("STRUCTURAL TIE (syntactic, trusted as such): harness/cmd/pipefacts (go/ast) regenerates "
             "lean/Goat/Tie/ExtractedPipe%s.lean from the sources on every run and the theorems tie_* of "
             "lean/Goat/Tie/Pipe%s.lean compare the skeletons of %s with what the model's steps assume; a moved skeleton "
             "fails a theorem by name and is a broken obligation (search, then VIOLATION ... no-failing-input-found). "
             "It pins the text of those functions, not what they call. The level stays PARTIAL: that the running "
             "system realises the model is still sampled by trace conformance.")


def tie_module(ctx):
    return "Goat.Tie.Pipe%s" % ctx.prop


def _extracted_path(ctx):
    return os.path.join(lib.LEAN, "Goat", "Tie", "ExtractedPipe%s.lean" % ctx.prop)


def regenerate(ctx, repo):
    """write lean/Goat/Tie/ExtractedPipe<Cxx>.lean from the sources under `repo` (only when it changes, under the
    build lock so that no lake build of another check reads a half-written file)"""
    go = getattr(ctx, "_pipefacts", None)
    if not go or not os.path.exists(go):
        go = ctx._pipefacts = ctx.build_go("pipefacts")
    env = ctx.goenv()
    env["VERIF_REPO"] = repo
    rc, out = ctx.capture([go, "facts", ctx.prop], env=env)
    if rc != 0 or "namespace Goat.Tie.ExtractedPipe%s" % ctx.prop not in out:
        ctx.fatal("fact extraction (pipefacts facts %s) failed: %s" % (ctx.prop, out[-800:]))
    dst = _extracted_path(ctx)
    with open(os.path.join(lib.LEAN, ".check.lock"), "w") as lock:
        fcntl.flock(lock, fcntl.LOCK_EX)
        try:
            old = open(dst).read() if os.path.exists(dst) else None
            if old != out:
                tmp = dst + ".tmp%d" % os.getpid()
                with open(tmp, "w") as h:
                    h.write(out)
                os.replace(tmp, dst)
        finally:
            fcntl.flock(lock, fcntl.LOCK_UN)
    return out


def obligations(ctx):
    """Stage 1 of a pipeline check: regenerate the extracted facts from the repository under test, then the
    theorems of Props/<Cxx>.lean and the tie theorems, each audited.  Returns the failed obligations (Props first)."""
    text = regenerate(ctx, ctx.repo)
    ctx.extra["structural_tie"] = dict(
        module=tie_module(ctx), extracted="lean/Goat/Tie/ExtractedPipe%s.lean" % ctx.prop,
        facts=[l.split()[1] for l in text.split("\n") if l.startswith("def ")],
        fact_lines=sum(1 for l in text.split("\n") if l.startswith("  \"")))
    failed = list(ctx.lean_obligations(props_module="Goat.Props." + ctx.prop))
    cmd, audited = ctx.checker_cmd, ctx.extra.get("lean_files_audited", 0)
    # audited separately, so that a moved skeleton fails the tie_* theorems only (a joint `lake build` that fails
    # would leave every theorem of Props/<Cxx> unaudited)
    n_before = len(ctx.obligations)
    tie = []
    for attempt in range(6):
        ctx.lean_obligations(props_module=tie_module(ctx))
        tie = ctx.obligations[n_before:]
        # the lake project is shared: a concurrent run of this check against another tree (a mutant sweep) may have
        # rewritten the extracted file between our write and the build.  The verdict must be about OUR tree.
        try:
            same = open(_extracted_path(ctx)).read() == text
        except OSError:
            same = False
        if same:
            break
        del ctx.obligations[n_before:]
        tie = []
        ctx.log("extracted facts were overwritten by a concurrent run; regenerating (attempt %d)" % (attempt + 2))
        text = regenerate(ctx, ctx.repo)
    if not tie:
        ctx.fatal("the extracted facts file kept being overwritten by concurrent runs of %s" % ctx.prop)
    ctx.extra["lean_files_audited"] = audited + ctx.extra.get("lean_files_audited", 0)
    ctx.checker_cmd = cmd.replace("Goat.Props.%s &&" % ctx.prop, "Goat.Props.%s %s &&" % (ctx.prop, tie_module(ctx)))
    ctx.extra["structural_tie"]["theorems"] = len(tie)
    broken = [o for o in tie if not o["ok"]]
    # Lean reports every failing declaration of a module; the others are only "not audited" because the module
    # produced no .olean.  The ones that failed by themselves come first: they name the skeleton that moved.
    named = [o for o in broken if o["reason"].startswith("line ")]
    others = [o for o in broken if not o["reason"].startswith("line ")]
    ctx.extra["structural_tie"]["broken"] = [o["name"].split(".")[-1] for o in (named or others)]
    for o in named or others:
        ctx.notes.append("structural tie broken: %s (%s): the Go code it pins no longer has the skeleton the Lean "
                         "model assumes" % (o["name"], " ".join(o["reason"].split())[:200]))
    if named and others:
        ctx.notes.append("%d further tie theorems of %s were not audited because the module did not compile"
                         % (len(others), tie_module(ctx)))
    if broken:
        # every replay file written by this run says which structural fact was broken at the time
        what = "structural tie broken (DESIGN 1.4): " + ", ".join(o["name"] for o in (named or others)[:8])
        orig = ctx.violation

        def violation(kind, detail, lines=(), concrete=True, theorem=None, annotations=()):
            return orig(kind, detail, lines=lines, concrete=concrete, theorem=theorem,
                        annotations=list(annotations) + [what])
        ctx.violation = violation
    ctx.trusted_base.append(NOTE % (ctx.prop, ", ".join(o["name"].split(".")[-1] for o in tie)))
    # the violation text names the theorems that failed by themselves; the ones that merely went unaudited with
    # them stay `ok: false` in the evidence (they were not checked in this run) but are not called broken
    return failed + (named or others)


def restore(ctx):
    """after a run against a scratch worktree (VERIF_REPO): leave the shared lake project in the state of /repo
    (the extracted facts of /repo, and the tie module built from them, so that the next run is a no-op build)"""
    if ctx.repo != "/repo":
        had_rundir = os.path.isdir(ctx.rundir)
        os.makedirs(ctx.rundir, exist_ok=True)
        try:
            regenerate(ctx, "/repo")
            ctx._lake([tie_module(ctx)])
        except SystemExit:
            pass
        if not had_rundir:      # the run ended in ctx.fatal, which had already removed the scratch directory
            ctx.cleanup()
