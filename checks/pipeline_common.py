"""Shared machinery of the C14 / C16 checks (pipeline runner, pip:try).

The implementation side is `harness/cmd/pipeline` (a real app: commonm + terminalm + ocm + pipelinem,
memory filespaces, self sandbox, probe commands, gates); it executes generated task graphs and
records sequence-numbered events.  The Spec side is the Lean trace monitor `m_pipeline`
(`Goat.Pipeline.accepts`, proved in Props/C14.lean to decide exactly the declarative property every
model run has).  A monitor `reject` on an implementation trace IS the property failing on the
implementation for that input (impl-vs-spec); there is no separate model stream to diff because the
schedule is the Go runtime's.
"""
import collections
import glob
import os
import subprocess

import lib

INFRA = ("malformed-graph", "bad-event-line", "trace-truncated", "end-without-graph",
         "bad-sim-line")


def split_cases(path):
    """list of cases, each a list of lines (graph … end)"""
    cases, cur = [], None
    for l in open(path):
        if l.startswith("#") or not l.strip():
            continue
        if l.startswith("graph"):
            cur = [l]
            cases.append(cur)
        elif cur is not None:
            cur.append(l)
    return cases


def steer_of(case):
    """the steer= field of the graph line ('' when the case is not steered)"""
    for tok in case[0].split():
        if tok.startswith("steer="):
            return tok[6:]
    return ""


def scope_of(case):
    """the scope= field of the graph line: in which kind of scope the implementation runs the scripts ('app' when absent)"""
    for tok in case[0].split():
        if tok.startswith("scope="):
            return tok[6:]
    return "app"


def has_clear(case):
    """some body of the case runs the real pip:clear (command kind c)"""
    for l in case:
        if l.startswith("task "):
            b = l.split()[-1]
            if b.startswith("b=") and "c" in b[2:].split(","):
                return True
    return False


def case_key(case):
    """identity of a case = its header without the case id / seed (the graph itself) + the steering policy + the scope kind"""
    sk = scope_of(case)
    return steer_of(case) + "|" + ("" if sk == "app" else sk + "|") + "".join(l for l in case if l.split(" ", 1)[0] in ("task", "try", "top"))


def nontrivial(case):
    """more than one task and at least one wait edge, nested submission or try block"""
    n = sum(1 for l in case if l.startswith("task "))
    rich = any((" w=" in l and " w=- " not in l) or ",s" in l or "=s" in l or ",y" in l or "=y" in l
               for l in case if l.startswith("task "))
    return n >= 2 and rich


def run_shards(ctx, go, model, cases, tag, sims=0, timeout=3000):
    """drive the cases on the real code in parallel shards and monitor the traces.
    returns list of (case_lines, trace_lines, verdict_lines) in the original order"""
    k = max(1, min(16, (len(cases) + 49) // 50))
    shards = [[] for _ in range(k)]
    for i, c in enumerate(cases):
        shards[i % k].append((i, c))
    procs = []
    for j, sh in enumerate(shards):
        cp, tp, vp = ctx.path("%s.%d.cases" % (tag, j)), ctx.path("%s.%d.trace" % (tag, j)), ctx.path("%s.%d.verd" % (tag, j))
        with open(cp, "w") as h:
            for _, c in sh:
                h.writelines(c)
                if not c[-1].startswith("end"):
                    h.write("end\n")
        env = ctx.goenv()
        env.setdefault("GOMEMLIMIT", "4GiB")
        p = subprocess.Popen("%s drive < %s > %s 2> %s.err && %s < %s > %s" % (go, cp, tp, tp, model, tp, vp),
                             shell=True, env=env)
        procs.append((p, sh, tp, vp))
    res = [None] * len(cases)
    for p, sh, tp, vp in procs:
        try:
            rc = p.wait(timeout=timeout)
        except subprocess.TimeoutExpired:
            p.kill()
            ctx.fatal("pipeline shard did not finish within %ds" % timeout)
        if rc != 0:
            ctx.fatal("pipeline shard failed rc=%d: %s" % (rc, open(tp + ".err").read()[-1500:]))
        traces = split_cases(tp)
        verd = [l.rstrip("\n") for l in open(vp) if not l.startswith("sim ")]
        if len(traces) != len(sh) or len(verd) != len(sh):
            ctx.fatal("pipeline shard lost cases: %d in, %d traces, %d verdicts (%s)" % (
                len(sh), len(traces), len(verd), open(tp + ".err").read()[-800:]))
        for (i, c), t, v in zip(sh, traces, verd):
            res[i] = (c, t, v)
    return res


def monitor_once(ctx, model, trace):
    """the Lean monitor's verdict line for one trace (list of lines: graph header, events, end)"""
    p, out = ctx.path("once.trace"), ctx.path("once.verd")
    with open(p, "w") as h:
        h.writelines(trace)
        if not trace or not trace[-1].startswith("end"):
            h.write("end\n")
    rc, err = ctx.run([model], stdin=p, stdout=out, timeout=300)
    if rc != 0:
        ctx.fatal("model driver failed on a single trace: " + err[-400:])
    verd = [l.rstrip("\n") for l in open(out) if not l.startswith("sim ")]
    return verd[0] if verd else "reject 0 trace-truncated"


def model_selfrun(ctx, model, cases, nsched=3):
    """sampled (not the proof): run the Lean MODEL on the generated graphs under pseudo-random schedules and
    put its traces through the same monitor; returns (runs, rejected lines)"""
    p = ctx.path("sim.cases")
    with open(p, "w") as h:
        for c in cases:
            h.writelines(l for l in c if l.split(" ", 1)[0] in ("graph", "task", "try", "top"))
            for s in range(nsched):
                h.write("sim %d 20000\n" % (ctx.seed * 1000 + s))
            h.write("end\n")
    out = ctx.path("sim.out")
    rc, err = ctx.run([model], stdin=p, stdout=out, timeout=1200)
    if rc != 0:
        ctx.fatal("model driver failed on sim lines: " + err[-400:])
    lines = [l.strip() for l in open(out)]
    bad = [l for l in lines if not l.startswith("sim accept")]
    incomplete = [l for l in lines if l.startswith("sim accept") and not l.endswith("complete=true")]
    return len(lines), bad, len(incomplete)


def account(ctx, results):
    ev_kinds = collections.Counter()
    for case, trace, verdict in results:
        ctx.evaluations += 1
        nt = nontrivial(case)
        evs = [l.split() for l in trace if l[:1].isdigit()]
        for e in evs:
            ev_kinds[e[1] + ((":" + e[-1]) if e[1] in ("ret", "done", "mwait", "root", "acc", "rej") and len(e) > 2 and not e[-1].isdigit() else "")] += 1
        st = steer_of(case)
        if st:
            # steered case: which handlers were really held (their first command was recorded while the fate of the
            # awaited handler was still open) is not visible in the trace; count the policy and the stalls
            for m in sorted(set(x.split(":")[1] for x in st.split(","))):
                ctx.histogram["steer:mode-" + m] += 1
            ctx.histogram["steer:stalls"] += sum(1 for e in evs if e[1] == "stall")
            # did a hold really engage?  the held handler's first command was recorded before the fate of the awaited one
            first = {}
            for e in evs:
                if e[1] == "cmd" and e[3] == "0":
                    first.setdefault(("start", e[2]), int(e[0]))
                elif e[1] == "done":
                    first.setdefault(("done", e[2]), int(e[0]))
                    first.setdefault(("res", e[2]), e[3])
            modes = dict(x.split(":") for x in st.split(","))
            for l in case:
                if not l.startswith("try "):
                    continue
                f = l.split()
                k, body = f[1], f[3].split("=")[1]
                succ, fail, fin = (x.split("=")[1] for x in f[4:7])
                m = modes.get(k)
                sel = {"ok": succ, "fail": fail}.get(first.get(("res", body)), "-")
                if not m or fin == "-" or sel == "-":
                    continue
                held, awaited = (sel, fin) if m in "sS" else (fin, sel)
                t0 = first.get(("start", held))
                fate = first.get(("done", awaited), 1 << 60)
                if m in "sf":
                    fate = min(fate, first.get(("start", awaited), 1 << 60))
                if t0 is not None:
                    ctx.histogram["steer:hold-engaged" if t0 < fate else "steer:fate-seen-before-hold"] += 1
        fails = any(e[1] == "done" and e[-1] == "fail" for e in evs)
        rej = any(e[1] == "rej" for e in evs)
        sk, clr = scope_of(case), has_clear(case)
        ctx.histogram["scope:" + sk] += 1
        if clr:
            ctx.histogram["scope:" + sk + "+pip:clear"] += 1
        if sk != "app" or clr:
            # the runs the scope dimension adds: a try whose body failed and whose handlers were accepted / refused
            bodies = {l.split()[3].split("=")[1] for l in case if l.startswith("try ")}
            if any(e[1] == "done" and e[2] in bodies and e[3] == "fail" for e in evs):
                ctx.histogram["scope:try-body-failed-outside-plain-app-run"] += 1
                ctx.histogram["scope:…-handlers-accepted"] += sum(1 for e in evs if e[1] == "hacc")
                ctx.histogram["scope:…-handlers-refused"] += sum(1 for e in evs if e[1] == "hrej")
        ctx.note_case(case_key(case), nontrivial=nt and len(evs) > 4,
                      kind="case:" + ("some-task-failed" if fails else "all-ok") + ("+top-level-rejection" if rej else ""))
        # how many bodies were running at the same time (between a task's first command and its close)
        active, most = set(), 0
        for e in evs:
            if e[1] == "cmd" and e[3] == "0":
                active.add(e[2])
                most = max(most, len(active))
            elif e[1] == "done":
                active.discard(e[2])
        ctx.histogram["overlap:max-bodies-running=%s" % (most if most < 8 else "8+")] += 1
        ctx.histogram["verdict:" + " ".join(verdict.split()[:1] + verdict.split()[2:])] += 1
    for k, v in ev_kinds.items():
        ctx.histogram["event:" + k] += v
    ctx.extra["events_monitored"] = ctx.extra.get("events_monitored", 0) + sum(ev_kinds.values())


def report_rejects(ctx, go, model, results, prop, limit=3):
    """every monitor reject of an implementation trace is a violation of the property on that input"""
    n = 0
    for case, trace, verdict in results:
        if verdict == "accept":
            continue
        reason = " ".join(verdict.split()[2:])
        if reason == "event-about-unknown-task":
            # The implementation ran a task the submitted graph does not contain (e.g. a handler registered
            # under another name).  That is a deviation from the model by itself; to see whether the
            # property's own clauses fail as well, the foreign events are dropped one by one and the
            # monitor decides the rest of the trace.
            dropped, t2, v2 = [], list(trace), verdict
            while " ".join(v2.split()[2:]) == "event-about-unknown-task" and len(dropped) < 200:
                seq = v2.split()[1]
                hit = [l for l in t2 if l.split(" ", 1)[0] == seq]
                if not hit:
                    break
                dropped.append(hit[0].strip())
                t2 = [l for l in t2 if l.split(" ", 1)[0] != seq]
                v2 = monitor_once(ctx, model, t2)
            n += 1
            if n > limit:
                continue
            r2 = " ".join(v2.split()[2:])
            ann = ["monitor: " + verdict, "foreign events dropped: %d" % len(dropped)] + ["dropped: " + d for d in dropped[:20]]
            ann += ["monitor after dropping them: " + v2] + ["impl-trace: " + l.strip() for l in trace if l[:1].isdigit()][:400]
            lines = [l for l in case] + ([] if case[-1].startswith("end") else ["end"])
            if v2 != "accept" and r2 not in INFRA:
                ctx.violation("impl-vs-spec", "the implementation ran tasks the submitted graph does not contain (%d events); with "
                              "those events set aside the rest of the trace violates the property: monitor says `%s`"
                              % (len(dropped), v2), lines=lines, concrete=True, annotations=ann)
            else:
                ctx.violation("impl-vs-model", "the implementation ran tasks the submitted graph does not contain (%d events, first: "
                              "%s); the rest of the trace is accepted by the monitor" % (len(dropped), dropped[0] if dropped else "?"),
                              lines=lines, concrete=False, annotations=ann)
            continue
        if reason in INFRA:
            ctx.fatal("harness/driver problem, not a verdict: %s on case %s" % (verdict, case[0].strip()))
        n += 1
        if n > limit:
            continue
        # how often does the same case fail when re-run (the interleaving is the Go scheduler's)?
        # (a stalled case costs the controller's generous wait each time: 3 re-runs instead of 10)
        k = 3 if "stall" in reason else 10
        again = run_shards(ctx, go, model, [case] * k, "rerun%d" % n)
        nrej = sum(1 for _, _, v in again if v != "accept")
        detail = ("the implementation's trace violates the property: monitor says `%s` (clause named by its reason; "
                  "re-running the same case %d times: %d rejected)" % (verdict, k, nrej))
        ann = ["monitor: " + verdict] + ["impl-trace: " + l.strip() for l in trace if l[:1].isdigit()][:400]
        ctx.violation("impl-vs-spec", detail, lines=[l for l in case] + ([] if case[-1].startswith("end") else ["end"]),
                      concrete=True, annotations=ann)
    return n


def genstats(ctx, err_text):
    for l in err_text.splitlines():
        if l.startswith("genstats"):
            for tok in l.split()[1:]:
                k, _, v = tok.partition("=")
                if v.isdigit():
                    ctx.histogram["gen:" + k] += int(v)


def run_family(ctx, prop, family, n_quick, n_thorough, corpus_props, steered=None, obligations=None, tie_modules=(),
               scoped=None):
    """steered = (n_quick, n_thorough) cases of the steered family c16s (deterministic enumeration of 288 combinations
    per round) or None; obligations = stage 1 of the check (default: the theorems of Props/<prop>.lean; the checks pass
    pipe_tie.obligations, which adds the structural tie Goat.Tie.Pipe<prop>); tie_modules = further modules for the
    thorough tier's leanchecker; scoped = (n_quick, n_thorough) cases of family c16x (scope kinds x pip:clear) or None"""
    failed = obligations(ctx) if obligations else ctx.lean_obligations(props_module="Goat.Props." + prop)
    go = ctx.build_go("pipeline")
    model = ctx.build_model("m_pipeline")
    n = ctx.pick(n_quick, n_thorough)
    # corpus first
    cases = []
    for cp in corpus_props:
        for f in sorted(glob.glob(os.path.join(lib.ROOT, "corpus", cp, "*.ops"))):
            # `*.rep.ops`: schedule-dependent witnesses of past defects, replayed many times
            reps = ctx.pick(25, 3000) if f.endswith(".rep.ops") else 1
            cases += split_cases(f) * reps
    ncorpus = len(cases)
    gen = ctx.path("gen.cases")
    rc, err = ctx.run([go, "gen", family, str(n)], stdout=gen, timeout=600)
    if rc != 0:
        ctx.fatal("generator failed: " + err[-500:])
    genstats(ctx, err)
    cases += split_cases(gen)
    nsteer = 0
    if steered:
        nsteer = ctx.pick(*steered)
        gens = ctx.path("gens.cases")
        rc, err = ctx.run([go, "gen", "c16s", str(nsteer)], stdout=gens, timeout=600)
        if rc != 0:
            ctx.fatal("generator (steered family) failed: " + err[-500:])
        genstats(ctx, err)
        cases += split_cases(gens)
    nscoped = 0
    if scoped:
        nscoped = ctx.pick(*scoped)
        genx = ctx.path("genx.cases")
        rc, err = ctx.run([go, "gen", "c16x", str(nscoped)], stdout=genx, timeout=600)
        if rc != 0:
            ctx.fatal("generator (scope family) failed: " + err[-500:])
        genstats(ctx, err)
        cases += split_cases(genx)
    ctx.rule = ("%d corpus cases (schedule-dependent witnesses `*.rep.ops` repeated 25 / 3000 times) + %d generated task graphs (family %s, VERIF_SEED=%d): random DAGs of 1-16 tasks with wait lists over "
                "earlier siblings (8%% deliberately invalid: unknown / later / own name), failing commands in any subset of tasks "
                "(a command that returns an error, an UNKNOWN command name, a TRUNCATED last command; try bodies that STOP their own "
                "scope), "
                "nested pip:run submissions and pip:try blocks to depth 3, handler subsets and failing handlers enumerated, bodies "
                "blocked on harness gates released in PRNG order so that tasks overlap; each case is executed by the real app and "
                "its event trace is decided by the Lean monitor. non-trivial = >= 2 tasks with a wait edge / nested submission / "
                "try block and > 4 events; distinct = distinct graphs (hash of the task/try/top lines + steering policy)"
                % (ncorpus, n, family, ctx.seed))
    if steered:
        ctx.rule += ("; + %d STEERED cases (family c16s: nesting flat / in the body of an outer try / in the finally handler of an "
                     "outer try x body ok / failing x finally present / failing x selected handler present / failing x other "
                     "handler absent / present / failing x which handler is held at its first command and until when (s, S, f, F) "
                     "= 288 combinations per round): the gate controller holds one handler of the try until it has seen the fate "
                     "of the other, waits 10 s, and records `stall` otherwise" % nsteer)
    if scoped:
        ctx.rule += ("; + %d cases of family c16x: c16 graphs, series of 1-3 scripts each with a try block, and steered c16s "
                     "graphs, run round robin in 8 kinds of scope (scope= on the graph line: the application scope; a session "
                     "scope of its own from scope.New; a scope.NewChild of the application scope; the real terminal's scope - "
                     "isolated context, the application's data; and for each of the four the scripts run DIRECTLY by "
                     "Terminal.RunLoop in the session one after another instead of through Runner.Run, so that the first "
                     "pipeline command meets a data scope without a task manager), half of them with the real pip:clear (command "
                     "kind c) in bodies, mostly in front of their first pip:run / pip:try" % nscoped)
    results = run_shards(ctx, go, model, cases, "main")
    account(ctx, results)
    nrej = report_rejects(ctx, go, model, results, prop)
    # a few samples: case, trace, verdict
    for case, trace, verdict in results[ncorpus:ncorpus + 2]:
        ctx.samples.append(dict(case=[l.strip() for l in case][:14], impl_trace=[l.strip() for l in trace if l[:1].isdigit()][:40],
                                monitor=verdict))
    # sampled model self-run (supports, never replaces, theorem model_runs_accepted)
    sample = [c for c, _, _ in results if sum(1 for l in c if l.startswith("task ")) <= 16][:ctx.pick(150, 3000)]
    runs, bad, incomplete = model_selfrun(ctx, model, sample)
    ctx.extra["model_selfrun"] = dict(graphs=len(sample), runs=runs, rejected=len(bad), incomplete_runs=incomplete)
    if nsteer:
        # the steered graphs under their steering policy (model `sysS`): sampled support of stall_free /
        # steered_all_finish — every run must be accepted and complete
        lo = ncorpus + n
        ssample = [c for c, _, _ in results[lo:lo + nsteer]][:ctx.pick(100, 2000)]
        sruns, sbad, sinc = model_selfrun(ctx, model, ssample)
        ctx.extra["model_selfrun_steered"] = dict(graphs=len(ssample), runs=sruns, rejected=len(sbad), incomplete_runs=sinc)
        bad += sbad
        if sinc:
            ctx.violation("impl-vs-model", "the compiled Lean model did not finish %d steered runs within 20000 scheduling "
                          "decisions (contradicts theorems stall_free / steered_all_finish unless the schedule was unlucky)"
                          % sinc, concrete=False)
    if bad:
        ctx.violation("impl-vs-model", "the compiled Lean model produced a trace its own monitor rejects (contradicts theorem "
                      "model_runs_accepted): %s" % bad[0], concrete=False)
    ctx.extra["cases"] = dict(corpus=ncorpus, generated=n, steered=nsteer, scoped=nscoped, rejected=nrej)
    if failed:
        def searcher():
            if nrej:
                return True
            if ctx.quick():
                # DESIGN 1.3 row 1: a broken obligation is followed by a thorough-depth campaign
                gen2 = ctx.path("gen2.cases")
                ctx.run([go, "gen", family, str(n_thorough // 4)], stdout=gen2, timeout=600)
                res2 = run_shards(ctx, go, model, split_cases(gen2), "deep")
                account(ctx, res2)
                return report_rejects(ctx, go, model, res2, prop) > 0
            return False
        ctx.obligation_violations(failed, searcher=searcher)
    if not ctx.quick():
        ctx.leanchecker(["Goat.Props." + prop] + list(tie_modules))
        bad_ob = [o for o in ctx.obligations if not o["ok"]]
        if bad_ob and not failed:
            ctx.obligation_violations(bad_ob)
    ctx.assumptions += [
        "the events recorded by the harness (probe commands, Commit/Rollback listeners on the root scope, the wrappers around "
        "pipc.Run / pipc.Try) are emitted where the trace protocol says (harness/cmd/pipeline/drive.go)",
        "sync.WaitGroup, channels and select behave as modelled; RunLoop's select between Done() and the next command is a free choice",
        "lock maps are empty in this campaign (SharedMutex is property C15)",
        "scope kinds (family c16x): the model's root context is the context of the session scope the case runs in; `mwait` / `fin` "
        "range over every task manager a submission of the case went into (one, unless a body ran pip:clear or the scripts ran "
        "directly in a session) and, for scripts run directly by Terminal.RunLoop, over the session's own error; for those scripts "
        "the harness supplies the envelope of Runner.runGo itself (labelled scope, RunLoop, append the returned error, Wait, Close)",
    ]
    ctx.trusted_base += [
        "PARTIAL level: the theorems are about the orchestration model; that the running system realises it is sampled by "
        "trace conformance (monitor accepts every recorded trace), not proved",
        "Go harness harness/cmd/pipeline (event recorder, SID-to-task mapping, gate controller, the recording wrapper around the "
        "PipRunner service that sees handler submissions, the steering controller) and the wire parser of Driver/Pipeline.lean",
    ]
    ctx.notes.append("interleavings are chosen by the Go scheduler and the PRNG-driven gate controller; a rejected case is re-run "
                     "10 times and the count is recorded in the replay file")


def replay(ctx, path, prop):
    go = ctx.build_go("pipeline")
    model = ctx.build_model("m_pipeline")
    p = ctx.path("replay.cases")
    open(p, "w").write("\n".join(lib.replay_ops(path)) + "\n")
    cases = split_cases(p)
    if not cases:
        print("replay: no case in", path)
        return 2
    rc = 0
    res = run_shards(ctx, go, model, cases * 20, "replay")
    by = collections.Counter(v for _, _, v in res)
    for v, k in by.most_common():
        print("%5d x %s" % (k, v))
        if v != "accept":
            rc = 1
    bad = [(c, t, v) for c, t, v in res if v != "accept"]
    if bad:
        print("first rejected trace:")
        for l in bad[0][1]:
            print("   ", l.rstrip())
    print("replay:", "still failing" if rc else "every run accepted by the monitor (20 runs per case)")
    return rc
