// Command args is the implementation-side driver and generator of the `args` line protocol
// (property C17): it runs the real varutil.ReadArguments / argscope.InjectArgs of /repo.
//
//	args drive            ops on stdin -> one result line per op on stdout (same format as m_args)
//	args gen <n>          n random op lines (split of long random inputs, rendered argument lists, inject)
//	args oracle <n>       property oracle without any model (expected answers known by construction)
package main

import (
	"bufio"
	"bytes"
	"fmt"
	"os"
	"sort"
	"strconv"
	"strings"

	"gcverif/internal/hx"

	"github.com/goatcms/goatcore/app/scope/argscope"
	"github.com/goatcms/goatcore/app/scope/datascope"
	"github.com/goatcms/goatcore/varutil"
)

var alphabet = []byte{32, 9, 10, 34, 92, 61, 60, 97, 195}

func split(input []byte) string {
	var (
		args []string
		eof  bool
		err  error
		rd   = bytes.NewReader(input)
	)
	if p, _ := hx.Guard(func() { args, eof, err = varutil.ReadArguments(rd) }); p {
		return "panic"
	}
	// the string entry point (InjectString, RunString) must read the same bytes the same way
	var (
		sargs []string
		seof  bool
		serr  error
	)
	if p, _ := hx.Guard(func() { sargs, seof, serr = varutil.SplitArguments(string(input)) }); p {
		return "panic-in-SplitArguments"
	}
	if (serr != nil) != (err != nil) || (err == nil && (seof != eof || !sameWords(sargs, args))) {
		return fmt.Sprintf("entry-points-differ ReadArguments=(%q,%v,%v) SplitArguments=(%q,%v,%v)", args, eof, err != nil, sargs, seof, serr != nil)
	}
	if err != nil {
		return fmt.Sprintf("err eof=%v", eof)
	}
	enc := make([]string, len(args))
	for i, a := range args {
		enc[i] = hx.Enc([]byte(a))
	}
	return fmt.Sprintf("ok eof=%v rest=%d args=[%s]", eof, rd.Len(), strings.Join(enc, ","))
}

func sameWords(a, b []string) bool {
	if len(a) != len(b) {
		return false
	}
	for i := range a {
		if a[i] != b[i] {
			return false
		}
	}
	return true
}

// bytes and byte sequences that are white space to unicode.IsSpace / strings.Fields but NOT separators of the
// argument syntax (only blank, tab and newline are): they are ordinary argument bytes
var notSeparators = []string{"\r", "\v", "\f", "\xc2\x85", "\xc2\xa0", "\xe2\x80\x83", "\xe3\x80\x80", "\xe2\x80\xa8", "\x1c", "\x00"}

func enum(w *bufio.Writer, n int, cur []byte) {
	if n == 0 {
		fmt.Fprintf(w, "%s %s\n", hx.Enc(cur), split(cur))
		return
	}
	for _, a := range alphabet {
		enum(w, n-1, append(cur, a))
	}
}

func inject(list string) string {
	var args []string
	if list != "" {
		for _, h := range strings.Split(list, ",") {
			args = append(args, string(hx.MustDec(h)))
		}
	}
	scp := datascope.New(map[interface{}]interface{}{})
	var err error
	if p, _ := hx.Guard(func() { err = argscope.InjectArgs(scp, args...) }); p {
		return "panic"
	}
	if err != nil {
		return "err"
	}
	var (
		items []string
		sep   []string
	)
	for _, k := range scp.Keys() {
		ks, ok := k.(string)
		if !ok {
			continue
		}
		v := scp.Value(k)
		if ks == "--" {
			if l, ok := v.([]string); ok {
				for _, s := range l {
					sep = append(sep, hx.Enc([]byte(s)))
				}
			}
			continue
		}
		vs, _ := v.(string)
		items = append(items, hx.Enc([]byte(ks))+"="+hx.Enc([]byte(vs)))
	}
	sort.Strings(items)
	return "map " + strings.Join(items, ",") + " sep=" + strings.Join(sep, ",")
}

// render is the reference quoting function of the property (same as Goat.C17.render):
// a quote is escaped inside the quotes, a backslash is emitted outside them.
func render(a []byte) []byte {
	out := []byte{'"'}
	for _, b := range a {
		switch b {
		case '"':
			out = append(out, '\\', '"')
		case '\\':
			out = append(out, '"', '\\', '\\', '"')
		default:
			out = append(out, b)
		}
	}
	return append(out, '"')
}

func randBytes(r *hx.Rand, n int, wide bool) []byte {
	b := make([]byte, 0, n)
	for i := 0; i < n; i++ {
		if wide && r.Chance(1, 3) {
			b = append(b, byte(r.Intn(256)))
		} else if wide && r.Chance(1, 8) {
			b = append(b, r.Pick(notSeparators)...)
		} else {
			b = append(b, alphabet[r.Intn(len(alphabet))])
		}
	}
	return b
}

func randArgs(r *hx.Rand) [][]byte {
	n := r.Intn(6)
	args := make([][]byte, n)
	for i := range args {
		args[i] = randBytes(r, r.Intn(9), true)
	}
	return args
}

func renderLine(args [][]byte) []byte {
	var line []byte
	for i, a := range args {
		if i > 0 {
			line = append(line, ' ')
		}
		line = append(line, render(a)...)
	}
	return line
}

func gen(w *bufio.Writer, n int) {
	r := hx.NewRand(hx.SeedFromEnv())
	words := []string{"a", "b=1", "--k=v", "-x=y", "--", "$0=z", "k=", "=v", "a=b=c", "pos", "\xc3\xa9", "--flag", "-", "k=v w", "", "", " "}
	for i := 0; i < n; i++ {
		switch r.Intn(4) {
		case 0: // long random input over the significant alphabet (+ arbitrary bytes)
			fmt.Fprintf(w, "split %s\n", hx.Enc(randBytes(r, 9+r.Intn(60), r.Chance(1, 2))))
		case 1: // rendered argument list, newline, tail
			line := append(renderLine(randArgs(r)), '\n')
			line = append(line, randBytes(r, r.Intn(5), false)...)
			fmt.Fprintf(w, "split %s\n", hx.Enc(line))
		case 2: // heredoc-shaped input
			tag := []string{"X", "EOF", "T_a"}[r.Intn(3)]
			body := randBytes(r, r.Intn(12), false)
			line := []byte("k" + string(randBytes(r, r.Intn(2), false)) + "=<<" + tag + "\n")
			line = append(line, body...)
			line = append(line, []byte("\n"+tag)...)
			line = append(line, randBytes(r, r.Intn(4), false)...)
			fmt.Fprintf(w, "split %s\n", hx.Enc(line))
		default:
			k := r.Intn(7)
			var l []string
			for j := 0; j < k; j++ {
				l = append(l, hx.Enc([]byte(r.Pick(words))))
			}
			if len(l) == 0 {
				fmt.Fprintf(w, "inject\n")
			} else {
				fmt.Fprintf(w, "inject %s\n", strings.Join(l, ","))
			}
		}
	}
}

// oracle checks the property itself on the implementation (no model involved).  Every case is
// built so that the expected answer is known by construction from the property statement:
//
//	quoted   split(render(args) \n tail)            = args, no EOF, exactly the tail unread
//	words    split(w1 ␠ w2 … \n tail)               = the words, byte for byte (bytes >= 0x80 included)
//	heredoc  split(k=<<T \n text \n T \n tail)      = [k=trim(text)]
//	cont     split(w1 \ \n w2 \n tail)             = [w1 w2]
//	next     two commands in one reader              = first call the first, second call the second
//	inject   named -> key/value, positional -> $0,$1,… in order, tail after -- kept
//	total    no input makes the splitter panic
//
// Prints `FAIL <class> <hex input> want=… got=…` per failure and a summary line.
func oracle(w *bufio.Writer, n int) {
	r := hx.NewRand(hx.SeedFromEnv() ^ 0x5eed)
	fails := 0
	counts := map[string]int{}
	fail := func(class string, input []byte, want, got string) {
		fails++
		fmt.Fprintf(w, "FAIL %s %s want=%s got=%s\n", class, hx.Enc(input), want, got)
	}
	encList := func(args [][]byte) string {
		enc := make([]string, len(args))
		for j, a := range args {
			enc[j] = hx.Enc(a)
		}
		return strings.Join(enc, ",")
	}
	plainWord := func() []byte {
		for {
			n := 1 + r.Intn(6)
			b := make([]byte, n)
			for i := range b {
				switch r.Intn(5) {
				case 0:
					b[i] = byte(0x80 + r.Intn(0x80))
				case 1:
					b[i] = "=<a-_$./\r\v\f\x00\x1c"[r.Intn(13)]
				default:
					b[i] = byte(33 + r.Intn(94))
				}
				if b[i] == '"' || b[i] == '\\' {
					b[i] = 'q'
				}
			}
			if !bytes.Contains(b, []byte("=<<")) {
				return b
			}
		}
	}
	for i := 0; i < n; i++ {
		tail := randBytes(r, r.Intn(5), false)
		switch i % 7 {
		case 0:
			counts["quoted"]++
			args := randArgs(r)
			line := append(append(renderLine(args), '\n'), tail...)
			want := fmt.Sprintf("ok eof=false rest=%d args=[%s]", len(tail), encList(args))
			if got := split(line); got != want {
				fail("quoted", line, want, got)
			}
		case 1:
			counts["words"]++
			k := 1 + r.Intn(5)
			var ws [][]byte
			var line []byte
			for j := 0; j < k; j++ {
				ws = append(ws, plainWord())
				if j > 0 {
					line = append(line, " \t"[r.Intn(2)])
					if r.Chance(1, 4) {
						line = append(line, ' ')
					}
				}
				line = append(line, ws[j]...)
			}
			eofCase := r.Chance(1, 4)
			want := fmt.Sprintf("ok eof=true rest=0 args=[%s]", encList(ws))
			if !eofCase {
				line = append(append(line, '\n'), tail...)
				want = fmt.Sprintf("ok eof=false rest=%d args=[%s]", len(tail), encList(ws))
			}
			if got := split(line); got != want {
				fail("words", line, want, got)
			}
		case 2:
			counts["heredoc"]++
			tag := []string{"X", "EOF", "T_a", "zz"}[r.Intn(4)]
			var text []byte
			for {
				text = randBytes(r, r.Intn(14), true)
				if !bytes.Contains(append(append([]byte{}, text...), []byte("\n"+tag)...)[:len(text)+len(tag)], []byte("\n"+tag)) {
					break
				}
			}
			key := []byte("k" + string(rune('a'+r.Intn(3))))
			line := append(append([]byte{}, key...), []byte("=<<"+tag+"\n")...)
			line = append(line, text...)
			line = append(line, []byte("\n"+tag+"\n")...)
			line = append(line, tail...)
			val := append(append(append([]byte{}, key...), '='), bytes.Trim(text, " \t")...)
			want := fmt.Sprintf("ok eof=false rest=%d args=[%s]", len(tail), hx.Enc(val))
			if got := split(line); got != want {
				fail("heredoc", line, want, got)
			}
		case 3:
			counts["cont"]++
			// "a backslash-newline continues the line": outside quotes the pair is simply skipped, wherever
			// it stands - between words, at the start, at the end, or in the middle of a word (theorem
			// `continuation`: in every unescaped state of the splitter).  Take a line of plain words and
			// insert the pair at 1-3 random positions; the words must come back unchanged.
			k := 1 + r.Intn(4)
			var ws [][]byte
			var body []byte
			for j := 0; j < k; j++ {
				ws = append(ws, plainWord())
				if j > 0 {
					body = append(body, " \t"[r.Intn(2)])
				}
				body = append(body, ws[j]...)
			}
			for m := 1 + r.Intn(3); m > 0; m-- {
				at := r.Intn(len(body) + 1)
				if at > 0 && body[at-1] == '\\' { // not between the backslash and the newline of an earlier pair
					at--
				}
				body = append(body[:at:at], append([]byte{'\\', '\n'}, body[at:]...)...)
			}
			line := append(append(append([]byte{}, body...), '\n'), tail...)
			want := fmt.Sprintf("ok eof=false rest=%d args=[%s]", len(tail), encList(ws))
			if got := split(line); got != want {
				fail("cont", line, want, got)
			}
		case 4:
			counts["next"]++
			c1, c2 := randArgs(r), randArgs(r)
			input := append(append(renderLine(c1), '\n'), append(renderLine(c2), '\n')...)
			rd := bytes.NewReader(input)
			var got1, got2 []string
			var e1, e2 error
			if p, _ := hx.Guard(func() {
				got1, _, e1 = varutil.ReadArguments(rd)
				got2, _, e2 = varutil.ReadArguments(rd)
			}); p || e1 != nil || e2 != nil {
				fail("next", input, "two commands", "panic-or-error")
				break
			}
			toB := func(l []string) [][]byte {
				o := make([][]byte, len(l))
				for i, s := range l {
					o[i] = []byte(s)
				}
				return o
			}
			want := encList(c1) + " ; " + encList(c2)
			if got := encList(toB(got1)) + " ; " + encList(toB(got2)); got != want {
				fail("next", input, want, got)
			}
		case 5:
			// only a backslash IMMEDIATELY before the newline continues the line: `w1 \<blanks>\n w2\n`
			// is two commands (the newline after the blanks is the command's newline)
			counts["escblank"]++
			a, b := plainWord(), plainWord()
			input := append(append([]byte{}, a...), ' ', '\\')
			for k := 1 + r.Intn(2); k > 0; k-- {
				input = append(input, " \t"[r.Intn(2)])
			}
			input = append(input, '\n')
			input = append(append(input, b...), '\n')
			rd := bytes.NewReader(input)
			var got1, got2 []string
			var e1, e2 error
			if p, _ := hx.Guard(func() {
				got1, _, e1 = varutil.ReadArguments(rd)
				got2, _, e2 = varutil.ReadArguments(rd)
			}); p || e1 != nil || e2 != nil {
				fail("escblank", input, "two commands", "panic-or-error")
				break
			}
			want := hx.Enc(a) + " ; " + hx.Enc(b)
			if got := strings.Join(encStrs(got1), ",") + " ; " + strings.Join(encStrs(got2), ","); got != want {
				fail("escblank", input, want, got)
			}
		default:
			counts["inject"]++
			// positional p0..pk interleaved with named keys; expectation built directly
			var args []string
			exp := map[string]string{}
			pos := 0
			k := r.Intn(6)
			for j := 0; j < k; j++ {
				if r.Chance(1, 2) {
					key := "n" + strconv.Itoa(r.Intn(3))
					val := string(randBytes(r, r.Intn(4), false))
					args = append(args, []string{"", "-", "--"}[r.Intn(3)]+key+"="+val)
					exp[key] = val
				} else {
					v := "p" + strconv.Itoa(j)
					if r.Chance(1, 4) {
						v = "" // an empty positional argument (a quoted "") still takes its number
					}
					args = append(args, v)
					exp["$"+strconv.Itoa(pos)] = v
					pos++
				}
			}
			var items []string
			for kk, v := range exp {
				items = append(items, hx.Enc([]byte(kk))+"="+hx.Enc([]byte(v)))
			}
			sort.Strings(items)
			sepTail := []string{}
			all := append([]string{}, args...)
			if r.Chance(1, 2) {
				// everything after the FIRST bare "--" is kept verbatim, in order: words that look like named
				// arguments, further "--" words and empty words included; none of it is injected
				tail := []string{"x=1", "y"}
				if r.Chance(1, 2) {
					tail = nil
					for m := r.Intn(6); m > 0; m-- {
						tail = append(tail, r.Pick([]string{"--", "--", "n0=late", "$0=late", "-n1=late", "", "w", "--n2=late", "-"}))
					}
				}
				all = append(all, "--")
				all = append(all, tail...)
				for _, t := range tail {
					sepTail = append(sepTail, hx.Enc([]byte(t)))
				}
			}
			want := "map " + strings.Join(items, ",") + " sep=" + strings.Join(sepTail, ",")
			enc := make([]string, len(all))
			for j, a := range all {
				enc[j] = hx.Enc([]byte(a))
			}
			if got := inject(strings.Join(enc, ",")); got != want {
				fail("inject", []byte(strings.Join(all, "\x00")), want, got)
			}
		}
	}
	// totality on raw random inputs
	for i := 0; i < n; i++ {
		counts["total"]++
		in := randBytes(r, r.Intn(40), true)
		if got := split(in); got == "panic" {
			fail("total", in, "args or error", got)
		}
	}
	var cs []string
	for k, v := range counts {
		cs = append(cs, fmt.Sprintf("%s=%d", k, v))
	}
	sort.Strings(cs)
	fmt.Fprintf(w, "oracle cases=%d fails=%d %s\n", 2*n, fails, strings.Join(cs, " "))
}

func encStrs(l []string) []string {
	o := make([]string, len(l))
	for i, s := range l {
		o[i] = hx.Enc([]byte(s))
	}
	return o
}

func main() {
	w := bufio.NewWriterSize(os.Stdout, 1<<20)
	defer w.Flush()
	if len(os.Args) < 2 {
		fmt.Fprintln(os.Stderr, "usage: args drive|gen <n>|oracle <n>")
		os.Exit(2)
	}
	switch os.Args[1] {
	case "gen":
		n, _ := strconv.Atoi(os.Args[2])
		gen(w, n)
	case "oracle":
		n, _ := strconv.Atoi(os.Args[2])
		oracle(w, n)
	case "drive":
		sc := bufio.NewScanner(os.Stdin)
		sc.Buffer(make([]byte, 1<<20), 1<<26)
		for sc.Scan() {
			line := sc.Text()
			if line == "" || strings.HasPrefix(line, "#") {
				continue
			}
			f := strings.Split(line, " ")
			switch {
			case f[0] == "split" && len(f) == 2:
				fmt.Fprintln(w, split(hx.MustDec(f[1])))
			case f[0] == "enum" && len(f) == 2:
				n, _ := strconv.Atoi(f[1])
				for l := 0; l <= n; l++ {
					enum(w, l, nil)
				}
			case f[0] == "inject" && len(f) == 2:
				fmt.Fprintln(w, inject(f[1]))
			case f[0] == "inject" && len(f) == 1:
				fmt.Fprintln(w, inject(""))
			default:
				fmt.Fprintln(w, "bad-op")
			}
		}
	}
}
