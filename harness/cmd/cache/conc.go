package main

import (
	"bufio"
	"fmt"
	"io"
	"os"
	"runtime"
	"sort"
	"strconv"
	"strings"
	"sync"
	"sync/atomic"
	"time"

	"gcverif/internal/fsdrv"
	"gcverif/internal/hx"
)

// ---------------------------------------------------------------------------------------------
// `cache conc <rounds> [<shard> <nshards>] [only=<round>] [repeat=<n>] [kinds=<k,k,…>]`
//
// The CONCURRENT family of C07 ("for all interleavings of mutating and reading cache operations"): read-your-writes
// with the operations linearised.  Per round
//
//	remote        directories d and s, the constant file s/c, and for a random subset of the file pool
//	              (d/a d/b d/n d/m) a file with content R(path); d/k and d/k/f never exist on the remote
//	cache         fscache.NewMemCache(remote), child view = cache.Filespace("d")
//	setup         pending writes v0 on a random subset of the pool (sequential, before the readers start)
//	writer        ONE goroutine: a sequence of mutations through the cache or the view, each of which succeeds when
//	              applied directly to the tree (fsdrv.Ref says ok) and is atomic in the unchanged code:
//	              WriteFile (v1, v2, v3 … on the same paths), MkdirAll of one new level (d/k), Remove of a file /
//	              empty directory that exists only in the buffer (followed sooner or later by a WriteFile of the
//	              same path).  counters: started / completed.
//	              NOT in the family, only with kinds=…,writer,copyfile: Writer streams and CopyFile s/c -> a path that
//	              does not exist.  On the unchanged code both are visible while the stream is open: Lstat answers the
//	              size of the prefix written so far (0 for a copy that has just created its destination), which is
//	              the answer of no state.  ReadFile / Reader wait for the stream's Close and are not affected.
//	readers       2..6 goroutines, through the cache and through the child view, all the time: IsExist IsFile IsDir
//	              ReadFile Reader Lstat(size) on the pool, ReadDir of the parents, and `copysrc` (CopyFile of a pool
//	              path to a fresh scratch path + ReadFile of the copy: the "copy source" read of the property)
//
// Expected answers are not taken from the implementation: state k = the remote's initial tree + setup + the first k
// mutations applied DIRECTLY (fsdrv.Ref, the flat reference = the specification's answer; on this class it is the
// answer of the model's view function, theorem ryw_partial / pending_writes_view, and the check re-runs a sample of the
// histories through the Lean model and the classifier).  table[k][i] = answer of read i in state k.
//
// Clause.  A read that started when `lo` mutations had completed and ended when `hi` mutations had started must
// answer table[k][i] for SOME lo <= k <= hi.  (With v0 pending before the readers start and the writer doing
// v1 -> v2 -> v3, a reader may see v0..v3, never the remote's R and never "absent"; absence is allowed only between
// a Remove and the next WriteFile.)  No clock is read: lo and hi are atomic counters.
//
// Output: per failing round `V …` lines, the sequential history as `H …` lines, `E`; for the first rounds of
// each shard the sequential history (`S …` lines, reads of the touched paths after every mutation) for the
// differential against the Lean model; a summary line `conc k=v …`.
// ---------------------------------------------------------------------------------------------

type cread struct {
	id   int    // 1 cache, 2 view of d
	word string // isexist … readdir, copysrc
	path string // as spelled for this handle
	abs  string // canonical path from the cache's root (for the touched-path sample)
	line []string
	src  int // copysrc: index of the readfile entry whose table column is the expectation
}

type cmut struct {
	line []string
	abs  string
	kind string
}

type cround struct {
	setup []string // op lines up to and including the pending v0 writes
	muts  []cmut
	reads []cread
	table [][]string // [state][read]
	hot   []int      // indices of reads on paths the writer touches
	procs int
	nread int
}

var concFiles = []string{"d/a", "d/b", "d/n", "d/m"}

func concSeed(shard int) uint64 {
	return (hx.SeedFromEnv()*1000003 + uint64(shard)*15485863) ^ 0xc07c0c
}

func spell(r *hx.Rand, p string) string {
	switch r.Intn(6) {
	case 0:
		return "/" + p
	case 1:
		return "./" + p
	case 2:
		return strings.Replace(p, "/", "//", 1)
	}
	return p
}

func content(tag string, n int) []byte {
	b := []byte(tag)
	for len(b) < n {
		b = append(b, byte('a'+len(b)%26))
	}
	return b[:n]
}

// genRound builds one round; ref is left in the final state
func genRound(r *hx.Rand, kinds map[string]bool) *cround {
	rd := &cround{}
	ref := fsdrv.NewRef()
	emit := func(dst *[]string, l string) string {
		*dst = append(*dst, l)
		return ref.Line(strings.Split(l, " "))
	}
	remote := map[string]bool{"d": true, "s": true, "s/c": true}
	emit(&rd.setup, "reset")
	emit(&rd.setup, "new 0 mem")
	emit(&rd.setup, "mkdir 0 "+hp("d"))
	// the constant copy source (its length differs from every other content)
	emit(&rd.setup, "write 0 "+hp("s/c")+" "+hx.Enc(content("C:", 37)))
	for i, p := range concFiles {
		if r.Chance(1, 2) {
			remote[p] = true
			emit(&rd.setup, "write 0 "+hp(p)+" "+hx.Enc(content("R:"+p+":", 40+i)))
		}
	}
	emit(&rd.setup, "new 1 cache 0")
	emit(&rd.setup, "view 2 1 "+hp("d"))
	// in the reference the cache is the tree itself
	ref.Line([]string{"new", "1", "mem"})
	ref.Line([]string{"view", "2", "1", hp("d")})
	for _, p := range concFiles {
		if r.Chance(1, 2) {
			emit(&rd.setup, "write 1 "+hp(p)+" "+hx.Enc(content("v0:", 3+r.Intn(4))))
		}
	}
	// read repertoire
	files := append(append([]string{}, concFiles...), "d/k/f")
	add := func(id int, word, abs, rel string, extra ...string) int {
		p := abs
		if id == 2 {
			p = rel
		}
		if p != "" && p != "." {
			p = spell(r, p)
		}
		l := append([]string{word, strconv.Itoa(id), hp(p)}, extra...)
		rd.reads = append(rd.reads, cread{id: id, word: word, path: p, abs: abs, line: l, src: -1})
		return len(rd.reads) - 1
	}
	for _, p := range files {
		rel := strings.TrimPrefix(p, "d/")
		for _, id := range []int{1, 2} {
			for _, w := range []string{"isexist", "isfile", "isdir", "lstat"} {
				add(id, w, p, rel)
			}
			rf := add(id, "readfile", p, rel)
			add(id, "reader", p, rel, strconv.Itoa(1+r.Intn(5)), "64")
			if kinds["copysrc"] && id == 1 {
				// (through the view the copy would land inside d and show up in its listing)
				i := add(id, "copysrc", p, rel)
				rd.reads[i].src = rf
			}
		}
	}
	for _, id := range []int{1, 2} {
		add(id, "readdir", "d", ".")
		add(id, "readdir", "d/k", "k")
		add(id, "isdir", "d/k", "k")
		add(id, "isexist", "d/k", "k")
		add(id, "lstat", "d/k", "k")
	}
	row := func() []string {
		t := make([]string, len(rd.reads))
		for i, q := range rd.reads {
			if q.word == "copysrc" {
				continue
			}
			t[i] = fsdrv.Canon(ref.Line(q.line))
		}
		for i, q := range rd.reads {
			if q.word == "copysrc" {
				t[i] = t[q.src]
			}
		}
		return t
	}
	rd.table = append(rd.table, row())
	// the writer's mutations: a few hot paths, long runs of rewrites
	nhot := 1 + r.Intn(3)
	hotp := map[string]bool{}
	var hot []string
	for len(hot) < nhot {
		p := files[r.Intn(len(files))]
		if !hotp[p] {
			hotp[p] = true
			hot = append(hot, p)
		}
	}
	want := 12 + r.Intn(50)
	ver := 0
	try := func(kind, abs string, f ...string) bool {
		// a mutation is taken only if direct application succeeds (allDirectOk of ryw_partial)
		if res := ref.Line(f); res != "ok" {
			return false
		}
		rd.muts = append(rd.muts, cmut{line: f, abs: abs, kind: kind})
		rd.table = append(rd.table, row())
		return true
	}
	exists := func(p string) bool { return ref.Line([]string{"isexist", "1", hp(p)}) == "t" }
	isdir := func(p string) bool { return ref.Line([]string{"isdir", "1", hp(p)}) == "t" }
	isfile := func(p string) bool { return ref.Line([]string{"isfile", "1", hp(p)}) == "t" }
	handle := func(p string) (string, string) {
		// through the cache or through the view of d
		if r.Chance(1, 3) {
			return "2", spell(r, strings.TrimPrefix(p, "d/"))
		}
		return "1", spell(r, p)
	}
	for guard := 0; len(rd.muts) < want && guard < want*20; guard++ {
		p := hot[r.Intn(len(hot))]
		id, sp := handle(p)
		parentOK := isdir(p[:strings.LastIndex(p, "/")])
		x := r.Intn(100)
		switch {
		case !parentOK:
			// d/k/f without d/k: create the level first (MkdirAll of ONE new level is atomic; a write that has
			// to create its parents is not: see the report of the probe kinds)
			if kinds["mkdir"] {
				id, sp = handle("d/k")
				try("mkdir", "d/k", "mkdir", id, hp(sp))
			}
		case x < 62 || (!exists(p) && x < 80):
			if isdir(p) {
				continue
			}
			ver++
			if kinds["writer"] && r.Chance(1, 4) {
				c := content(fmt.Sprintf("w%d:", ver), 4+ver%23)
				k := 1 + r.Intn(len(c)-1)
				try("writer", p, "writer", id, hp(sp), hx.Enc(c[:k]), hx.Enc(c[k:]))
			} else {
				try("write", p, "write", id, hp(sp), hx.Enc(content(fmt.Sprintf("v%d:", ver), 4+ver%23)))
			}
		case x < 86:
			// Remove of a node that exists only in the buffer (class of ryw_partial), file or empty directory
			if kinds["remove"] && !remote[p] && isfile(p) {
				try("remove", p, "remove", id, hp(sp))
			} else if kinds["remove"] && p == "d/k/f" && !exists(p) && r.Chance(1, 3) {
				id, sp = handle("d/k")
				try("rmdir", "d/k", "remove", id, hp(sp))
			}
		default:
			// CopyFile of the constant source onto a path that does not exist (onto an existing one: KF-C07-5)
			if kinds["copyfile"] && !exists(p) {
				if id == "2" {
					id, sp = "1", spell(r, p)
				}
				try("copyfile", p, "copyfile", id, hp("s/c"), hp(sp))
			}
		}
	}
	for i, q := range rd.reads {
		if hotp[q.abs] || (q.word == "readdir") || (hotp["d/k/f"] && q.abs == "d/k") {
			rd.hot = append(rd.hot, i)
		}
	}
	rd.procs = []int{1, 2, 2, 3, 4, 4, 8, 16}[r.Intn(8)]
	rd.nread = 2 + r.Intn(5)
	return rd
}

// sequential: the history with reads of the touched paths after every mutation (for the model differential)
func (rd *cround) sequential() []string {
	out := append([]string{}, rd.setup...)
	reads := func(abs string) {
		for _, q := range rd.reads {
			if q.word == "copysrc" {
				continue
			}
			if abs == "" || q.abs == abs || q.word == "readdir" || strings.HasPrefix(abs, q.abs+"/") || strings.HasPrefix(q.abs, abs+"/") {
				out = append(out, strings.Join(q.line, " "))
			}
		}
	}
	reads("")
	for _, m := range rd.muts {
		out = append(out, strings.Join(m.line, " "))
		reads(m.abs)
	}
	out = append(out, "classify 1")
	return out
}

// ---------------------------------------------------------------------------------------------
// direct calls (no per-call goroutine: the readers must be dense; a round as a whole runs under a watchdog)
// ---------------------------------------------------------------------------------------------

var scratchN int64

func doRead(fs FS, cache FS, q *cread, sizes []int) (res string) {
	defer func() {
		if recover() != nil {
			res = "panic"
		}
	}()
	p := q.path
	switch q.word {
	case "isexist":
		return fsdrv.TF(fs.IsExist(p))
	case "isfile":
		return fsdrv.TF(fs.IsFile(p))
	case "isdir":
		return fsdrv.TF(fs.IsDir(p))
	case "readfile":
		d, err := fs.ReadFile(p)
		if err != nil {
			return "err"
		}
		return "data " + hx.Enc(d)
	case "readdir":
		l, err := fs.ReadDir(p)
		if err != nil {
			return "err"
		}
		return fsdrv.Canon(fsdrv.ShowListing(l))
	case "lstat":
		info, err := fs.Lstat(p)
		if err != nil {
			return "err"
		}
		if info == nil {
			return "nil"
		}
		if info.IsDir() {
			return "stat " + hx.Enc([]byte(info.Name())) + " d"
		}
		return fmt.Sprintf("stat %s f %d", hx.Enc([]byte(info.Name())), info.Size())
	case "reader":
		h, err := fs.Reader(p)
		if err != nil {
			return "err"
		}
		var items []string
		bad := false
		for _, sz := range sizes {
			b := make([]byte, sz)
			n, err := h.Read(b)
			if n < 0 || n > sz || (err != nil && err != io.EOF) {
				bad = true
				break
			}
			flag := "c"
			if err == io.EOF {
				flag = "e"
			}
			items = append(items, hx.Enc(b[:n])+":"+flag)
		}
		if err := h.Close(); err != nil || bad {
			return "err"
		}
		if len(items) == 0 {
			return "rd"
		}
		return "rd " + strings.Join(items, ",")
	case "copysrc":
		dst := fmt.Sprintf("x/q%d", atomic.AddInt64(&scratchN, 1))
		if err := fs.CopyFile(p, dst); err != nil {
			return "err"
		}
		d, err := fs.ReadFile(dst)
		if err != nil {
			return "copy-lost"
		}
		return "data " + hx.Enc(d)
	}
	return "bad-op"
}

func doMut(fs FS, f []string) (res string) {
	defer func() {
		if recover() != nil {
			res = "panic"
		}
	}()
	dec := func(i int) []byte { return hx.MustDec(f[i]) }
	switch f[0] {
	case "write":
		return fsdrv.OkErr(fs.WriteFile(string(dec(2)), dec(3), 0644))
	case "writer":
		w, err := fs.Writer(string(dec(2)))
		if err != nil {
			return "err"
		}
		bad := false
		for i := 3; i < len(f); i++ {
			c := dec(i)
			if n, err := w.Write(c); err != nil || n != len(c) {
				bad = true
			}
		}
		if err := w.Close(); err != nil || bad {
			return "err"
		}
		return "ok"
	case "mkdir":
		return fsdrv.OkErr(fs.MkdirAll(string(dec(2)), 0777))
	case "remove":
		return fsdrv.OkErr(fs.Remove(string(dec(2))))
	case "copyfile":
		return fsdrv.OkErr(fs.CopyFile(string(dec(2)), string(dec(3))))
	}
	return "bad-op"
}

type cviol struct {
	what, op, got, allowed string
	lo, hi                 int
}

type cstats struct {
	rounds, reads, overlapping, exact, muts, viol, failing int
	byWord                                                 map[string]int
	byMut                                                  map[string]int
	byProcs                                                map[string]int
	seenOld, seenNew, seenMid                              int // overlapping reads answering the first / last / an inner state of the window
}

func sizesOf(q *cread) []int {
	var s []int
	for _, t := range q.line[3:] {
		n, _ := strconv.Atoi(t)
		s = append(s, n)
	}
	return s
}

// runRound: the concurrent execution of one round against the real code; returns the violations
func runRound(rd *cround, seed uint64, st *cstats) []cviol {
	var (
		viols []cviol
		vmu   sync.Mutex
	)
	note := func(v cviol) {
		vmu.Lock()
		if len(viols) < 6 {
			viols = append(viols, v)
		}
		st.viol++
		vmu.Unlock()
	}
	sess := fsdrv.NewSession()
	defer sess.Reset()
	for _, l := range rd.setup {
		f := strings.Split(l, " ")
		if res := sess.Line(f); res != "ok" {
			note(cviol{what: "setup", op: l, got: res, allowed: "ok"})
			return viols
		}
	}
	cache, _ := sess.FS(1)
	view, _ := sess.FS(2)
	fsOf := func(id int) FS {
		if id == 2 {
			return view
		}
		return cache
	}
	sizes := make([][]int, len(rd.reads))
	for i := range rd.reads {
		sizes[i] = sizesOf(&rd.reads[i])
	}
	seqCheck := func(what string, k int) {
		for i := range rd.reads {
			q := &rd.reads[i]
			if got := doRead(fsOf(q.id), cache, q, sizes[i]); got != rd.table[k][i] {
				note(cviol{what: what, op: strings.Join(q.line, " "), got: got, allowed: rd.table[k][i], lo: k, hi: k})
			}
		}
	}
	// state 0, sequentially: the table is the implementation's answer before anything runs concurrently
	seqCheck("sequential-before", 0)
	if len(viols) > 0 {
		return viols
	}
	old := runtime.GOMAXPROCS(rd.procs)
	defer runtime.GOMAXPROCS(old)
	var started, completed, stop, after int64
	var wg sync.WaitGroup
	n := len(rd.muts)
	type rstat struct{ reads, overlapping, exact, old, new, mid int }
	rstats := make([]rstat, rd.nread)
	yield := 24
	if rd.procs <= 2 {
		yield = 3
	}
	words := make([]map[string]int, rd.nread)
	for g := 0; g < rd.nread; g++ {
		wg.Add(1)
		words[g] = map[string]int{}
		go func(g int) {
			defer wg.Done()
			r := hx.NewRand(seed*31 + uint64(g)*7919 + 1)
			rs := &rstats[g]
			for atomic.LoadInt64(&stop) == 0 {
				var i int
				if len(rd.hot) > 0 && !r.Chance(1, 5) {
					i = rd.hot[r.Intn(len(rd.hot))]
				} else {
					i = r.Intn(len(rd.reads))
				}
				q := &rd.reads[i]
				lo := int(atomic.LoadInt64(&completed))
				got := doRead(fsOf(q.id), cache, q, sizes[i])
				hi := int(atomic.LoadInt64(&started))
				rs.reads++
				words[g][q.word]++
				ok := false
				for k := lo; k <= hi; k++ {
					if rd.table[k][i] == got {
						ok = true
						if hi > lo {
							switch k {
							case lo:
								rs.old++
							case hi:
								rs.new++
							default:
								rs.mid++
							}
						}
						break
					}
				}
				if hi > lo {
					rs.overlapping++
				} else {
					rs.exact++
				}
				if !ok {
					set := map[string]bool{}
					for k := lo; k <= hi; k++ {
						set[fmt.Sprintf("[state %d] %s", k, rd.table[k][i])] = true
					}
					var al []string
					for s := range set {
						al = append(al, s)
					}
					sort.Strings(al)
					note(cviol{what: "read", op: strings.Join(q.line, " "), got: got, allowed: strings.Join(al, " | "), lo: lo, hi: hi})
				}
				if lo == n {
					atomic.AddInt64(&after, 1)
				}
				// (with one processor a goroutine runs until it is preempted: give way often, or the writer starves)
				if r.Chance(1, yield) {
					runtime.Gosched()
				}
			}
		}(g)
	}
	wg.Add(1)
	go func() {
		defer wg.Done()
		r := hx.NewRand(seed*131 + 5)
		for k, m := range rd.muts {
			atomic.StoreInt64(&started, int64(k+1))
			id, _ := strconv.Atoi(m.line[1])
			res := doMut(fsOf(id), m.line)
			atomic.StoreInt64(&completed, int64(k+1))
			if res != "ok" {
				note(cviol{what: "mutation", op: strings.Join(m.line, " "), got: res, allowed: "ok (it succeeds when applied directly)", lo: k, hi: k + 1})
			}
			for j := r.Intn(3); j > 0; j-- {
				runtime.Gosched()
			}
		}
		// let every reader see the final state a few times
		for spin := 0; atomic.LoadInt64(&after) < int64(4*rd.nread) && spin < 1<<22; spin++ {
			runtime.Gosched()
		}
		atomic.StoreInt64(&stop, 1)
	}()
	done := make(chan struct{})
	go func() { wg.Wait(); close(done) }()
	select {
	case <-done:
	case <-time.After(fsdrv.Watchdog * 3):
		// generous: a round is a few thousand in-memory calls.  Locks may be held for ever: the process ends.
		note(cviol{what: "hang", op: "round", got: "the goroutines of the round have not finished", allowed: "termination"})
		return viols
	}
	seqCheck("sequential-after", n)
	for g := range rstats {
		st.reads += rstats[g].reads
		st.overlapping += rstats[g].overlapping
		st.exact += rstats[g].exact
		st.seenOld += rstats[g].old
		st.seenNew += rstats[g].new
		st.seenMid += rstats[g].mid
		for w, c := range words[g] {
			st.byWord[w] += c
		}
	}
	st.muts += n
	for _, m := range rd.muts {
		st.byMut[m.kind]++
	}
	st.byProcs[strconv.Itoa(rd.procs)]++
	return viols
}

func conc(w *bufio.Writer, args []string) {
	n, _ := strconv.Atoi(args[0])
	var pos []string
	only, repeat, sample := -1, 1, 2
	// not in the family: `writer` and `copyfile` as the WRITER's mutations (kinds=…,writer,copyfile probes them): on the
	// unchanged code a stream is visible while it is written (Lstat answers the size of the prefix written so far)
	kinds := map[string]bool{"write": true, "mkdir": true, "remove": true, "copysrc": true}
	for _, a := range args[1:] {
		k, v, isOpt := strings.Cut(a, "=")
		if !isOpt {
			pos = append(pos, a)
			continue
		}
		switch k {
		case "only":
			only, _ = strconv.Atoi(v)
		case "repeat":
			repeat, _ = strconv.Atoi(v)
		case "sample":
			sample, _ = strconv.Atoi(v)
		case "kinds":
			kinds = map[string]bool{}
			for _, x := range strings.Split(v, ",") {
				kinds[x] = true
			}
		}
	}
	shard, nshards := fsdrv.ShardArgs(pos)
	r := hx.NewRand(concSeed(shard))
	st := &cstats{byWord: map[string]int{}, byMut: map[string]int{}, byProcs: map[string]int{}}
	emitted := 0
	for i := shard; i < n; i += nshards {
		rd := genRound(r, kinds)
		if only >= 0 && i != only {
			continue
		}
		if emitted < sample && only < 0 {
			emitted++
			for _, l := range rd.sequential() {
				fmt.Fprintf(w, "S %s\n", l)
			}
		}
		for rep := 0; rep < repeat; rep++ {
			st.rounds++
			viols := runRound(rd, concSeed(shard)+uint64(i)*1009+uint64(rep)*17, st)
			if len(viols) == 0 {
				continue
			}
			st.failing++
			fmt.Fprintf(w, "R round=%d shard=%d nshards=%d seed=%d gomaxprocs=%d readers=%d mutations=%d kinds=%s\n", i, shard, nshards,
				hx.SeedFromEnv(), rd.procs, rd.nread, len(rd.muts), kindList(kinds))
			for _, v := range viols {
				fmt.Fprintf(w, "V %s lo=%d hi=%d op=%s got=%s allowed=%s\n", v.what, v.lo, v.hi, v.op, trunc(v.got), trunc(v.allowed))
				if v.what == "read" {
					// the mutations of the window
					for k := v.lo; k < v.hi && k < len(rd.muts); k++ {
						fmt.Fprintf(w, "V   window: mutation %d = %s\n", k+1, strings.Join(rd.muts[k].line, " "))
					}
				}
			}
			for _, l := range rd.sequential() {
				fmt.Fprintf(w, "H %s\n", l)
			}
			w.WriteString("E\n")
			if viols[0].what == "hang" {
				w.Flush()
				os.Exit(0)
			}
			break
		}
	}
	var ks []string
	for k, v := range st.byWord {
		ks = append(ks, fmt.Sprintf("read:%s=%d", k, v))
	}
	for k, v := range st.byMut {
		ks = append(ks, fmt.Sprintf("mut:%s=%d", k, v))
	}
	for k, v := range st.byProcs {
		ks = append(ks, fmt.Sprintf("gomaxprocs:%s=%d", k, v))
	}
	sort.Strings(ks)
	fmt.Fprintf(w, "conc rounds=%d failing=%d mutations=%d reads=%d overlapping=%d exact=%d window-old=%d window-new=%d window-inner=%d violations=%d %s\n",
		st.rounds, st.failing, st.muts, st.reads, st.overlapping, st.exact, st.seenOld, st.seenNew, st.seenMid, st.viol, strings.Join(ks, " "))
}

func kindList(kinds map[string]bool) string {
	var ks []string
	for k := range kinds {
		ks = append(ks, k)
	}
	sort.Strings(ks)
	return strings.Join(ks, ",")
}
