package main

import (
	"bufio"
	"fmt"
	"strings"

	"gcverif/internal/fsdrv"
	"gcverif/internal/hx"
)

// ---------------------------------------------------------------------------------------------
// Generator of cache histories (C06 / C07).  One PRNG; everything derives from it.
//
//	reset
//	new 0 mem ; 0..12 nodes written / created directly on the remote ; new 1 cache 0 ; dump 0
//	3..14 mutating operations through the cache (id 1) or child views of it (ids 2..):
//	    write, writer, mkdir, remove, removeall, copy, copyfile, copydir, view
//	  each followed by 1..3 read-type operations (isexist isfile isdir readfile reader readdir lstat, sometimes
//	  `dump 1` = the full walk through the cache) on the same / a neighbouring path through a random handle,
//	  and by `dump 0` (the remote must not have changed)
//	0..2 intermediate commits and a final one, each followed by `dump 0`; one commit in three carries
//	  `failat k` (then a plain retry follows); the final block commits twice; `classify 1` ends the history
//
// Paths: segments from {a,b,c}, depth 1..3, half of the time a path used before in this history (or its
// parent / a child), re-spelled (`./`, `//`, `x/..`, leading and trailing `/`) one time in three; a small
// stream of climbing and root spellings.
//
// The generator EXECUTES the history on the real code while it writes it (one fsdrv.Session), only to steer
// clear of two things the line-by-line comparison cannot express (the oracle judges them separately):
//   - a directory copied onto a destination that already has children in the buffer: fshelper.Copy stops
//     at the first error with whatever its goroutines had copied so far (not a function of the history);
//   - reads between a failed Commit and the next successful one, and `failat` when the number of remote
//     calls of Commit depends on the map iteration order (nested recursive removes that both exist remotely).
// Copy arguments that overlap (equal, or one inside the other, the root included) ARE generated: since the repair
// of KF-C06-7 the cache refuses them.  Should such a call not return (the defect is back) the watchdog answers
// `hang`, the comparison with the model reports it, and this generator stops drawing overlapping arguments for the
// rest of its run so that the campaign still finishes.
//
// `genclean`: the class of the `_partial` theorems — write, writer, mkdir, copyfile to an absent destination,
// every operation issued only when it succeeds when applied directly (flat reference); plus removes of nodes that exist only in the buffer (before the first commit).
// ---------------------------------------------------------------------------------------------

var pool = []string{"a", "b", "c"}

var climbers = []string{"..", "a/../..", "../a", "/..", "a/../../b", "../..", "./../a"}
var roots = []string{"", ".", "/", "./", "a/..", "b/c/../.."}

type hgen struct {
	r     *hx.Rand
	clean int // 0 everything; 1 the class of commit_equiv_partial; 2 the class of ryw_partial (no commits)
	count map[string]int

	lines []string
	sim   *fsdrv.Session
	post  *post
	ref   *fsdrv.Ref
	used  [][]string
	bases map[int][]string // open handle -> cache-level base segments
	ids   []int
	rmAll [][]string // cache-level paths given to removeall
	muts  int
	fails int // failed commits so far
	dead  bool
	ended bool
	// committed: a commit has been issued (genclean: removes only before it)
	committed bool
	// nestedEnd: nestedRemoveAll() just before the final commit block
	nestedEnd bool
	// noOverlap: an overlapping copy did not return in this run (KF-C06-7 is back): draw no more of them
	noOverlap bool
}

func newGen(r *hx.Rand, clean int) *hgen {
	return &hgen{r: r, clean: clean, count: map[string]int{}, sim: fsdrv.NewSession(), post: newPost(), ref: fsdrv.NewRef()}
}

func (g *hgen) emit(format string, a ...interface{}) string {
	l := fmt.Sprintf(format, a...)
	g.lines = append(g.lines, l)
	f := strings.Split(l, " ")
	res := g.post.apply(f, g.sim.Line(f))
	if res == "hang" || res == "panic" {
		g.dead = true
	}
	g.count["line:"+f[0]]++
	return res
}

func hp(s string) string { return fsdrv.HP(s) }

func (g *hgen) segs() []string {
	r := g.r
	if len(g.used) > 0 && r.Chance(1, 2) {
		base := g.used[r.Intn(len(g.used))]
		switch r.Intn(4) {
		case 0:
			if len(base) > 1 {
				return append([]string{}, base[:len(base)-1]...)
			}
		case 1:
			if len(base) < 3 {
				return append(append([]string{}, base...), r.Pick(pool))
			}
		}
		return append([]string{}, base...)
	}
	depth := 1
	switch x := r.Intn(100); {
	case x < 45:
		depth = 1
	case x < 85:
		depth = 2
	default:
		depth = 3
	}
	s := make([]string, depth)
	for i := range s {
		s[i] = r.Pick(pool)
	}
	return s
}

// spell re-spells a segment list; lastReal: the spelling must end in the last real name
func (g *hgen) spell(segs []string, lastReal bool) string {
	r := g.r
	plain := strings.Join(segs, "/")
	if !r.Chance(1, 3) {
		return plain
	}
	g.count["spell:odd"]++
	parts := append([]string{}, segs...)
	lead, trail := false, false
	for i, n := 0, 1+r.Intn(2); i < n; i++ {
		pos := r.Intn(len(parts) + 1)
		if lastReal && pos == len(parts) && len(parts) > 0 {
			pos--
		}
		ins := func(xs ...string) {
			parts = append(parts[:pos], append(append([]string{}, xs...), parts[pos:]...)...)
		}
		switch r.Intn(5) {
		case 0:
			ins(".")
		case 1:
			if pos > 0 {
				ins("")
			} else {
				lead = true
			}
		case 2:
			lead = true
		case 3:
			ins([]string{"a", "b", "z"}[r.Intn(3)], "..")
		default:
			trail = !lastReal
		}
	}
	s := strings.Join(parts, "/")
	if lead {
		s = "/" + s
	}
	if trail {
		s += "/"
	}
	return s
}

// path draws (segments, spelling); segs == nil for a climbing / root spelling
func (g *hgen) path(lastReal bool) ([]string, string) {
	if g.clean == 0 {
		switch x := g.r.Intn(100); {
		case x < 5:
			g.count["path:climbing"]++
			return nil, climbers[g.r.Intn(len(climbers))]
		case x < 8:
			g.count["path:root"]++
			return nil, roots[g.r.Intn(len(roots))]
		}
	}
	s := g.segs()
	g.used = append(g.used, s)
	return s, g.spell(s, lastReal)
}

func (g *hgen) content() []byte {
	r := g.r
	switch x := r.Intn(100); {
	case x < 12:
		return []byte{}
	case x < 30:
		return []byte{byte(r.Intn(256))}
	case x < 40:
		return []byte{0x00, 0x80, 0xff}
	case x < 60:
		return []byte("hello")
	}
	b := make([]byte, 1+r.Intn(6))
	for i := range b {
		b[i] = byte(r.Intn(256))
	}
	return b
}

func isRootSpelling(sp string) bool {
	for _, r := range roots {
		if r == sp {
			return true
		}
	}
	return false
}

func isPrefix(a, b []string) bool {
	if len(a) > len(b) {
		return false
	}
	for i := range a {
		if a[i] != b[i] {
			return false
		}
	}
	return true
}

func cat(a, b []string) []string { return append(append([]string{}, a...), b...) }

func (g *hgen) handle() int { return g.ids[g.r.Intn(len(g.ids))] }

func (g *hgen) cache() *cacheInfo {
	fs, ok := g.sim.FS(1)
	if !ok {
		return nil
	}
	return cachesOf(g.sim)[fs]
}

// refLine applies a line to the flat reference (direct application)
func (g *hgen) refLine(format string, a ...interface{}) string {
	return g.ref.Line(strings.Split(fmt.Sprintf(format, a...), " "))
}

// clash: would creating a file (or, file=false, a directory) at segs through handle h run into a node of the
// other kind, as far as the cache's own view tells?  (polite draws avoid the type-conflict classes)
func (g *hgen) clash(h int, segs []string, file bool) bool {
	fs, ok := g.sim.FS(h)
	if !ok || segs == nil {
		return false
	}
	for i := 1; i < len(segs); i++ {
		if fs.IsFile(strings.Join(segs[:i], "/")) {
			return true
		}
	}
	p := strings.Join(segs, "/")
	if file {
		return fs.IsDir(p)
	}
	return fs.IsFile(p)
}

// politePath draws a path (up to 5 attempts) that satisfies ok
func (g *hgen) politePath(lastReal bool, ok func(segs []string) bool) ([]string, string) {
	var s []string
	var sp string
	for i := 0; i < 5; i++ {
		s = g.segs()
		if ok(s) {
			break
		}
	}
	g.used = append(g.used, s)
	sp = g.spell(s, lastReal)
	return s, sp
}

// mutate emits one mutating operation through the cache; returns the cache-level segments it touched
func (g *hgen) mutate() [][]string {
	r := g.r
	h := g.handle()
	base := g.bases[h]
	type op struct {
		w    int
		word string
	}
	table := []op{{16, "write"}, {7, "writer"}, {12, "mkdir"}, {10, "remove"}, {7, "removeall"}, {6, "copy"}, {5, "copyfile"}, {5, "copydir"}, {4, "view"}}
	if g.clean > 0 {
		table = []op{{16, "write"}, {7, "writer"}, {12, "mkdir"}, {6, "copyfile"}, {3, "view"}}
		if g.clean == 2 {
			table = append(table, op{6, "remove"}, op{4, "removeall"})
		}
	}
	total := 0
	for _, o := range table {
		total += o.w
	}
	x := r.Intn(total)
	word := ""
	for _, o := range table {
		if x < o.w {
			word = o.word
			break
		}
		x -= o.w
	}
	g.count["op:"+word]++
	polite := g.clean == 0 && r.Chance(3, 5)
	if polite {
		g.count["polite"]++
	}
	bufferOnly := func(s []string) bool {
		ci := g.cache()
		remote, _ := g.sim.FS(0)
		if ci == nil || remote == nil {
			return true
		}
		p := strings.Join(cat(base, s), "/")
		return ci.c.Buffer().IsExist(p) && !remote.IsExist(p)
	}
	switch word {
	case "write":
		s, sp := g.path(false)
		if polite {
			s, sp = g.politePath(false, func(x []string) bool { return !g.clash(h, x, true) })
		}
		data := hx.Enc(g.content())
		if g.clean > 0 && g.refLine("write %d %s %s", h, hp(sp), data) != "ok" {
			g.count["clean:skipped"]++
			return nil
		}
		g.emit("write %d %s %s", h, hp(sp), data)
		return [][]string{cat(base, s)}
	case "writer":
		s, sp := g.path(false)
		if polite {
			s, sp = g.politePath(false, func(x []string) bool { return !g.clash(h, x, true) })
		}
		n := r.Intn(3)
		cs := make([]string, n)
		for i := range cs {
			cs[i] = hx.Enc(g.content())
		}
		l := strings.TrimRight(fmt.Sprintf("writer %d %s %s", h, hp(sp), strings.Join(cs, " ")), " ")
		if g.clean > 0 && g.refLine("%s", l) != "ok" {
			g.count["clean:skipped"]++
			return nil
		}
		g.emit("%s", l)
		return [][]string{cat(base, s)}
	case "mkdir":
		s, sp := g.path(false)
		if polite {
			s, sp = g.politePath(false, func(x []string) bool { return !g.clash(h, x, false) })
		}
		if g.clean > 0 && g.refLine("mkdir %d %s", h, hp(sp)) != "ok" {
			g.count["clean:skipped"]++
			return nil
		}
		g.emit("mkdir %d %s", h, hp(sp))
		return [][]string{cat(base, s)}
	case "remove", "removeall":
		s, sp := g.path(false)
		if polite {
			s, sp = g.politePath(false, bufferOnly)
		}
		if g.clean > 0 {
			// only nodes that exist in the buffer and not on the remote (nothing at or below the path is remote)
			p := strings.Join(cat(base, s), "/")
			remote, _ := g.sim.FS(0)
			if s == nil || remote == nil || remote.IsExist(p) || g.refLine("%s %d %s", word, h, hp(sp)) != "ok" {
				g.count["clean:skipped"]++
				return nil
			}
		}
		g.emit("%s %d %s", word, h, hp(sp))
		if word == "removeall" && s != nil {
			g.rmAll = append(g.rmAll, cat(base, s))
		}
		return [][]string{cat(base, s)}
	case "copy", "copyfile", "copydir":
		s, ssp := g.path(false)
		d, dsp := g.path(false)
		if polite {
			fs, _ := g.sim.FS(h)
			s, ssp = g.politePath(false, func(x []string) bool {
				if fs == nil {
					return true
				}
				if word == "copydir" {
					return fs.IsDir(strings.Join(x, "/"))
				}
				return fs.IsFile(strings.Join(x, "/"))
			})
			d, dsp = g.politePath(false, func(x []string) bool {
				return fs == nil || (!fs.IsExist(strings.Join(x, "/")) && !g.clash(h, x, true) && !isPrefix(x, s) && !isPrefix(s, x))
			})
		}
		if s == nil && d == nil {
			return nil
		}
		// overlapping arguments: the root as an argument (a rooted climbing spelling such as `/..` is cleaned to
		// the root by the cache: KF-C07-6), equal paths, one inside the other — refused by the cache (fix of KF-C06-7)
		overlapping := isRootSpelling(ssp) || isRootSpelling(dsp) || (s == nil && strings.HasPrefix(ssp, "/")) ||
			(d == nil && strings.HasPrefix(dsp, "/")) || (s != nil && d != nil && (isPrefix(s, d) || isPrefix(d, s)))
		if overlapping {
			if g.noOverlap || g.clean > 0 {
				g.count["steer:overlap"]++
				return nil
			}
			g.count["copy:overlapping"]++
			if g.emit("%s %d %s %s", word, h, hp(ssp), hp(dsp)) == "hang" {
				g.noOverlap = true
			}
			return [][]string{cat(base, s), cat(base, d)}
		}
		if s != nil && d != nil && word != "copyfile" {
			// a directory source onto a destination that has children in the buffer: outcome of a failing
			// fshelper.Copy is not a function of the history
			fs, _ := g.sim.FS(h)
			ci := g.cache()
			if fs == nil || ci == nil {
				return nil
			}
			if fs.IsDir(strings.Join(s, "/")) {
				if l, err := ci.c.Buffer().ReadDir(strings.Join(cat(base, d), "/")); err == nil && len(l) > 0 {
					g.count["steer:dircopy-onto-children"]++
					return nil
				}
			}
		}
		if g.clean > 0 {
			if g.refLine("copyfile %d %s %s", h, hp(ssp), hp(dsp)) != "ok" {
				g.count["clean:skipped"]++
				return nil
			}
		}
		g.emit("%s %d %s %s", word, h, hp(ssp), hp(dsp))
		return [][]string{cat(base, s), cat(base, d)}
	case "view":
		s, sp := g.path(false)
		id := 2
		for _, x := range g.ids {
			if x >= id {
				id = x + 1
			}
		}
		if g.clean > 0 {
			g.refLine("view %d %d %s", id, h, hp(sp))
		}
		if g.emit("view %d %d %s", id, h, hp(sp)) == "ok" && s != nil {
			g.ids = append(g.ids, id)
			g.bases[id] = cat(base, s)
		}
		return nil
	}
	return nil
}

var readWords = []string{"isexist", "isfile", "isdir", "readfile", "reader", "readdir", "lstat"}

// reads emits read-type operations around the cache-level paths just touched
func (g *hgen) reads(touched [][]string) {
	r := g.r
	for i, n := 0, 1+r.Intn(3); i < n; i++ {
		var target []string
		switch {
		case len(touched) > 0 && r.Chance(3, 5):
			target = touched[r.Intn(len(touched))]
			switch r.Intn(5) {
			case 0:
				if len(target) > 0 {
					target = target[:len(target)-1]
				}
			case 1:
				target = cat(target, []string{r.Pick(pool)})
			}
		default:
			target = g.segs()
		}
		h := g.handle()
		base := g.bases[h]
		rel := target
		if isPrefix(base, target) {
			rel = target[len(base):]
		}
		sp := strings.Join(rel, "/")
		if len(rel) > 0 && r.Chance(1, 5) {
			sp = g.spell(rel, false)
		}
		word := readWords[r.Intn(len(readWords))]
		if r.Chance(1, 2) && len(rel) == 0 {
			word = "readdir"
		}
		g.count["read:"+word]++
		if word == "reader" {
			sizes := []string{"0", "1", "2", "3", "5", "8", "64"}
			k := r.Intn(4)
			ss := make([]string, k)
			for j := range ss {
				ss[j] = sizes[r.Intn(len(sizes))]
			}
			g.emit("%s", strings.TrimRight(fmt.Sprintf("reader %d %s %s", h, hp(sp), strings.Join(ss, " ")), " "))
			continue
		}
		g.emit("%s %d %s", word, h, hp(sp))
	}
	if r.Chance(1, 4) {
		g.emit("dump %d", g.handle())
		g.count["read:dump"]++
	}
}

// nestedRemoveAll: two recursively removed paths, one below the other, both present on the remote
func (g *hgen) nestedRemoveAll() bool {
	remote, ok := g.sim.FS(0)
	if !ok {
		return true
	}
	for i, p := range g.rmAll {
		for j, q := range g.rmAll {
			if i != j && len(p) < len(q) && isPrefix(p, q) && remote.IsExist(strings.Join(p, "/")) && remote.IsExist(strings.Join(q, "/")) {
				return true
			}
		}
	}
	return false
}

// commitBlock: a commit (one in three with an injected failure and a retry), then the remote's tree.
// Returns false when the history must end (a commit that fails without injection keeps failing).
func (g *hgen) commitBlock(final bool) bool {
	r := g.r
	g.committed = true
	order := ""
	if r.Chance(1, 2) {
		order = fmt.Sprintf(" order %d", r.Intn(1000))
	}
	if r.Chance(1, 3) && !g.nestedRemoveAll() {
		ci := g.cache()
		bound := 1
		if ci != nil {
			bound = 2 + 4*g.muts
		}
		k := r.Intn(bound)
		if r.Chance(1, 2) {
			k = r.Intn(3)
		}
		g.count["commit:failat"]++
		res := g.emit("commit 1 failat %d%s", k, order)
		if res == "err" {
			g.count["commit:failat-fired"]++
			if g.emit("commit 1%s", order) != "ok" {
				g.count["commit:natural-failure"]++
				return false
			}
		} else if res != "ok" {
			return false
		}
	} else {
		g.count["commit:plain"]++
		if g.emit("commit 1%s", order) != "ok" {
			g.count["commit:natural-failure"]++
			return false
		}
	}
	g.emit("dump 0")
	if final {
		g.emit("commit 1")
		g.emit("dump 0")
		g.emit("dump 1")
	}
	return true
}

// history generates one history (executing it on the real code as it goes) and returns its lines
func (g *hgen) history() []string {
	r := g.r
	g.sim.Reset()
	g.lines, g.used, g.rmAll, g.muts, g.fails, g.dead, g.committed = nil, nil, nil, 0, 0, false, false
	g.bases = map[int][]string{1: {}}
	g.ids = []int{1}
	g.emit("reset")
	g.ref.Line([]string{"reset"})
	g.emit("new 0 mem")
	g.ref.Line([]string{"new", "0", "mem"})
	for i, n := 0, r.Intn(13); i < n; i++ {
		s := g.segs()
		g.used = append(g.used, s)
		p := hp(strings.Join(s, "/"))
		if r.Chance(3, 5) {
			d := hx.Enc(g.content())
			g.emit("write 0 %s %s", p, d)
			g.refLine("write 0 %s %s", p, d)
		} else {
			g.emit("mkdir 0 %s", p)
			g.refLine("mkdir 0 %s", p)
		}
	}
	g.emit("new 1 cache 0")
	g.ref.Line([]string{"new", "1", "mem"}) // the flat reference has one tree: id 1 = its root
	g.emit("dump 0")
	alive := true
	commits := 0
	for i, n := 0, 3+r.Intn(12); i < n && alive && !g.dead; i++ {
		touched := g.mutate()
		if touched != nil {
			g.muts++
		}
		g.reads(touched)
		g.emit("dump 0")
		if g.clean != 2 && commits < 2 && r.Chance(1, 7) {
			commits++
			alive = g.commitBlock(false)
		}
	}
	g.nestedEnd = g.nestedRemoveAll()
	if alive && !g.dead && g.clean != 2 {
		g.commitBlock(true)
	} else if g.clean == 2 {
		g.emit("dump 1")
	}
	g.emit("classify 1")
	g.count["histories"]++
	return g.lines
}

// failatSweep: for a short history, one variant per call index of its final commit
func (g *hgen) failatSweep(w *bufio.Writer, lines []string) {
	// cut at the final commit block: everything up to the last line that is not commit/dump/classify
	end := len(lines)
	for end > 0 {
		f := strings.SplitN(lines[end-1], " ", 2)[0]
		if f != "commit" && f != "dump" && f != "classify" {
			break
		}
		end--
	}
	body := lines[:end]
	for _, l := range body {
		if strings.HasPrefix(l, "commit") {
			return // only histories whose only commits are the final ones
		}
	}
	// replay the body on a fresh session and count the calls of an unfailed commit
	s := fsdrv.NewSession()
	p := newPost()
	for _, l := range body {
		f := strings.Split(l, " ")
		p.apply(f, s.Line(f))
	}
	fs, ok := s.FS(1)
	if !ok {
		s.Reset()
		return
	}
	ci := cachesOf(s)[fs]
	if ci == nil || s.Line([]string{"commit", "1"}) != "ok" {
		s.Reset()
		return
	}
	n := ci.fail.n
	s.Reset()
	if n > 24 {
		n = 24
	}
	for k := 0; k < n; k++ {
		for _, l := range body {
			w.WriteString(l)
			w.WriteByte('\n')
		}
		fmt.Fprintf(w, "commit 1 failat %d\ncommit 1 order %d\ndump 0\ncommit 1\ndump 0\nclassify 1\n", k, k)
		g.count["sweep:histories"]++
	}
}

func genSeed(shard int, clean int) uint64 {
	s := hx.SeedFromEnv()*1000003 + uint64(shard)*7919 + 606
	s ^= uint64(clean) * 0xc1ea
	return s
}

func gen(w *bufio.Writer, stat *bufio.Writer, n, shard, nshards int, clean int) {
	g := newGen(hx.NewRand(genSeed(shard, clean)), clean)
	for i := shard; i < n; i += nshards {
		lines := g.history()
		for _, l := range lines {
			w.WriteString(l)
			w.WriteByte('\n')
		}
		if clean == 0 && g.muts <= 5 && !g.dead && !g.nestedEnd && i%3 == 0 {
			g.failatSweep(w, lines)
		}
	}
	g.sim.Reset()
	fsdrv.PrintCounts(stat, "genstat", g.count)
}
