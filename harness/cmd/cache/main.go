// Command cache is the implementation-side driver, generator and oracle of the `fs` line protocol for
// properties C06 / C07 (fscache.Cache, the write-back cache).  It is built on gcverif/internal/fsdrv
// (protocol interpreter, registries; see /verif/lean/Driver/FSCore.lean and /verif/notes/FS_EXTENDING.md);
// the Lean twin is /verif/lean/Driver/Cache.lean (executable m_cache).
//
//	new <id> cache <remotefs>                  fscache.NewMemCache(failing-remote decorator over <remotefs>);
//	                                           <remotefs> must be a root memory filespace, else `err`
//	commit <cache> [failat <k>] [order <s>]    -> ok | err | swallowed
//	        Commit(); with `failat k` the k-th (0-based) remote call of this Commit that can report an error fails:
//	        Remove, RemoveAll, MkdirAll, Writer (without effect), and Write / Close on a writer the remote handed out
//	        (a failing Write writes nothing, a failing Close is reported after the data was written).  `swallowed`: the failure was injected but
//	        Commit returned nil.  `order` is for the model only (the order in which the Go maps are replayed is
//	        not controllable here); every compared value is independent of it.
//	classify <cache>                           -> -      (model side: reports defect classes on stderr)
//
// Result post-processing (identical in the Lean driver, see `post`): listings are sorted (the order of a
// directory filled by fshelper.Copy / by Commit depends on goroutine scheduling / map iteration); after a
// Commit that reported an error the remote is in a state that depends on the map iteration order, so until the
// next successful Commit every answer that depends on the remote is replaced by `undet`.
//
//	cache drive [-stats <file>] [-nohash] [-watchdog <s>]   op lines on stdin -> result lines, real code of /repo
//	        (-watchdog: seconds after which a call that has not returned is answered `hang`; default 10)
//	cache gen <n> [<shard> <nshards>]          n random histories (this shard's share), seeded from VERIF_SEED
//	cache genclean <n> [<shard> <nshards>]     histories restricted to the class of commit_equiv_partial (C06)
//	cache genryw <n> [<shard> <nshards>]       histories restricted to the class of ryw_partial (C07; no commits)
//	cache oracle <n> [<shard> <nshards>]       property oracle: real code against a flat reference, no Lean model
//	cache oracleclean|oracleryw <n> [<shard> <nshards>]  the same on the restricted classes (no deviation is excusable there)
//	cache refcheck                             the oracle's judgement of the histories given on stdin
//	cache conc <rounds> [<shard> <nshards>] [only=<round>] [repeat=<n>] [kinds=…]   C07, concurrent family (conc.go)
package main

import (
	"bufio"
	"encoding/json"
	"fmt"
	"hash/fnv"
	"os"
	"sort"
	"strconv"
	"strings"
	"time"

	"gcverif/internal/fsdrv"

	"github.com/goatcms/goatcore/filesystem"
	"github.com/goatcms/goatcore/filesystem/filespace/memfs"
	"github.com/goatcms/goatcore/filesystem/fscache"
)

// FS: filesystem.Filespace has a method named Filespace, so it is embedded through an alias.
type FS = filesystem.Filespace

// failState is the switchboard of the failing-remote decorator of one cache.
type failState struct {
	armed bool // inside Commit
	k     int  // index of the call that fails (-1: none)
	n     int  // error-capable remote calls seen in this Commit
	fired bool
	// mutations counts every mutating call that reached the remote (armed or not): the oracle asserts
	// that it stays 0 outside Commit
	outside int
}

type failFS struct {
	FS
	st *failState
}

var errInjected = fmt.Errorf("injected remote failure")

func (f *failFS) hit() bool {
	if !f.st.armed {
		f.st.outside++
		return false
	}
	i := f.st.n
	f.st.n++
	if i == f.st.k {
		f.st.fired = true
		return true
	}
	return false
}

func (f *failFS) Remove(p string) error {
	if f.hit() {
		return errInjected
	}
	return f.FS.Remove(p)
}

func (f *failFS) RemoveAll(p string) error {
	if f.hit() {
		return errInjected
	}
	return f.FS.RemoveAll(p)
}

func (f *failFS) MkdirAll(p string, m os.FileMode) error {
	if f.hit() {
		return errInjected
	}
	return f.FS.MkdirAll(p, m)
}

func (f *failFS) Writer(p string) (filesystem.Writer, error) {
	if f.hit() {
		return nil, errInjected
	}
	w, err := f.FS.Writer(p)
	if err != nil {
		return nil, err
	}
	return &failWriter{w: w, st: f}, nil
}

// failWriter: the Write and Close calls on a writer handed out by the remote are remote calls too.  A failing
// Write writes nothing; a failing Close still closes the underlying writer (the memory file's lock must be
// released) and reports the failure after the data was written.
type failWriter struct {
	w  filesystem.Writer
	st *failFS
}

func (fw *failWriter) Write(b []byte) (int, error) {
	if fw.st.hit() {
		return 0, errInjected
	}
	return fw.w.Write(b)
}

func (fw *failWriter) Close() error {
	fail := fw.st.hit()
	err := fw.w.Close()
	if fail {
		return errInjected
	}
	return err
}

// the remaining mutating methods are never called on the remote by fscache; if a change of the code makes it
// call them they are counted (outside Commit) and passed on
func (f *failFS) WriteFile(p string, d []byte, m os.FileMode) error {
	if f.hit() {
		return errInjected
	}
	return f.FS.WriteFile(p, d, m)
}
func (f *failFS) Copy(a, b string) error {
	if f.hit() {
		return errInjected
	}
	return f.FS.Copy(a, b)
}
func (f *failFS) CopyFile(a, b string) error {
	if f.hit() {
		return errInjected
	}
	return f.FS.CopyFile(a, b)
}
func (f *failFS) CopyDirectory(a, b string) error {
	if f.hit() {
		return errInjected
	}
	return f.FS.CopyDirectory(a, b)
}

type cacheInfo struct {
	c    *fscache.Cache
	fail *failState
}

func cachesOf(s *fsdrv.Session) map[FS]*cacheInfo {
	m, _ := s.Vals["caches"].(map[FS]*cacheInfo)
	if m == nil {
		m = map[FS]*cacheInfo{}
		s.Vals["caches"] = m
	}
	return m
}

func init() {
	// a call that has not returned after this time is answered `hang` (generous: every call of this family is a
	// handful of in-memory operations); `drive -watchdog <s>` overrides it
	fsdrv.Watchdog = 10 * time.Second
	fsdrv.RegisterKind("cache", func(s *fsdrv.Session, args []string) (fsdrv.FS, error) {
		if len(args) != 1 {
			return nil, fsdrv.ErrBadOp
		}
		remote, ok := s.FSArg(args[0])
		if !ok {
			return nil, fsdrv.ErrBadOp
		}
		if _, isRoot := remote.(*memfs.Filespace); !isRoot {
			return nil, fmt.Errorf("remote must be a root memory filespace")
		}
		st := &failState{k: -1}
		c, err := fscache.NewMemCache(&failFS{FS: remote, st: st})
		if err != nil {
			return nil, err
		}
		cachesOf(s)[c] = &cacheInfo{c: c, fail: st}
		return c, nil
	})
	fsdrv.RegisterCommand("commit", func(s *fsdrv.Session, args []string) string {
		k, good := parseCommit(args)
		if !good {
			return "bad-op"
		}
		fs, ok := s.FSArg(args[0])
		if !ok {
			return "nofs"
		}
		ci := cachesOf(s)[fs]
		if ci == nil {
			return "bad-op"
		}
		return s.Exec(func() string {
			st := ci.fail
			st.armed, st.k, st.n, st.fired = true, k, 0, false
			err := ci.c.Commit()
			st.armed = false
			switch {
			case err != nil:
				return "err"
			case st.fired:
				return "swallowed"
			}
			return "ok"
		})
	})
	fsdrv.MarkMutating("commit")
	fsdrv.RegisterCommand("classify", func(s *fsdrv.Session, args []string) string {
		if len(args) != 1 {
			return "bad-op"
		}
		if _, err := strconv.Atoi(args[0]); err != nil {
			return "bad-op"
		}
		return "-"
	})
}

// parseCommit: `<cache> [failat <k>] [order <s>]` -> k (-1: no injection)
func parseCommit(args []string) (int, bool) {
	if len(args) < 1 {
		return 0, false
	}
	if _, err := strconv.Atoi(args[0]); err != nil {
		return 0, false
	}
	k := -1
	rest := args[1:]
	for len(rest) > 0 {
		if len(rest) < 2 {
			return 0, false
		}
		n, err := strconv.Atoi(rest[1])
		if err != nil || n < 0 {
			return 0, false
		}
		switch rest[0] {
		case "failat":
			k = n
		case "order":
		default:
			return 0, false
		}
		rest = rest[2:]
	}
	return k, true
}

// ---------------------------------------------------------------------------------------------
// post-processing of result lines (mirrored line for line by Driver/Cache.lean `Post`)
// ---------------------------------------------------------------------------------------------

type post struct {
	cacheOf  map[int]int // filespace id (a cache or a view of it) -> cache id
	remoteOf map[int]int // cache id -> id of its remote
	undet    map[int]int // cache id -> 0 determined, 1 until the next successful commit, 2 for ever
}

func newPost() *post {
	return &post{cacheOf: map[int]int{}, remoteOf: map[int]int{}, undet: map[int]int{}}
}

var copyWords = map[string]bool{"copy": true, "copyfile": true, "copydir": true}

// masked: does an answer of filespace id depend on an undetermined remote?  (marks the cache for ever when a
// copy is executed in that state: its source resolution has read the remote)
func (p *post) masked(id int, word string) bool {
	if c, ok := p.cacheOf[id]; ok && p.undet[c] > 0 {
		if copyWords[word] {
			p.undet[c] = 2
		}
		return true
	}
	for c, r := range p.remoteOf {
		if r == id && p.undet[c] > 0 {
			return true
		}
	}
	return false
}

func (p *post) apply(f []string, res string) string {
	num := func(i int) (int, bool) {
		if i >= len(f) {
			return 0, false
		}
		n, err := strconv.Atoi(f[i])
		return n, err == nil
	}
	switch f[0] {
	case "reset":
		*p = *newPost()
		return res
	case "new":
		id, ok := num(1)
		if ok && res == "ok" {
			delete(p.cacheOf, id)
			if len(f) == 4 && f[2] == "cache" {
				if r, ok := num(3); ok {
					p.cacheOf[id] = id
					p.remoteOf[id] = r
					p.undet[id] = 0
				}
			}
		}
		return res
	case "view":
		id, ok1 := num(1)
		parent, ok2 := num(2)
		if ok1 && ok2 && res == "ok" {
			c, isCache := p.cacheOf[parent]
			delete(p.cacheOf, id)
			if isCache {
				p.cacheOf[id] = c
			}
		}
		return res
	case "commit":
		c, ok := num(1)
		if ok {
			if _, is := p.remoteOf[c]; is {
				switch res {
				case "ok":
					if p.undet[c] == 1 {
						p.undet[c] = 0
					}
				case "err", "swallowed":
					if p.undet[c] == 0 {
						p.undet[c] = 1
					}
				}
			}
		}
		return res
	case "classify", "keep", "mutate", "recheck", "path":
		return res
	}
	if id, ok := num(1); ok && len(f) >= 2 {
		if res != "bad-op" && res != "nofs" && p.masked(id, f[0]) {
			return "undet"
		}
	}
	return fsdrv.Canon(res)
}

// ---------------------------------------------------------------------------------------------
// drive
// ---------------------------------------------------------------------------------------------

type stats struct {
	Histogram  map[string]int `json:"histogram"`
	Histories  int            `json:"histories"`
	Nontrivial int            `json:"nontrivial"`
	Hashes     []string       `json:"hashes,omitempty"`
	Lines      int            `json:"lines"`
}

var mutWords = map[string]bool{"write": true, "writer": true, "mkdir": true, "remove": true, "removeall": true,
	"copy": true, "copyfile": true, "copydir": true, "commit": true}

func drive(in *bufio.Scanner, w *bufio.Writer, opts fsdrv.Options) {
	s := fsdrv.NewSession()
	p := newPost()
	st := &stats{Histogram: map[string]int{}}
	h := fnv.New64a()
	seen := map[uint64]bool{}
	var mutOK, anyErr, open bool
	finish := func() {
		if !open {
			return
		}
		st.Histories++
		if mutOK && anyErr {
			st.Nontrivial++
			if !opts.NoHash {
				seen[h.Sum64()] = true
			}
		}
		h.Reset()
		mutOK, anyErr, open = false, false, false
	}
	for in.Scan() {
		line := in.Text()
		if line == "" || strings.HasPrefix(line, "#") {
			continue
		}
		f := strings.Split(line, " ")
		if f[0] == "reset" {
			finish()
		}
		res := p.apply(f, s.Line(f))
		w.WriteString(res)
		w.WriteByte('\n')
		if opts.StatsPath != "" {
			open = true
			st.Lines++
			h.Write([]byte(line))
			h.Write([]byte{'\n'})
			kind := res
			if i := strings.IndexByte(res, ' '); i >= 0 {
				kind = res[:i]
			}
			word := f[0]
			if word == "commit" && len(f) > 2 {
				word = "commit-failat"
			}
			st.Histogram[word+":"+kind]++
			if kind == "err" {
				anyErr = true
			}
			if kind == "ok" && mutWords[f[0]] {
				mutOK = true
			}
		}
	}
	finish()
	s.Reset()
	if opts.StatsPath != "" {
		if !opts.NoHash {
			for k := range seen {
				st.Hashes = append(st.Hashes, strconv.FormatUint(k, 16))
			}
			sort.Strings(st.Hashes)
		}
		b, _ := json.Marshal(st)
		_ = os.WriteFile(opts.StatsPath, b, 0644)
	}
}

func main() {
	w := bufio.NewWriterSize(os.Stdout, 1<<20)
	defer w.Flush()
	ew := bufio.NewWriter(os.Stderr)
	defer ew.Flush()
	usage := func() {
		fmt.Fprintln(os.Stderr, "usage: cache drive [-stats file] [-nohash] | gen|genclean|genryw|oracle|oracleclean|oracleryw <n> [shard nshards] | refcheck")
		os.Exit(2)
	}
	if len(os.Args) < 2 {
		usage()
	}
	num := func() int {
		if len(os.Args) < 3 {
			usage()
		}
		n, _ := strconv.Atoi(os.Args[2])
		return n
	}
	scanner := func() *bufio.Scanner {
		sc := bufio.NewScanner(os.Stdin)
		sc.Buffer(make([]byte, 1<<20), 1<<28)
		return sc
	}
	switch os.Args[1] {
	case "drive":
		for i, a := range os.Args {
			if a == "-watchdog" && i+1 < len(os.Args) {
				if sec, err := strconv.Atoi(os.Args[i+1]); err == nil && sec > 0 {
					fsdrv.Watchdog = time.Duration(sec) * time.Second
				}
			}
		}
		drive(scanner(), w, fsdrv.ParseDriveArgs(os.Args[2:]))
	case "gen", "genclean", "genryw":
		n := num()
		s, ns := fsdrv.ShardArgs(os.Args[3:])
		gen(w, ew, n, s, ns, map[string]int{"gen": 0, "genclean": 1, "genryw": 2}[os.Args[1]])
	case "oracle", "oracleclean", "oracleryw":
		n := num()
		s, ns := fsdrv.ShardArgs(os.Args[3:])
		oracle(w, n, s, ns, map[string]int{"oracle": 0, "oracleclean": 1, "oracleryw": 2}[os.Args[1]])
	case "conc":
		if len(os.Args) < 3 {
			usage()
		}
		conc(w, os.Args[2:])
	case "refcheck":
		refcheck(scanner(), w)
	default:
		usage()
	}
}
