package main

import (
	"bufio"
	"fmt"
	"sort"
	"strconv"
	"strings"

	"gcverif/internal/fsdrv"
	"gcverif/internal/hx"
)

// ---------------------------------------------------------------------------------------------
// `cache oracle <n>`: properties C06 and C07 evaluated on the implementation alone — no Lean model.
//
// Expected answers come from fsdrv.Ref, the flat "set of named paths" reference written from the sentences
// of C01: ONE tree D = the remote's initial content, to which every operation that SUCCEEDED through the cache
// is applied directly (through the same child-view base).  Per line of a history:
//
//	any cache line      the remote, walked through its own interface, equals its tree at the last successful
//	                    Commit (initially: as populated), and no mutating call reached it          FAIL untouched
//	read through cache  (isexist isfile isdir readfile reader readdir lstat, dump = full walk) = D    FAIL ryw
//	commit              injected failure reported                                                   FAIL swallowed
//	                    no error without injection                                                  FAIL commit-err
//	                    after success: remote tree = D                                              FAIL tree
//	                    … also when the previous commit had failed by injection                     FAIL retry-tree
//	                    a commit with nothing new leaves the remote as it is                        FAIL second-commit
//
// C06 and C07 are known to fail on the current code (known_findings.d/C06.json, C07.json): the oracle prints
// every failing history (FAIL lines, then its op lines as `H …`, then `E`); the check classifies each with
// the defect predicates evaluated by the Lean driver and re-runs it against the model.  On `oracleclean`
// (the class of the `_partial` theorems) no FAIL is excusable.
// ---------------------------------------------------------------------------------------------

type failure struct {
	kind, op, want, got string
	line                int
}

type judge struct {
	impl   *fsdrv.Session
	post   *post
	ref    *fsdrv.Ref
	bogus  map[int]bool // views the reference cannot open (climbing path)
	snap   string       // the remote's tree at the last successful commit
	cached bool         // the cache exists
	dirty  bool         // a mutation went through the cache since the last successful commit
	failed bool         // the last commit failed by injection
	fails  []failure
	notes  map[string]int
	cases  int
}

var readSet = map[string]bool{"isexist": true, "isfile": true, "isdir": true, "readfile": true, "reader": true, "readdir": true, "lstat": true}

func trunc(s string) string {
	if len(s) > 300 {
		return s[:300] + "…"
	}
	return s
}

func (j *judge) fail(kind string, line int, op, want, got string) {
	if len(j.fails) < 8 {
		j.fails = append(j.fails, failure{kind, op, trunc(want), trunc(got), line})
	}
}

func (j *judge) c06failed() bool {
	for _, f := range j.fails {
		if f.kind != "ryw" {
			return true
		}
	}
	return false
}

func (j *judge) remoteDump() string {
	remote, ok := j.impl.FS(0)
	if !ok {
		return "nofs"
	}
	return j.impl.Exec(func() string { return fsdrv.Dump(remote) })
}

func (j *judge) cacheInfo() *cacheInfo {
	fs, ok := j.impl.FS(1)
	if !ok {
		return nil
	}
	return cachesOf(j.impl)[fs]
}

// run judges one history; returns the failures
func (j *judge) run(hist []string) []failure {
	j.post = newPost()
	j.bogus = map[int]bool{}
	j.fails, j.cached, j.dirty, j.failed, j.snap = nil, false, false, false, ""
	for k, l := range hist {
		f := strings.Split(l, " ")
		got := j.post.apply(f, j.impl.Line(f))
		j.cases++
		num := func(i int) int {
			if i >= len(f) {
				return -1
			}
			n, err := strconv.Atoi(f[i])
			if err != nil {
				return -1
			}
			return n
		}
		if got == "panic" || got == "hang" {
			j.fail("crash", k, l, "an answer", got)
			break
		}
		switch {
		case f[0] == "reset":
			j.ref.Line(f)
			continue
		case f[0] == "new" && len(f) == 4 && f[2] == "cache":
			j.ref.Line([]string{"new", f[1], "mem"})
			j.cached = got == "ok"
			j.snap = j.remoteDump()
			if want := j.ref.Line([]string{"dump", f[1]}); want != j.snap {
				j.fail("setup", k, l, want, j.snap)
			}
			continue
		case f[0] == "new":
			j.ref.Line(f)
			continue
		case f[0] == "classify":
			continue
		case f[0] == "commit":
			ci := j.cacheInfo()
			fired := ci != nil && ci.fail.fired
			switch got {
			case "swallowed":
				j.fail("swallowed", k, l, "err", "nil error although a remote call failed")
				j.failed = false
			case "err":
				if !fired {
					j.fail("commit-err", k, l, "ok", "err")
					j.notes["commit-err"]++
				} else {
					j.failed = true
				}
			case "ok":
				actual := j.remoteDump()
				want := j.ref.Line([]string{"dump", "1"})
				switch {
				case actual != want && j.failed:
					j.fail("retry-tree", k, l, want, actual)
				case actual != want:
					j.fail("tree", k, l, want, actual)
				}
				if !j.dirty && !j.failed && actual != j.snap {
					j.fail("second-commit", k, l, j.snap, actual)
				}
				j.snap, j.dirty, j.failed = actual, false, false
			}
			continue
		}
		id := num(1)
		c, isCache := j.post.cacheOf[id]
		_ = c
		if f[0] == "view" {
			if _, parentIsCache := j.post.cacheOf[num(2)]; parentIsCache || (isCache && got == "ok") {
				want := "err"
				if !j.bogus[num(2)] {
					want = j.ref.Line(f)
				}
				if got == "ok" {
					if want != "ok" {
						j.bogus[id] = true
					} else {
						delete(j.bogus, id)
					}
				}
			}
			continue
		}
		if !isCache {
			if id == 0 && f[0] == "dump" && j.cached && got != "undet" {
				if got != j.snap {
					j.fail("untouched", k, l, j.snap, got)
				}
			} else if !j.cached {
				j.ref.Line(f)
			}
			continue
		}
		if got == "undet" {
			continue
		}
		switch {
		case readSet[f[0]] || f[0] == "dump":
			if j.bogus[id] {
				continue
			}
			// reads are judged until the first C06 deviation (after a wrong Commit the remote itself is off)
			if want := j.ref.Line(f); want != "skip" && want != got && !j.c06failed() {
				j.fail("ryw", k, l, want, got)
				j.notes["ryw:"+f[0]]++
			}
		case fsdrv.KnownCall(f[0], len(f)-2):
			if got == "ok" {
				j.dirty = true
				if j.bogus[id] {
					j.notes["direct-refuses:bogus-view"]++
				} else if want := j.ref.Line(f); want != "ok" {
					j.notes["direct-refuses:"+f[0]]++
				}
			} else {
				// a refused call may still have journalled something
				j.dirty = true
			}
			if ci := j.cacheInfo(); ci != nil && ci.fail.outside > 0 {
				j.fail("untouched", k, l, "no mutating call on the remote outside Commit", fmt.Sprintf("%d calls", ci.fail.outside))
				ci.fail.outside = 0
			}
			if now := j.remoteDump(); now != j.snap {
				j.fail("untouched", k, l, j.snap, now)
			}
		}
	}
	return j.fails
}

func report(w *bufio.Writer, hist []string, fails []failure) {
	for _, f := range fails {
		fmt.Fprintf(w, "FAIL %s line=%d op=%s want=%s got=%s\n", f.kind, f.line, f.op, f.want, f.got)
	}
	for _, h := range hist {
		fmt.Fprintf(w, "H %s\n", h)
	}
	w.WriteString("E\n")
}

func summary(w *bufio.Writer, j *judge, hists, failing int, kinds map[string]int) {
	var ks []string
	for k, v := range kinds {
		ks = append(ks, fmt.Sprintf("fail:%s=%d", k, v))
	}
	for k, v := range j.notes {
		ks = append(ks, fmt.Sprintf("note:%s=%d", k, v))
	}
	sort.Strings(ks)
	fmt.Fprintf(w, "oracle histories=%d cases=%d failing=%d %s\n", hists, j.cases, failing, strings.Join(ks, " "))
}

func oracleSeed(shard int, clean int) uint64 {
	s := (hx.SeedFromEnv()*1000003 + uint64(shard)*104729) ^ 0x0c06
	s ^= uint64(clean) * 0xc1ea0000
	return s
}

func oracle(w *bufio.Writer, n, shard, nshards int, clean int) {
	g := newGen(hx.NewRand(oracleSeed(shard, clean)), clean)
	j := &judge{impl: fsdrv.NewSession(), ref: fsdrv.NewRef(), notes: map[string]int{}}
	hists, failing := 0, 0
	kinds := map[string]int{}
	for i := shard; i < n; i += nshards {
		hist := append([]string{}, g.history()...)
		hists++
		fails := j.run(hist)
		if len(fails) > 0 {
			failing++
			seen := map[string]bool{}
			for _, f := range fails {
				if !seen[f.kind] {
					kinds[f.kind]++
					seen[f.kind] = true
				}
			}
			report(w, hist, fails)
		}
	}
	j.impl.Reset()
	g.sim.Reset()
	summary(w, j, hists, failing, kinds)
}

// refcheck: the histories on stdin (each starts with `reset`), same judgement and output
func refcheck(in *bufio.Scanner, w *bufio.Writer) {
	j := &judge{impl: fsdrv.NewSession(), ref: fsdrv.NewRef(), notes: map[string]int{}}
	var hist []string
	hists, failing := 0, 0
	kinds := map[string]int{}
	flush := func() {
		if len(hist) == 0 {
			return
		}
		hists++
		fails := j.run(hist)
		if len(fails) > 0 {
			failing++
			for _, f := range fails {
				kinds[f.kind]++
			}
			report(w, hist, fails)
		}
		hist = nil
	}
	for in.Scan() {
		l := in.Text()
		if l == "" || strings.HasPrefix(l, "#") {
			continue
		}
		if l == "reset" {
			flush()
		}
		hist = append(hist, l)
	}
	flush()
	j.impl.Reset()
	summary(w, j, hists, failing, kinds)
}
