package main

import (
	"bytes"
	"fmt"
	"go/ast"
	"go/parser"
	"go/printer"
	"go/token"
	"os"
	"path/filepath"
	"sort"
	"strings"
)

// facts prints, as Lean source, the synchronisation skeleton of every method of DataScope,
// DataChildScope and DataLocker: the source-ordered list of mutex calls, accesses to the data map,
// calls of parent.Value, the unlock callback handed to newDataLocker, and returns.  The Lean side
// (Goat/Tie/C13) compares it with what the model assumes, by `decide`.

var factMethods = []struct{ recv, name string }{
	{"DataScope", "SetValue"}, {"DataScope", "Value"}, {"DataScope", "Keys"}, {"DataScope", "LockData"},
	{"DataChildScope", "SetValue"}, {"DataChildScope", "Value"}, {"DataChildScope", "Keys"}, {"DataChildScope", "LockData"},
	{"DataLocker", "SetValue"}, {"DataLocker", "Value"}, {"DataLocker", "Keys"}, {"DataLocker", "LockData"}, {"DataLocker", "Commit"},
}

func src(fset *token.FileSet, n ast.Node) string {
	var b bytes.Buffer
	printer.Fprint(&b, fset, n)
	return b.String()
}

// isDataMap: expression `<recv>.data` or `<recv>.Data`
func isDataMap(e ast.Expr, recv string) bool {
	sel, ok := e.(*ast.SelectorExpr)
	if !ok {
		return false
	}
	id, ok := sel.X.(*ast.Ident)
	return ok && id.Name == recv && (sel.Sel.Name == "data" || sel.Sel.Name == "Data")
}

type extractor struct {
	fset *token.FileSet
	recv string
	toks []string
}

func (x *extractor) add(t string) { x.toks = append(x.toks, t) }

// muCall recognises <recv>.mu.<Op>() and returns Op.
func (x *extractor) muCall(c *ast.CallExpr) string {
	sel, ok := c.Fun.(*ast.SelectorExpr)
	if !ok {
		return ""
	}
	inner, ok := sel.X.(*ast.SelectorExpr)
	if !ok || inner.Sel.Name != "mu" {
		return ""
	}
	if id, ok := inner.X.(*ast.Ident); !ok || id.Name != x.recv {
		return ""
	}
	return sel.Sel.Name
}

func (x *extractor) expr(e ast.Expr) {
	if e == nil {
		return
	}
	ast.Inspect(e, func(n ast.Node) bool {
		switch v := n.(type) {
		case *ast.CallExpr:
			if op := x.muCall(v); op != "" {
				x.add(strings.ToLower(op))
				return false
			}
			if id, ok := v.Fun.(*ast.Ident); ok && id.Name == "newDataLocker" {
				// which map, which unlock callback, which parent
				args := make([]string, len(v.Args))
				for i, a := range v.Args {
					args[i] = strings.ReplaceAll(src(x.fset, a), x.recv+".", "")
				}
				switch strings.Join(args, ",") {
				case "Data,mu.Unlock,nil":
					x.add("newLockerRoot")
				case "data,mu.Unlock,parent":
					x.add("newLockerChild")
				default:
					x.add("other")
				}
				return false
			}
			if id, ok := v.Fun.(*ast.Ident); ok && id.Name == "len" && len(v.Args) == 1 && isDataMap(v.Args[0], x.recv) {
				x.add("len")
				return false
			}
			if sel, ok := v.Fun.(*ast.SelectorExpr); ok {
				s := strings.ReplaceAll(src(x.fset, sel), x.recv+".", "")
				switch s {
				case "parent.Value":
					x.add("parentValue")
					return false
				case "unlockCB":
					x.add("unlockCB")
					return false
				}
			}
		case *ast.IndexExpr:
			if isDataMap(v.X, x.recv) {
				x.add("read")
				return false
			}
		}
		return true
	})
}

func (x *extractor) stmts(list []ast.Stmt) {
	for _, s := range list {
		x.stmt(s)
	}
}

func (x *extractor) stmt(s ast.Stmt) {
	switch v := s.(type) {
	case *ast.ExprStmt:
		x.expr(v.X)
	case *ast.DeferStmt:
		if op := x.muCall(v.Call); op != "" {
			x.add("defer" + op)
		} else {
			x.add("other")
		}
	case *ast.AssignStmt:
		for _, r := range v.Rhs {
			x.expr(r)
		}
		for _, l := range v.Lhs {
			if ix, ok := l.(*ast.IndexExpr); ok && isDataMap(ix.X, x.recv) {
				x.add("write")
			} else if isDataMap(l, x.recv) {
				if len(v.Rhs) == 1 && src(x.fset, v.Rhs[0]) == "nil" {
					x.add("dataNil")
				} else {
					x.add("other")
				}
			}
		}
	case *ast.ReturnStmt:
		for _, r := range v.Results {
			x.expr(r)
		}
		x.add("ret")
	case *ast.IfStmt:
		if v.Init != nil {
			x.stmt(v.Init)
		}
		x.expr(v.Cond)
		x.add("if")
		x.stmts(v.Body.List)
		x.add("fi")
		if v.Else != nil {
			x.add("else")
			x.stmt(v.Else)
			x.add("fi")
		}
	case *ast.BlockStmt:
		x.stmts(v.List)
	case *ast.RangeStmt:
		if isDataMap(v.X, x.recv) {
			x.add("range")
		} else {
			x.expr(v.X)
		}
		x.stmts(v.Body.List)
	case *ast.ForStmt:
		x.add("other")
	case *ast.GoStmt:
		x.add("other")
	case *ast.DeclStmt, *ast.IncDecStmt, *ast.EmptyStmt:
	default:
		x.add("other")
	}
}

var leanTok = map[string]string{
	"lock": ".lock", "unlock": ".unlock", "rlock": ".rlock", "runlock": ".runlock",
	"deferRUnlock": ".deferRUnlock", "deferUnlock": ".deferUnlock",
	"read": ".read", "write": ".write", "range": ".range", "len": ".len",
	"parentValue": ".parentValue", "unlockCB": ".unlockCB", "dataNil": ".dataNil",
	"newLockerRoot": ".newLockerRoot", "newLockerChild": ".newLockerChild",
	"ret": ".ret", "if": ".if_", "fi": ".fi", "else": ".else_", "other": ".other",
}

func facts(repo string) {
	dir := filepath.Join(repo, "app", "scope", "datascope")
	fset := token.NewFileSet()
	found := map[string][]string{}
	for _, fn := range []string{"data.go", "child.go", "locker.go"} {
		f, err := parser.ParseFile(fset, filepath.Join(dir, fn), nil, 0)
		if err != nil {
			fmt.Fprintln(os.Stderr, "facts:", err)
			os.Exit(3)
		}
		for _, d := range f.Decls {
			fd, ok := d.(*ast.FuncDecl)
			if !ok || fd.Recv == nil || len(fd.Recv.List) != 1 || fd.Body == nil {
				continue
			}
			rt := fd.Recv.List[0].Type
			if st, ok := rt.(*ast.StarExpr); ok {
				rt = st.X
			}
			id, ok := rt.(*ast.Ident)
			if !ok || len(fd.Recv.List[0].Names) != 1 {
				continue
			}
			x := &extractor{fset: fset, recv: fd.Recv.List[0].Names[0].Name}
			x.stmts(fd.Body.List)
			found[id.Name+"."+fd.Name.Name] = x.toks
		}
	}
	fmt.Println("/- GENERATED by `datascope facts` from " + "app/scope/datascope/{data,child,locker}.go and from every function of the repository that mentions LockData — do not edit. -/")
	fmt.Println("import Goat.Tie.C13.Tok")
	fmt.Println("namespace Goat.Tie.C13.Extracted")
	fmt.Println("open Goat.Tie.C13")
	for _, m := range factMethods {
		toks, ok := found[m.recv+"."+m.name]
		var lt []string
		if !ok {
			lt = []string{".missing"}
		}
		for _, t := range toks {
			if l, ok := leanTok[t]; ok {
				lt = append(lt, l)
			} else {
				lt = append(lt, ".other")
			}
		}
		fmt.Printf("def %s_%s : List Tok := [%s]\n", m.recv, m.name, strings.Join(lt, ", "))
	}
	idiomFacts(repo, false)
	fmt.Println("end Goat.Tie.C13.Extracted")
}

// ---------------------------------------------------------------------------------------------
// The get-or-create idiom in the services (Goat/Tie/C13: ITok, Expected.getOrCreate…, tie_*_get_or_create).
//
// Every function of the repository under test — outside package datascope, outside _test.go — that mentions
// `LockData` is a user of the idiom.  Its body is flattened, in source order, to the events of ITok: what
// happens to the locker `l := X.LockData()` (Value / SetValue / Keys / Commit / defer Commit), direct calls
// of the scope's own data methods (X.Value / X.SetValue / X.Keys: outside the locked section), the nil test
// of the value read, the creation and type assertion of the instance, and every return with its operands.
// Statements that involve none of these leave no trace; keys and variables are numbered by first appearance.

type idiomUser struct{ dir, recv, name, lean string }

// the users the Lean side has a theorem for (tie_<lean>_get_or_create); anything else found is listed in
// `idiomUsers` (tie_idiom_users fails) and emitted as user_<n>
var knownUsers = []idiomUser{
	{"app/modules/pipelinem/pipservices/tasks", "Unit", "FromScope", "tasks_Unit_FromScope"},
	{"app/modules/commonm/commservices/envs", "Unit", "Envs", "envs_Unit_Envs"},
	{"app/modules/commonm/commservices/waits", "WaitManager", "ForScope", "waits_WaitManager_ForScope"},
}

type itok struct {
	kind string // lock deferCommit commit value setValue keys ifNil ifNotNil ifOther else fi create assert ret unlockedValue unlockedSetValue unlockedKeys lockerEscapes other missing
	key  string // source text of the key expression
	a, b string // variable names
	ops  []itok // operands of ret: kinds var assertOf nil commit other
}

type pkgFiles struct {
	fset  *token.FileSet
	files map[string]*ast.File // by path relative to the repo
}

type idiomX struct {
	fset    *token.FileSet
	pkg     *pkgFiles
	scope   string          // source text of X
	locker  string          // name of l ("" when the function takes no locker)
	lockPos token.Pos       // position of the primary X.LockData() call
	tracked map[string]bool // variables that take part in read → test → create → store → return
	results []string        // the named results
	toks    []itok
}

func (x *idiomX) add(t itok) { x.toks = append(x.toks, t) }

func recvName(fd *ast.FuncDecl) string {
	if fd.Recv == nil || len(fd.Recv.List) != 1 {
		return ""
	}
	t := fd.Recv.List[0].Type
	if st, ok := t.(*ast.StarExpr); ok {
		t = st.X
	}
	if ix, ok := t.(*ast.IndexExpr); ok {
		t = ix.X
	}
	if id, ok := t.(*ast.Ident); ok {
		return id.Name
	}
	return "?"
}

func funcKey(dir string, fd *ast.FuncDecl) string {
	if r := recvName(fd); r != "" {
		return dir + "." + r + "." + fd.Name.Name
	}
	return dir + "." + fd.Name.Name
}

func mentionsLockData(n ast.Node) bool {
	found := false
	ast.Inspect(n, func(m ast.Node) bool {
		if sel, ok := m.(*ast.SelectorExpr); ok && sel.Sel.Name == "LockData" {
			found = true
		}
		return !found
	})
	return found
}

// lockDataCall: e is `<X>.LockData()`; returns X
func lockDataCall(e ast.Expr) (ast.Expr, bool) {
	c, ok := e.(*ast.CallExpr)
	if !ok || len(c.Args) != 0 {
		return nil, false
	}
	sel, ok := c.Fun.(*ast.SelectorExpr)
	if !ok || sel.Sel.Name != "LockData" {
		return nil, false
	}
	return sel.X, true
}

func unparen(e ast.Expr) ast.Expr {
	for {
		p, ok := e.(*ast.ParenExpr)
		if !ok {
			return e
		}
		e = p.X
	}
}

func identName(e ast.Expr) string {
	if id, ok := unparen(e).(*ast.Ident); ok {
		return id.Name
	}
	return ""
}

// assertOf: e is `<ident>.(T)`; returns the ident's name
func assertOf(e ast.Expr) string {
	if ta, ok := unparen(e).(*ast.TypeAssertExpr); ok && ta.Type != nil {
		return identName(ta.X)
	}
	return ""
}

// pairs of a (possibly parallel) assignment / var spec; ok=false when the counts differ
func pairs(lhs, rhs []ast.Expr) ([][2]ast.Expr, bool) {
	if len(lhs) != len(rhs) {
		return nil, false
	}
	out := make([][2]ast.Expr, len(lhs))
	for i := range lhs {
		out[i] = [2]ast.Expr{lhs[i], rhs[i]}
	}
	return out, true
}

// prepare finds X, l and the tracked variables
func (x *idiomX) prepare(fd *ast.FuncDecl) {
	x.tracked = map[string]bool{}
	note := func(lhs, rhs []ast.Expr) {
		ps, ok := pairs(lhs, rhs)
		if !ok {
			return
		}
		for _, p := range ps {
			if sx, ok := lockDataCall(p[1]); ok && x.locker == "" && identName(p[0]) != "" {
				x.locker, x.scope, x.lockPos = identName(p[0]), src(x.fset, sx), p[1].Pos()
			}
		}
	}
	ast.Inspect(fd.Body, func(n ast.Node) bool {
		switch v := n.(type) {
		case *ast.AssignStmt:
			note(v.Lhs, v.Rhs)
		case *ast.ValueSpec:
			ids := make([]ast.Expr, len(v.Names))
			for i, id := range v.Names {
				ids[i] = id
			}
			note(ids, v.Values)
		}
		return true
	})
	if x.scope == "" && fd.Type.Params != nil {
		for _, f := range fd.Type.Params.List {
			if t := src(x.fset, f.Type); (t == "app.Scope" || t == "app.DataScope") && len(f.Names) > 0 {
				x.scope = f.Names[0].Name
				break
			}
		}
	}
	if fd.Type.Results != nil {
		for _, f := range fd.Type.Results.List {
			for _, id := range f.Names {
				x.tracked[id.Name] = true
				x.results = append(x.results, id.Name)
			}
		}
	}
	// variables read from the scope / the locker, stored through the locker, returned
	mark := func(lhs, rhs []ast.Expr) {
		if ps, ok := pairs(lhs, rhs); ok {
			for _, p := range ps {
				if c, ok := unparen(p[1]).(*ast.CallExpr); ok {
					if recv, m := x.dataCall(c); recv != "" && m == "Value" && identName(p[0]) != "" {
						x.tracked[identName(p[0])] = true
					}
				}
			}
		}
	}
	ast.Inspect(fd.Body, func(n ast.Node) bool {
		switch v := n.(type) {
		case *ast.AssignStmt:
			mark(v.Lhs, v.Rhs)
		case *ast.ValueSpec:
			ids := make([]ast.Expr, len(v.Names))
			for i, id := range v.Names {
				ids[i] = id
			}
			mark(ids, v.Values)
		case *ast.CallExpr:
			if recv, m := x.dataCall(v); recv != "" && m == "SetValue" && len(v.Args) == 2 && identName(v.Args[1]) != "" {
				x.tracked[identName(v.Args[1])] = true
			}
		case *ast.ReturnStmt:
			for _, r := range v.Results {
				if n := identName(r); n != "" && n != "nil" {
					x.tracked[n] = true
				} else if n := assertOf(r); n != "" {
					x.tracked[n] = true
				}
			}
		}
		return true
	})
	// y = x.(T) joins y and x
	for changed := true; changed; {
		changed = false
		ast.Inspect(fd.Body, func(n ast.Node) bool {
			if v, ok := n.(*ast.AssignStmt); ok && len(v.Rhs) == 1 && len(v.Lhs) >= 1 {
				from, to := assertOf(v.Rhs[0]), identName(v.Lhs[0])
				if from != "" && to != "" && (x.tracked[from] != x.tracked[to]) {
					x.tracked[from], x.tracked[to] = true, true
					changed = true
				}
			}
			return true
		})
	}
	delete(x.tracked, "_")
}

// dataCall: c is `<l>.<M>(…)` ("l") or `<X>.<M>(…)` ("X") for a method M of the data scope interface
func (x *idiomX) dataCall(c *ast.CallExpr) (recv, method string) {
	sel, ok := c.Fun.(*ast.SelectorExpr)
	if !ok {
		return "", ""
	}
	switch sel.Sel.Name {
	case "Value", "SetValue", "Keys", "Commit", "LockData":
	default:
		if x.locker != "" && identName(sel.X) == x.locker {
			return "l", sel.Sel.Name
		}
		return "", ""
	}
	if x.locker != "" && identName(sel.X) == x.locker {
		return "l", sel.Sel.Name
	}
	if x.scope != "" && src(x.fset, sel.X) == x.scope && sel.Sel.Name != "Commit" {
		return "X", sel.Sel.Name
	}
	return "", ""
}

// call emits the event of one call on l or X (dst: the variable the result is assigned to); false = not such a call
func (x *idiomX) call(c *ast.CallExpr, dst string) bool {
	recv, m := x.dataCall(c)
	if recv == "" {
		return false
	}
	key := ""
	if len(c.Args) > 0 {
		key = src(x.fset, c.Args[0])
	}
	for i, a := range c.Args { // events inside the arguments come first (evaluation order)
		if !(m == "SetValue" && i == 1 && identName(a) != "") {
			x.expr(a)
		}
	}
	switch recv + "." + m {
	case "l.Value":
		x.add(itok{kind: "value", key: key, a: dst})
	case "l.SetValue":
		v := "?"
		if len(c.Args) == 2 {
			if v = identName(c.Args[1]); v == "" {
				v = "expr " + src(x.fset, c.Args[1])
			}
		}
		x.add(itok{kind: "setValue", key: key, a: v})
	case "l.Keys":
		x.add(itok{kind: "keys"})
	case "l.Commit":
		x.add(itok{kind: "commit"})
	case "X.Value":
		x.add(itok{kind: "unlockedValue", key: key, a: dst})
	case "X.SetValue":
		x.add(itok{kind: "unlockedSetValue", key: key})
	case "X.Keys":
		x.add(itok{kind: "unlockedKeys"})
	case "X.LockData":
		if c.Pos() == x.lockPos {
			x.add(itok{kind: "lock"})
		} else {
			x.add(itok{kind: "other"}) // a second section, or a locker that is not kept in a variable
		}
	default: // l.LockData (nested locker), any other method of l
		x.add(itok{kind: "other"})
	}
	return true
}

// expr emits the events hidden inside an expression
func (x *idiomX) expr(e ast.Node) {
	if e == nil {
		return
	}
	ast.Inspect(e, func(n ast.Node) bool {
		switch v := n.(type) {
		case *ast.CallExpr:
			if x.call(v, "_") {
				return false
			}
		case *ast.FuncLit:
			x.add(itok{kind: "other"})
		case *ast.SelectorExpr:
			if v.Sel.Name == "LockData" { // not called here: a method value, or LockData on another scope
				x.add(itok{kind: "lockerEscapes"})
				return false
			}
		case *ast.Ident:
			if x.locker != "" && v.Name == x.locker {
				x.add(itok{kind: "lockerEscapes"})
			}
		}
		return true
	})
}

// scopeIsOnlyStored: the callee (a function of the same package, called by its plain name) does not call any
// method on the parameter that receives X — it can only keep the handle, not read the scope under our lock
func (x *idiomX) scopeIsOnlyStored(c *ast.CallExpr) bool {
	pos := -1
	for i, a := range c.Args {
		if src(x.fset, a) == x.scope {
			pos = i
		}
	}
	if pos < 0 || x.scope == "" {
		return true
	}
	id, ok := c.Fun.(*ast.Ident)
	if !ok || x.pkg == nil {
		return false
	}
	for _, f := range x.pkg.files {
		for _, d := range f.Decls {
			fd, ok := d.(*ast.FuncDecl)
			if !ok || fd.Recv != nil || fd.Name.Name != id.Name || fd.Body == nil {
				continue
			}
			var params []string
			for _, fl := range fd.Type.Params.List {
				for _, n := range fl.Names {
					params = append(params, n.Name)
				}
			}
			if pos >= len(params) {
				return false
			}
			clean := true
			ast.Inspect(fd.Body, func(n ast.Node) bool {
				if sel, ok := n.(*ast.SelectorExpr); ok && identName(sel.X) == params[pos] {
					clean = false
				}
				return clean
			})
			return clean
		}
	}
	return false
}

func (x *idiomX) assign(lhs, rhs []ast.Expr) {
	ps, ok := pairs(lhs, rhs)
	if !ok { // a, b := f()   /   v, ok := x.(T)
		for _, r := range rhs {
			if from := assertOf(r); from != "" && x.tracked[from] && len(lhs) > 0 && identName(lhs[0]) != "" {
				x.add(itok{kind: "assert", a: identName(lhs[0]), b: from})
				return
			}
			x.expr(r)
		}
		for _, l := range lhs {
			if n := identName(l); n != "" && x.tracked[n] {
				x.add(itok{kind: "create", a: n})
			} else if n == "" {
				x.expr(l)
			}
		}
		return
	}
	for _, p := range ps {
		l, r := identName(p[0]), unparen(p[1])
		if l == "" {
			x.expr(p[0])
		}
		dst := l
		if dst == "" {
			dst = "expr " + src(x.fset, p[0])
		}
		if c, ok := r.(*ast.CallExpr); ok && x.call(c, dst) {
			continue
		}
		if from := assertOf(r); from != "" && (x.tracked[from] || x.tracked[l]) {
			x.add(itok{kind: "assert", a: dst, b: from})
			continue
		}
		x.expr(r)
		if l == "" || !x.tracked[l] {
			continue
		}
		if n := identName(r); n != "" { // y = z / y = nil: a flow the skeleton does not describe
			x.add(itok{kind: "other"})
			continue
		}
		x.add(itok{kind: "create", a: l})
		if c, ok := r.(*ast.CallExpr); ok && !x.scopeIsOnlyStored(c) {
			x.add(itok{kind: "other"}) // the constructor may use the scope while we hold its lock
		}
	}
}

func (x *idiomX) stmts(list []ast.Stmt) {
	for _, s := range list {
		x.stmt(s)
	}
}

func (x *idiomX) nilTest(cond ast.Expr) (kind, v string) {
	b, ok := unparen(cond).(*ast.BinaryExpr)
	if !ok || (b.Op != token.EQL && b.Op != token.NEQ) {
		return "", ""
	}
	l, r := identName(b.X), identName(b.Y)
	if l == "nil" {
		l, r = r, l
	}
	if r != "nil" || l == "" || !x.tracked[l] {
		return "", ""
	}
	if b.Op == token.EQL {
		return "ifNil", l
	}
	return "ifNotNil", l
}

func (x *idiomX) stmt(s ast.Stmt) {
	switch v := s.(type) {
	case nil:
	case *ast.ExprStmt:
		if c, ok := unparen(v.X).(*ast.CallExpr); ok && x.call(c, "_") {
			return
		}
		x.expr(v.X)
	case *ast.AssignStmt:
		x.assign(v.Lhs, v.Rhs)
	case *ast.DeclStmt:
		if gd, ok := v.Decl.(*ast.GenDecl); ok {
			for _, sp := range gd.Specs {
				if vs, ok := sp.(*ast.ValueSpec); ok && len(vs.Values) > 0 {
					ids := make([]ast.Expr, len(vs.Names))
					for i, id := range vs.Names {
						ids[i] = id
					}
					x.assign(ids, vs.Values)
				}
			}
		}
	case *ast.DeferStmt:
		if recv, m := x.dataCall(v.Call); recv == "l" && m == "Commit" {
			x.add(itok{kind: "deferCommit"})
			return
		}
		if _, ok := v.Call.Fun.(*ast.FuncLit); ok {
			x.add(itok{kind: "other"})
		}
		n := len(x.toks)
		x.expr(v.Call)
		if len(x.toks) > n { // something of ours happens at function exit
			x.add(itok{kind: "other"})
		}
	case *ast.ReturnStmt:
		var ops []itok
		if len(v.Results) == 0 { // bare return: the named results
			for _, n := range x.results {
				ops = append(ops, itok{kind: "var", a: n})
			}
		}
		for _, r := range v.Results {
			r = unparen(r)
			if n := identName(r); n == "nil" {
				ops = append(ops, itok{kind: "nil"})
			} else if n != "" && x.tracked[n] {
				ops = append(ops, itok{kind: "var", a: n})
			} else if a := assertOf(r); a != "" {
				ops = append(ops, itok{kind: "assertOf", a: a})
			} else if c, ok := r.(*ast.CallExpr); ok {
				if recv, m := x.dataCall(c); recv == "l" && m == "Commit" {
					ops = append(ops, itok{kind: "commit"})
				} else {
					x.expr(r)
					ops = append(ops, itok{kind: "other"})
				}
			} else {
				x.expr(r)
				ops = append(ops, itok{kind: "other"})
			}
		}
		x.add(itok{kind: "ret", ops: ops})
	case *ast.IfStmt:
		x.stmt(v.Init)
		if k, n := x.nilTest(v.Cond); k != "" {
			x.add(itok{kind: k, a: n})
		} else {
			x.expr(v.Cond)
			x.add(itok{kind: "ifOther"})
		}
		x.stmts(v.Body.List)
		if v.Else != nil {
			x.add(itok{kind: "else"})
			x.stmt(v.Else)
		}
		x.add(itok{kind: "fi"})
	case *ast.BlockStmt:
		x.stmts(v.List)
	case *ast.IncDecStmt, *ast.EmptyStmt:
	case *ast.SendStmt:
		x.expr(v.Chan)
		x.expr(v.Value)
	case *ast.LabeledStmt:
		x.add(itok{kind: "other"})
		x.stmt(v.Stmt)
	case *ast.ForStmt:
		x.add(itok{kind: "other"})
		x.stmt(v.Init)
		x.expr(v.Cond)
		x.stmts(v.Body.List)
		x.stmt(v.Post)
	case *ast.RangeStmt:
		x.add(itok{kind: "other"})
		x.expr(v.X)
		x.stmts(v.Body.List)
	default: // switch, type switch, select, go, goto/break/continue
		x.add(itok{kind: "other"})
		x.expr(s)
	}
}

// prune drops `if <other condition> { }` blocks in which nothing of ours happens (an unrelated statement)
func prune(t []itok) []itok {
	for changed := true; changed; {
		changed = false
		for i := 0; i+1 < len(t); i++ {
			if t[i].kind != "ifOther" {
				continue
			}
			j := i + 1
			if t[j].kind == "else" {
				j++
			}
			if j < len(t) && t[j].kind == "fi" {
				t = append(t[:i:i], t[j+1:]...)
				changed = true
				break
			}
		}
	}
	return t
}

func leanITok(t []itok) string {
	keys, vars := map[string]int{}, map[string]int{}
	num := func(m map[string]int, s string) int {
		if n, ok := m[s]; ok {
			return n
		}
		m[s] = len(m)
		return m[s]
	}
	var out []string
	for _, k := range t {
		switch k.kind {
		case "lock", "deferCommit", "commit", "keys", "ifOther", "fi", "unlockedKeys", "lockerEscapes", "other", "missing":
			out = append(out, "."+k.kind)
		case "else":
			out = append(out, ".else_")
		case "value", "unlockedValue":
			out = append(out, fmt.Sprintf(".%s %d %d", k.kind, num(keys, k.key), num(vars, k.a)))
		case "setValue":
			out = append(out, fmt.Sprintf(".setValue %d %d", num(keys, k.key), num(vars, k.a)))
		case "unlockedSetValue":
			out = append(out, fmt.Sprintf(".unlockedSetValue %d", num(keys, k.key)))
		case "ifNil", "ifNotNil", "create":
			out = append(out, fmt.Sprintf(".%s %d", k.kind, num(vars, k.a)))
		case "assert":
			// the source is numbered first when both are new: `y = x.(T)` reads x
			b := num(vars, k.b)
			out = append(out, fmt.Sprintf(".assert %d %d", num(vars, k.a), b))
		case "ret":
			var ops []string
			for _, o := range k.ops {
				switch o.kind {
				case "var", "assertOf":
					ops = append(ops, fmt.Sprintf(".%s %d", o.kind, num(vars, o.a)))
				default:
					ops = append(ops, "."+o.kind)
				}
			}
			out = append(out, ".ret ["+strings.Join(ops, ", ")+"]")
		default:
			out = append(out, ".other")
		}
	}
	return "[" + strings.Join(out, ", ") + "]"
}

type foundUser struct {
	key, pos string
	toks     []itok
	keys     []string // key expressions the function reads / stores through its locker
}

func skipDir(rel string, name string) bool {
	return strings.HasPrefix(name, ".") || name == "vendor" || name == "node_modules" || name == "testdata" ||
		rel == "app/scope/datascope"
}

func parseDir(repo, rel string, cache map[string]*pkgFiles) *pkgFiles {
	if p, ok := cache[rel]; ok {
		return p
	}
	p := &pkgFiles{fset: token.NewFileSet(), files: map[string]*ast.File{}}
	ents, _ := os.ReadDir(filepath.Join(repo, rel))
	for _, e := range ents {
		n := e.Name()
		if e.IsDir() || !strings.HasSuffix(n, ".go") || strings.HasSuffix(n, "_test.go") {
			continue
		}
		f, err := parser.ParseFile(p.fset, filepath.Join(repo, rel, n), nil, 0)
		if err != nil {
			fmt.Fprintln(os.Stderr, "facts:", err)
			os.Exit(3)
		}
		p.files[filepath.ToSlash(filepath.Join(rel, n))] = f
	}
	cache[rel] = p
	return p
}

func (p *pkgFiles) sortedFiles() []string {
	var names []string
	for n := range p.files {
		names = append(names, n)
	}
	sort.Strings(names)
	return names
}

func extractUser(p *pkgFiles, dir, file string, fd *ast.FuncDecl) foundUser {
	x := &idiomX{fset: p.fset, pkg: p}
	x.prepare(fd)
	x.stmts(fd.Body.List)
	u := foundUser{key: funcKey(dir, fd), toks: prune(x.toks)}
	u.pos = fmt.Sprintf("%s:%d", file, p.fset.Position(fd.Pos()).Line)
	seen := map[string]bool{}
	for _, t := range u.toks {
		if (t.kind == "value" || t.kind == "setValue") && !seen[t.key] {
			seen[t.key] = true
			u.keys = append(u.keys, t.key)
		}
	}
	return u
}

// idiomFacts prints the idiom part of Extracted.lean (list=false) or, for the evidence file, one line per
// user with its position (list=true)
func idiomFacts(repo string, list bool) {
	cache := map[string]*pkgFiles{}
	var dirs []string
	filepath.Walk(repo, func(path string, info os.FileInfo, err error) error {
		if err != nil {
			return nil
		}
		rel, _ := filepath.Rel(repo, path)
		rel = filepath.ToSlash(rel)
		if info.IsDir() {
			if rel != "." && skipDir(rel, info.Name()) {
				return filepath.SkipDir
			}
			return nil
		}
		if !strings.HasSuffix(path, ".go") || strings.HasSuffix(path, "_test.go") {
			return nil
		}
		if b, err := os.ReadFile(path); err == nil && bytes.Contains(b, []byte("LockData")) {
			if d := filepath.ToSlash(filepath.Dir(rel)); !contains(dirs, d) {
				dirs = append(dirs, d)
			}
		}
		return nil
	})
	users := map[string]foundUser{}
	var order []string
	for _, d := range dirs {
		p := parseDir(repo, d, cache)
		for _, fn := range p.sortedFiles() {
			f := p.files[fn]
			for _, decl := range f.Decls {
				fd, ok := decl.(*ast.FuncDecl)
				if !ok {
					if mentionsLockData(decl) {
						// a call at package level (or inside a package-level closure); interface declarations
						// only name the method and are no SelectorExpr
						k := d + ".(package level " + filepath.Base(fn) + ")"
						users[k] = foundUser{key: k, pos: fn, toks: []itok{{kind: "other"}}}
						order = append(order, k)
					}
					continue
				}
				if fd.Body == nil || !(mentionsLockData(fd.Body) || fd.Name.Name == "LockData") {
					continue
				}
				u := extractUser(p, d, fn, fd)
				users[u.key] = u
				order = append(order, u.key)
			}
		}
	}
	sort.Strings(order)
	// the functions the theorems name are extracted even when they no longer take a locker
	known := map[string]bool{}
	for _, k := range knownUsers {
		key := k.dir + "." + k.recv + "." + k.name
		known[key] = true
		if _, ok := users[key]; ok {
			continue
		}
		p := parseDir(repo, k.dir, cache)
		u := foundUser{key: key, pos: k.dir, toks: []itok{{kind: "missing"}}}
		for _, fn := range p.sortedFiles() {
			for _, decl := range p.files[fn].Decls {
				if fd, ok := decl.(*ast.FuncDecl); ok && fd.Body != nil && funcKey(k.dir, fd) == key {
					u = extractUser(p, k.dir, fn, fd)
				}
			}
		}
		users[key] = u
	}
	// plain writers of the services' keys: <anything but the function's own locker>.SetValue(<key>, …) in the
	// package of a known user
	var writers []string
	for _, k := range knownUsers {
		u := users[k.dir+"."+k.recv+"."+k.name]
		if len(u.keys) == 0 {
			continue
		}
		p := parseDir(repo, k.dir, cache)
		for _, fn := range p.sortedFiles() {
			for _, decl := range p.files[fn].Decls {
				fd, ok := decl.(*ast.FuncDecl)
				if !ok || fd.Body == nil {
					continue
				}
				x := &idiomX{fset: p.fset, pkg: p}
				x.prepare(fd)
				hit := false
				ast.Inspect(fd.Body, func(n ast.Node) bool {
					c, ok := n.(*ast.CallExpr)
					if !ok || len(c.Args) != 2 {
						return true
					}
					sel, ok := c.Fun.(*ast.SelectorExpr)
					if !ok || sel.Sel.Name != "SetValue" || (x.locker != "" && identName(sel.X) == x.locker) {
						return true
					}
					for _, key := range u.keys {
						if src(p.fset, c.Args[0]) == key {
							hit = true
						}
					}
					return true
				})
				if hit {
					writers = append(writers, funcKey(k.dir, fd))
				}
			}
		}
	}
	sort.Strings(writers)
	if list {
		for _, k := range order {
			fmt.Printf("user %s %s %s\n", k, users[k].pos, leanITok(users[k].toks))
		}
		for _, k := range knownUsers {
			key := k.dir + "." + k.recv + "." + k.name
			if u := users[key]; !contains(order, key) {
				fmt.Printf("not-a-user %s %s %s\n", key, u.pos, leanITok(u.toks))
			}
		}
		for _, w := range writers {
			fmt.Printf("plain-writer %s\n", w)
		}
		return
	}
	fmt.Println("/- the get-or-create idiom: every function outside package datascope that mentions LockData -/")
	for _, k := range knownUsers {
		fmt.Printf("def %s : List ITok := %s\n", k.lean, leanITok(users[k.dir+"."+k.recv+"."+k.name].toks))
	}
	n := 0
	for _, k := range order {
		if !known[k] {
			fmt.Printf("/-- %s -/\ndef user_%d : List ITok := %s\n", strings.ReplaceAll(k, "-/", "- /"), n, leanITok(users[k].toks))
			n++
		}
	}
	fmt.Printf("def idiomUsers : List String := [%s]\n", quoteList(order))
	fmt.Printf("def keyPlainWriters : List String := [%s]\n", quoteList(writers))
}

func contains(l []string, s string) bool {
	for _, x := range l {
		if x == s {
			return true
		}
	}
	return false
}

func quoteList(l []string) string {
	q := make([]string, len(l))
	for i, s := range l {
		q[i] = fmt.Sprintf("%q", s)
	}
	return strings.Join(q, ", ")
}
