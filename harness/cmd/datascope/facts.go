package main

import (
	"bytes"
	"fmt"
	"go/ast"
	"go/parser"
	"go/printer"
	"go/token"
	"os"
	"path/filepath"
	"strings"
)

// facts prints, as Lean source, the synchronisation skeleton of every method of DataScope,
// DataChildScope and DataLocker: the source-ordered list of mutex calls, accesses to the data map,
// calls of parent.Value, the unlock callback handed to newDataLocker, and returns.  The Lean side
// (Goat/Tie/C13) compares it with what the model assumes, by `decide`.

var factMethods = []struct{ recv, name string }{
	{"DataScope", "SetValue"}, {"DataScope", "Value"}, {"DataScope", "Keys"}, {"DataScope", "LockData"},
	{"DataChildScope", "SetValue"}, {"DataChildScope", "Value"}, {"DataChildScope", "Keys"}, {"DataChildScope", "LockData"},
	{"DataLocker", "SetValue"}, {"DataLocker", "Value"}, {"DataLocker", "Keys"}, {"DataLocker", "LockData"}, {"DataLocker", "Commit"},
}

func src(fset *token.FileSet, n ast.Node) string {
	var b bytes.Buffer
	printer.Fprint(&b, fset, n)
	return b.String()
}

// isDataMap: expression `<recv>.data` or `<recv>.Data`
func isDataMap(e ast.Expr, recv string) bool {
	sel, ok := e.(*ast.SelectorExpr)
	if !ok {
		return false
	}
	id, ok := sel.X.(*ast.Ident)
	return ok && id.Name == recv && (sel.Sel.Name == "data" || sel.Sel.Name == "Data")
}

type extractor struct {
	fset *token.FileSet
	recv string
	toks []string
}

func (x *extractor) add(t string) { x.toks = append(x.toks, t) }

// muCall recognises <recv>.mu.<Op>() and returns Op.
func (x *extractor) muCall(c *ast.CallExpr) string {
	sel, ok := c.Fun.(*ast.SelectorExpr)
	if !ok {
		return ""
	}
	inner, ok := sel.X.(*ast.SelectorExpr)
	if !ok || inner.Sel.Name != "mu" {
		return ""
	}
	if id, ok := inner.X.(*ast.Ident); !ok || id.Name != x.recv {
		return ""
	}
	return sel.Sel.Name
}

func (x *extractor) expr(e ast.Expr) {
	if e == nil {
		return
	}
	ast.Inspect(e, func(n ast.Node) bool {
		switch v := n.(type) {
		case *ast.CallExpr:
			if op := x.muCall(v); op != "" {
				x.add(strings.ToLower(op))
				return false
			}
			if id, ok := v.Fun.(*ast.Ident); ok && id.Name == "newDataLocker" {
				// which map, which unlock callback, which parent
				args := make([]string, len(v.Args))
				for i, a := range v.Args {
					args[i] = strings.ReplaceAll(src(x.fset, a), x.recv+".", "")
				}
				switch strings.Join(args, ",") {
				case "Data,mu.Unlock,nil":
					x.add("newLockerRoot")
				case "data,mu.Unlock,parent":
					x.add("newLockerChild")
				default:
					x.add("other")
				}
				return false
			}
			if id, ok := v.Fun.(*ast.Ident); ok && id.Name == "len" && len(v.Args) == 1 && isDataMap(v.Args[0], x.recv) {
				x.add("len")
				return false
			}
			if sel, ok := v.Fun.(*ast.SelectorExpr); ok {
				s := strings.ReplaceAll(src(x.fset, sel), x.recv+".", "")
				switch s {
				case "parent.Value":
					x.add("parentValue")
					return false
				case "unlockCB":
					x.add("unlockCB")
					return false
				}
			}
		case *ast.IndexExpr:
			if isDataMap(v.X, x.recv) {
				x.add("read")
				return false
			}
		}
		return true
	})
}

func (x *extractor) stmts(list []ast.Stmt) {
	for _, s := range list {
		x.stmt(s)
	}
}

func (x *extractor) stmt(s ast.Stmt) {
	switch v := s.(type) {
	case *ast.ExprStmt:
		x.expr(v.X)
	case *ast.DeferStmt:
		if op := x.muCall(v.Call); op != "" {
			x.add("defer" + op)
		} else {
			x.add("other")
		}
	case *ast.AssignStmt:
		for _, r := range v.Rhs {
			x.expr(r)
		}
		for _, l := range v.Lhs {
			if ix, ok := l.(*ast.IndexExpr); ok && isDataMap(ix.X, x.recv) {
				x.add("write")
			} else if isDataMap(l, x.recv) {
				if len(v.Rhs) == 1 && src(x.fset, v.Rhs[0]) == "nil" {
					x.add("dataNil")
				} else {
					x.add("other")
				}
			}
		}
	case *ast.ReturnStmt:
		for _, r := range v.Results {
			x.expr(r)
		}
		x.add("ret")
	case *ast.IfStmt:
		if v.Init != nil {
			x.stmt(v.Init)
		}
		x.expr(v.Cond)
		x.add("if")
		x.stmts(v.Body.List)
		x.add("fi")
		if v.Else != nil {
			x.add("else")
			x.stmt(v.Else)
			x.add("fi")
		}
	case *ast.BlockStmt:
		x.stmts(v.List)
	case *ast.RangeStmt:
		if isDataMap(v.X, x.recv) {
			x.add("range")
		} else {
			x.expr(v.X)
		}
		x.stmts(v.Body.List)
	case *ast.ForStmt:
		x.add("other")
	case *ast.GoStmt:
		x.add("other")
	case *ast.DeclStmt, *ast.IncDecStmt, *ast.EmptyStmt:
	default:
		x.add("other")
	}
}

var leanTok = map[string]string{
	"lock": ".lock", "unlock": ".unlock", "rlock": ".rlock", "runlock": ".runlock",
	"deferRUnlock": ".deferRUnlock", "deferUnlock": ".deferUnlock",
	"read": ".read", "write": ".write", "range": ".range", "len": ".len",
	"parentValue": ".parentValue", "unlockCB": ".unlockCB", "dataNil": ".dataNil",
	"newLockerRoot": ".newLockerRoot", "newLockerChild": ".newLockerChild",
	"ret": ".ret", "if": ".if_", "fi": ".fi", "else": ".else_", "other": ".other",
}

func facts(repo string) {
	dir := filepath.Join(repo, "app", "scope", "datascope")
	fset := token.NewFileSet()
	found := map[string][]string{}
	for _, fn := range []string{"data.go", "child.go", "locker.go"} {
		f, err := parser.ParseFile(fset, filepath.Join(dir, fn), nil, 0)
		if err != nil {
			fmt.Fprintln(os.Stderr, "facts:", err)
			os.Exit(3)
		}
		for _, d := range f.Decls {
			fd, ok := d.(*ast.FuncDecl)
			if !ok || fd.Recv == nil || len(fd.Recv.List) != 1 || fd.Body == nil {
				continue
			}
			rt := fd.Recv.List[0].Type
			if st, ok := rt.(*ast.StarExpr); ok {
				rt = st.X
			}
			id, ok := rt.(*ast.Ident)
			if !ok || len(fd.Recv.List[0].Names) != 1 {
				continue
			}
			x := &extractor{fset: fset, recv: fd.Recv.List[0].Names[0].Name}
			x.stmts(fd.Body.List)
			found[id.Name+"."+fd.Name.Name] = x.toks
		}
	}
	fmt.Println("/- GENERATED by `datascope facts` from " + "app/scope/datascope/{data,child,locker}.go — do not edit. -/")
	fmt.Println("import Goat.Tie.C13.Tok")
	fmt.Println("namespace Goat.Tie.C13.Extracted")
	fmt.Println("open Goat.Tie.C13")
	for _, m := range factMethods {
		toks, ok := found[m.recv+"."+m.name]
		var lt []string
		if !ok {
			lt = []string{".missing"}
		}
		for _, t := range toks {
			if l, ok := leanTok[t]; ok {
				lt = append(lt, l)
			} else {
				lt = append(lt, ".other")
			}
		}
		fmt.Printf("def %s_%s : List Tok := [%s]\n", m.recv, m.name, strings.Join(lt, ", "))
	}
	fmt.Println("end Goat.Tie.C13.Extracted")
}
