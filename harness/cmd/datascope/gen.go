package main

import (
	"bufio"
	"fmt"
	"os"

	"gcverif/internal/hx"
)

// The generator keeps only a rough picture of the state (scope tree, which handles it has bound,
// which scopes it believes locked) to steer the mix; it never decides a result — what blocks, what is
// skipped and every value is decided by the Lean model, the hints for the Go side are derived from
// the model's output by the check script.

type gLocker struct {
	handle int
	scope  int // -1 for a nested locker
	outer  int // handle of the outer locker for a nested one, else -1
	open   bool
}

type gState struct {
	r       *hx.Rand
	w       *bufio.Writer
	parent  []int
	depth   []int
	held    []bool
	lockers []*gLocker
	nextH   int
	ops     int
	pending bool // an op that probably blocked was emitted since the last commit
}

var keyPool = []int{1, 2, 3}

func (g *gState) emit(format string, a ...interface{}) {
	fmt.Fprintf(g.w, format+"\n", a...)
	g.ops++
}

func (g *gState) val() string {
	if g.r.Chance(3, 20) {
		return "nil"
	}
	return fmt.Sprint(g.r.Intn(10))
}

func (g *gState) key() int {
	if g.r.Chance(1, 12) {
		return 4 + g.r.Intn(3)
	}
	return keyPool[g.r.Intn(len(keyPool))]
}

func (g *gState) addScope(parent int) {
	if parent < 0 {
		g.emit("root")
		g.parent = append(g.parent, -1)
		g.depth = append(g.depth, 0)
	} else {
		g.emit("child %d", parent)
		g.parent = append(g.parent, parent)
		g.depth = append(g.depth, g.depth[parent]+1)
	}
	g.held = append(g.held, false)
}

// scope picks a scope: biased towards deep ones (long fall-back chains) and, when wantHeld is set,
// towards scopes that are (or whose ancestors are) believed locked.
func (g *gState) scope(wantHeld bool) int {
	n := len(g.parent)
	if wantHeld {
		var c []int
		for i := 0; i < n; i++ {
			for j := i; j >= 0; j = g.parent[j] {
				if g.held[j] {
					c = append(c, i)
					break
				}
			}
		}
		if len(c) > 0 {
			return c[g.r.Intn(len(c))]
		}
	}
	a, b := g.r.Intn(n), g.r.Intn(n)
	if g.depth[b] > g.depth[a] {
		a = b
	}
	return a
}

// under reports whether scope s or one of its ancestors is believed locked.
func (g *gState) under(s int) bool {
	for j := s; j >= 0; j = g.parent[j] {
		if g.held[j] {
			return true
		}
	}
	return false
}

func (g *gState) openLockers() []*gLocker {
	var res []*gLocker
	for _, l := range g.lockers {
		if l.open {
			res = append(res, l)
		}
	}
	return res
}

func (g *gState) anyLocker() *gLocker {
	if len(g.lockers) == 0 {
		return nil
	}
	if open := g.openLockers(); len(open) > 0 && g.r.Chance(9, 10) {
		return open[g.r.Intn(len(open))]
	}
	return g.lockers[g.r.Intn(len(g.lockers))]
}

func (g *gState) genCase() {
	g.parent, g.depth, g.held, g.lockers, g.nextH, g.pending = nil, nil, nil, nil, 0, false
	g.emit("reset")
	// scope forest: one or two roots, children up to depth 5 (0-based depth <= 4), 2..8 scopes
	g.addScope(-1)
	n := 2 + g.r.Intn(7)
	shape := g.r.Intn(3) // 0: one long chain, 1: random tree, 2: bushy
	for len(g.parent) < n {
		switch {
		case g.r.Chance(1, 10):
			g.addScope(-1)
		default:
			p := len(g.parent) - 1
			if shape == 1 {
				p = g.r.Intn(len(g.parent))
			} else if shape == 2 {
				p = g.r.Intn(1 + len(g.parent)/2)
			}
			for g.depth[p] >= 4 {
				p = g.parent[p]
			}
			g.addScope(p)
		}
	}
	// some initial values, so that shadowing exists from the start
	for i, m := 0, g.r.Intn(6); i < m; i++ {
		g.emit("set %d %d %s", g.scope(false), g.key(), g.val())
	}
	steps := 20 + g.r.Intn(41)
	for i := 0; i < steps; i++ {
		g.genOp()
	}
	// close what is still open (innermost first), then read everything back
	for i := len(g.lockers) - 1; i >= 0; i-- {
		if g.lockers[i].open && g.r.Chance(9, 10) {
			g.commit(g.lockers[i])
		}
	}
	for s := range g.parent {
		if g.r.Chance(1, 2) {
			g.emit("get %d %d", s, g.key())
		}
	}
}

func (g *gState) commit(l *gLocker) {
	g.emit("commit %d", l.handle)
	g.pending = false
	if l.open {
		l.open = false
		if l.scope >= 0 {
			g.held[l.scope] = false
		}
	}
}

func (g *gState) genOp() {
	open := g.openLockers()
	anyHeld := len(open) > 0
	x := g.r.Intn(100)
	switch {
	case x < 24:
		s := g.scope(anyHeld && g.r.Chance(1, 4))
		g.pending = g.pending || g.held[s]
		g.emit("set %d %d %s", s, g.key(), g.val())
	case x < 50:
		s := g.scope(anyHeld && g.r.Chance(1, 3))
		g.pending = g.pending || g.under(s)
		g.emit("get %d %d", s, g.key())
	case x < 56:
		s := g.scope(anyHeld && g.r.Chance(1, 4))
		g.pending = g.pending || g.held[s]
		g.emit("keys %d", s)
	case x < 66:
		// LockData on a scope; mostly on a free one, sometimes on a locked one (a blocked lock probe);
		// while probes are (believed) pending the model skips new locks, so rarely ask for one then
		s := g.scope(anyHeld && g.r.Chance(1, 5))
		if g.pending && !g.held[s] && g.r.Chance(9, 10) {
			g.emit("get %d %d", s, g.key())
			g.pending = g.pending || g.under(s)
			return
		}
		h := g.nextH
		g.nextH++
		g.emit("lock %d %d", s, h)
		if g.held[s] {
			g.pending = true
		}
		if !g.held[s] {
			g.held[s] = true
			g.lockers = append(g.lockers, &gLocker{handle: h, scope: s, outer: -1, open: true})
		}
	case x < 76:
		if l := g.anyLocker(); l != nil {
			g.emit("lset %d %d %s", l.handle, g.key(), g.val())
		} else {
			g.emit("set %d %d %s", g.scope(false), g.key(), g.val())
		}
	case x < 86:
		if l := g.anyLocker(); l != nil {
			g.emit("lget %d %d", l.handle, g.key())
		} else {
			g.emit("get %d %d", g.scope(false), g.key())
		}
	case x < 89:
		if l := g.anyLocker(); l != nil {
			g.emit("lkeys %d", l.handle)
		} else {
			g.emit("keys %d", g.scope(false))
		}
	case x < 91:
		if l := g.anyLocker(); l != nil {
			h := g.nextH
			g.nextH++
			g.emit("llock %d %d", l.handle, h)
			g.lockers = append(g.lockers, &gLocker{handle: h, scope: -1, outer: l.handle, open: true})
		}
	case x < 99:
		if len(open) > 0 {
			// usually the innermost (most recent) one, sometimes any, rarely one that is committed already
			l := open[len(open)-1]
			if g.r.Chance(1, 4) {
				l = open[g.r.Intn(len(open))]
			}
			if g.r.Chance(1, 40) {
				l = g.lockers[g.r.Intn(len(g.lockers))]
			}
			g.commit(l)
		} else {
			g.emit("get %d %d", g.scope(false), g.key())
		}
	default:
		if len(g.parent) < 10 {
			p := g.r.Intn(len(g.parent))
			if g.depth[p] < 4 {
				g.addScope(p)
			}
		} else {
			g.emit("lget %d %d", g.r.Intn(g.nextH+2), g.key()) // possibly unbound handle
		}
	}
}

func gen(cases int) {
	w := bufio.NewWriterSize(os.Stdout, 1<<16)
	defer w.Flush()
	g := &gState{r: hx.NewRand(hx.SeedFromEnv()*0x9e3779b97f4a7c15 + 13), w: w}
	for i := 0; i < cases; i++ {
		g.genCase()
	}
}
