// Command datascope is the implementation-side driver, generator, oracle and fact extractor of the
// `datascope` line protocol (property C13): it runs the real datascope.New / NewChild / LockData
// of /repo and the three services that use the get-or-create idiom.
//
//	datascope drive             ops (with model hints) on stdin -> one result line per op (format of m_datascope)
//	datascope gen <cases>       seeded generator: cases of reset + scope trees of depth <= 5 + 20..60 ops
//	datascope oracle <n>        the property's clauses evaluated on the implementation alone
//	datascope facts <repo>      go/ast synchronisation skeleton of datascope -> Lean source on stdout
package main

import (
	"bufio"
	"fmt"
	"os"
	"sort"
	"strconv"
	"strings"
	"time"

	"gcverif/internal/hx"

	"github.com/goatcms/goatcore/app"
	"github.com/goatcms/goatcore/app/scope/datascope"
)

const probeGrace = 400 * time.Microsecond // how long a probe that is expected to block is given to intrude

// mustFinish: "wait generously for what must happen" (10 s; the check shortens it only while it
// minimises an already failing case, the minimised case is confirmed with the full time again).
var mustFinish = 10 * time.Second

// after this many hangs the process stops executing ops (every further result is `abort`): a tree in
// which calls that must return do not return would otherwise cost 10 s per case
const maxHangs = 3

var hangs int

func init() {
	if v := os.Getenv("DS_MUSTFINISH_MS"); v != "" {
		if n, err := strconv.Atoi(v); err == nil && n > 0 {
			mustFinish = time.Duration(n) * time.Millisecond
		}
	}
}

func showVal(v interface{}) string {
	if v == nil {
		return "nil"
	}
	if n, ok := v.(int); ok {
		return strconv.Itoa(n)
	}
	return "?"
}

func showKeys(keys []interface{}) string {
	if len(keys) == 0 {
		return "-"
	}
	ns := make([]int, 0, len(keys))
	for _, k := range keys {
		n, ok := k.(int)
		if !ok {
			return "?"
		}
		ns = append(ns, n)
	}
	sort.Ints(ns)
	ss := make([]string, len(ns))
	for i, n := range ns {
		ss[i] = strconv.Itoa(n)
	}
	return strings.Join(ss, ",")
}

type probe struct {
	pid  int
	done chan string
}

type session struct {
	scopes  []app.DataScope
	lockers map[int]app.DataScopeLocker
	pending []*probe
	nextPid int
	aborted bool
}

func newSession() *session { return &session{lockers: map[int]app.DataScopeLocker{}} }

// startID is start that also reports the id of the goroutine it created.
func startID(f func() string) (chan string, int64) {
	ch := make(chan string, 1)
	idc := make(chan int64, 1)
	go func() {
		idc <- hx.GoID()
		var res string
		if p, _ := hx.Guard(func() { res = f() }); p {
			res = "panic"
		}
		ch <- res
	}()
	return ch, <-idc
}

// start runs f in its own goroutine; a panic is the result "panic".
func start(f func() string) chan string {
	ch := make(chan string, 1)
	go func() {
		var res string
		if p, _ := hx.Guard(func() { res = f() }); p {
			res = "panic"
		}
		ch <- res
	}()
	return ch
}

func await(ch chan string, d time.Duration) (string, bool) {
	select {
	case r := <-ch:
		return r, true
	case <-time.After(d):
		return "", false
	}
}

func parseVal(s string) (interface{}, bool) {
	if s == "nil" {
		return nil, true
	}
	n, err := strconv.Atoi(s)
	return n, err == nil
}

// action translates an op into the call on the real objects.  bind is called (on the driver
// goroutine, after the call returned) with the locker a LockData produced.
func (se *session) action(f []string, probeMode bool) (run func() string, bad string) {
	atoi := func(s string) int {
		n, err := strconv.Atoi(s)
		if err != nil {
			return -1
		}
		return n
	}
	scope := func(s string) app.DataScope {
		i := atoi(s)
		if i < 0 || i >= len(se.scopes) {
			return nil
		}
		return se.scopes[i]
	}
	locker := func(s string) app.DataScopeLocker { return se.lockers[atoi(s)] }
	lockRelease := func(d app.DataScope) func() string {
		return func() string { l := d.LockData(); l.Commit(); return "ok" }
	}
	switch {
	case f[0] == "set" && len(f) == 4:
		sc, k := scope(f[1]), atoi(f[2])
		v, ok := parseVal(f[3])
		if !ok {
			return nil, "bad-op"
		}
		if sc == nil {
			return nil, "bad"
		}
		return func() string { sc.SetValue(k, v); return "ok" }, ""
	case f[0] == "get" && len(f) == 3:
		sc, k := scope(f[1]), atoi(f[2])
		if sc == nil {
			return nil, "bad"
		}
		return func() string { return "val " + showVal(sc.Value(k)) }, ""
	case f[0] == "keys" && len(f) == 2:
		sc := scope(f[1])
		if sc == nil {
			return nil, "bad"
		}
		return func() string { return "keys " + showKeys(sc.Keys()) }, ""
	case f[0] == "lock" && len(f) == 3:
		sc, h := scope(f[1]), atoi(f[2])
		if sc == nil {
			return nil, "bad"
		}
		if probeMode {
			return lockRelease(sc), ""
		}
		return func() string { se.lockers[h] = sc.LockData(); return "ok" }, ""
	case f[0] == "lset" && len(f) == 4:
		l, k := locker(f[1]), atoi(f[2])
		v, ok := parseVal(f[3])
		if !ok {
			return nil, "bad-op"
		}
		if l == nil {
			return nil, "bad"
		}
		return func() string { l.SetValue(k, v); return "ok" }, ""
	case f[0] == "lget" && len(f) == 3:
		l, k := locker(f[1]), atoi(f[2])
		if l == nil {
			return nil, "bad"
		}
		return func() string { return "val " + showVal(l.Value(k)) }, ""
	case f[0] == "lkeys" && len(f) == 2:
		l := locker(f[1])
		if l == nil {
			return nil, "bad"
		}
		return func() string { return "keys " + showKeys(l.Keys()) }, ""
	case f[0] == "llock" && len(f) == 3:
		l, h := locker(f[1]), atoi(f[2])
		if l == nil {
			return nil, "bad"
		}
		if probeMode {
			return lockRelease(l), ""
		}
		return func() string { se.lockers[h] = l.LockData(); return "ok" }, ""
	case f[0] == "commit" && len(f) == 2:
		l := locker(f[1])
		if l == nil {
			return nil, "bad"
		}
		return func() string {
			if err := l.Commit(); err != nil {
				return "err"
			}
			return "ok"
		}, ""
	}
	return nil, "bad-op"
}

// sampleEarly reports the pending probes that have returned although nothing released their mutex.
func (se *session) sampleEarly() []string {
	var early []string
	keep := se.pending[:0]
	for _, p := range se.pending {
		select {
		case r := <-p.done:
			early = append(early, fmt.Sprintf("%d:%s", p.pid, r))
		default:
			keep = append(keep, p)
		}
	}
	se.pending = keep
	return early
}

func (se *session) exec(line string) string {
	op, hint := line, ""
	if i := strings.Index(line, " | "); i >= 0 {
		op, hint = line[:i], line[i+3:]
	}
	f := strings.Fields(op)
	if len(f) == 0 {
		return "bad-op"
	}
	if f[0] == "reset" {
		*se = *newSession()
		se.aborted = hangs >= maxHangs
		return "ok"
	}
	if se.aborted {
		return "abort"
	}
	switch f[0] {
	case "root":
		se.scopes = append(se.scopes, datascope.New(map[interface{}]interface{}{}))
		return fmt.Sprintf("id %d", len(se.scopes)-1)
	case "child":
		if len(f) != 2 {
			return "bad-op"
		}
		p, err := strconv.Atoi(f[1])
		if err != nil {
			return "bad-op"
		}
		if p < 0 || p >= len(se.scopes) {
			return "bad"
		}
		se.scopes = append(se.scopes, datascope.NewChild(se.scopes[p], map[interface{}]interface{}{}))
		return fmt.Sprintf("id %d", len(se.scopes)-1)
	}
	hf := strings.Fields(hint)
	mode := "x"
	var resumed []int
	for _, h := range hf {
		switch {
		case h == "x" || h == "b" || h == "s" || h == "f":
			mode = h
		case strings.HasPrefix(h, "r="):
			for _, s := range strings.Split(h[2:], ",") {
				if n, err := strconv.Atoi(s); err == nil {
					resumed = append(resumed, n)
				}
			}
		}
	}
	switch mode {
	case "s":
		return "skip"
	case "f":
		return "fatal" // the model says this Commit would unlock an unlocked RWMutex: not recoverable, not executed
	}
	run, bad := se.action(f, mode == "b")
	if run == nil {
		return bad
	}
	if mode == "b" {
		// expected to block until some later commit: it must not return now
		pid := se.nextPid
		se.nextPid++
		ch, gid := startID(run)
		// The model says this call parks on a scope's RWMutex.  Wait (generously) until it has either
		// returned - then the line differs from the model's `blocked` - or the runtime reports its
		// goroutine parked on a lock.  Never conclude "blocked" from elapsed time alone: on a loaded
		// machine the goroutine may not have run yet, and later ops of the history would then change
		// what it is going to see.
		deadline := time.Now().Add(mustFinish)
		for wait := probeGrace; ; wait *= 2 {
			if r, ok := await(ch, wait); ok {
				return r
			}
			if st, ok := hx.GoroutineStatus(gid); ok && hx.ParkedOnLock(st) {
				break
			}
			if time.Now().After(deadline) {
				break // neither returned nor parked: reported like a parked call, the commit decides
			}
		}
		se.pending = append(se.pending, &probe{pid: pid, done: ch})
		return fmt.Sprintf("blocked %d", pid)
	}
	var early []string
	if f[0] == "commit" && len(se.pending) > 0 {
		time.Sleep(probeGrace / 2)
		early = se.sampleEarly() // anything that got through before the lock is released is an intrusion
	}
	r, ok := await(start(run), mustFinish)
	if !ok {
		se.aborted = true
		hangs++
		return "hang"
	}
	if f[0] == "commit" {
		var items []string
		sort.Ints(resumed)
		for _, pid := range resumed {
			for i, p := range se.pending {
				if p.pid != pid {
					continue
				}
				pr, ok := await(p.done, mustFinish)
				if !ok {
					pr = "hang"
					se.aborted = true
					hangs++
				}
				items = append(items, fmt.Sprintf("%d:%s", pid, pr))
				se.pending = append(se.pending[:i], se.pending[i+1:]...)
				break
			}
		}
		if len(items) > 0 {
			r += " resumed=" + strings.Join(items, ";")
		}
		if len(early) > 0 {
			r += " early=" + strings.Join(early, ";")
		}
	}
	return r
}

func drive() {
	in := bufio.NewScanner(os.Stdin)
	in.Buffer(make([]byte, 1<<20), 1<<26)
	out := bufio.NewWriterSize(os.Stdout, 1<<16)
	defer out.Flush()
	se := newSession()
	for in.Scan() {
		line := strings.TrimRight(in.Text(), "\r\n")
		if line == "" || strings.HasPrefix(line, "#") {
			continue
		}
		fmt.Fprintln(out, se.exec(line))
		out.Flush()
	}
}

func main() {
	if len(os.Args) < 2 {
		fmt.Fprintln(os.Stderr, "usage: datascope drive|gen <cases>|oracle <n>|svcdrive|svcgen <cases>|facts <repo>|users <repo>")
		os.Exit(2)
	}
	arg := func(i, def int) int {
		if len(os.Args) > i {
			if n, err := strconv.Atoi(os.Args[i]); err == nil {
				return n
			}
		}
		return def
	}
	switch os.Args[1] {
	case "drive":
		drive()
	case "gen":
		gen(arg(2, 100))
	case "oracle":
		oracle(arg(2, 100))
	case "svcdrive": // service units on scope trees (svc.go)
		svcDrive()
	case "svcgen":
		svcGenMain(arg(2, 100))
	case "facts":
		repo := "/repo"
		if len(os.Args) > 2 {
			repo = os.Args[2]
		}
		facts(repo)
	case "users": // the users of the get-or-create idiom with their positions (for the evidence file)
		repo := "/repo"
		if len(os.Args) > 2 {
			repo = os.Args[2]
		}
		idiomFacts(repo, true)
	default:
		fmt.Fprintln(os.Stderr, "unknown subcommand", os.Args[1])
		os.Exit(2)
	}
}
