package main

import (
	"bufio"
	"fmt"
	"os"
	"runtime"
	"sort"
	"sync"
	"sync/atomic"
	"time"

	"gcverif/internal/hx"

	"github.com/goatcms/goatcore/app"
	"github.com/goatcms/goatcore/app/modules/commonm/commservices/envs"
	"github.com/goatcms/goatcore/app/modules/commonm/commservices/waits"
	"github.com/goatcms/goatcore/app/modules/pipelinem/pipservices/tasks"
	"github.com/goatcms/goatcore/app/scope"
	"github.com/goatcms/goatcore/app/scope/datascope"
)

// The oracle evaluates the clauses of C13 on the implementation alone; no model is involved.
// Expected answers are known by construction (own sets are remembered per scope in a plain map;
// the overlay clause is evaluated recursively through the real parent object).

type orc struct {
	r     *hx.Rand
	w     *bufio.Writer
	mu    sync.Mutex
	fails int
	hangs int32 // watchdog expiries; after two the remaining concurrent configurations are not started
	count map[string]int
}

func (o *orc) fail(class, format string, a ...interface{}) {
	o.mu.Lock()
	defer o.mu.Unlock()
	o.fails++
	if o.fails <= 40 {
		fmt.Fprintf(o.w, "FAIL %s %s\n", class, fmt.Sprintf(format, a...))
		o.w.Flush()
	}
}

func (o *orc) tick(class string) {
	o.mu.Lock()
	o.count[class]++
	o.mu.Unlock()
}

// guarded runs f with a watchdog; a hang or panic is a failure of the clause.
func (o *orc) guarded(class, what string, d time.Duration, f func()) bool {
	done := make(chan interface{}, 1)
	go func() {
		p, v := hx.Guard(f)
		if p {
			done <- fmt.Sprint(v)
		} else {
			done <- nil
		}
	}()
	select {
	case v := <-done:
		if v != nil {
			o.fail(class, "%s: panic %v", what, v)
			return false
		}
		return true
	case <-time.After(d):
		atomic.AddInt32(&o.hangs, 1)
		o.fail(class, "%s: no result after %v (deadlock or lost wake-up)", what, d)
		return false
	}
}

// ---------------------------------------------------------------- sequential clauses

type oScope struct {
	ds     app.DataScope
	parent *oScope
	own    map[int]interface{} // what was set on this scope itself (presence matters: a stored nil shadows)
}

func sameKeys(keys []interface{}, own map[int]interface{}) bool {
	if len(keys) != len(own) {
		return false
	}
	seen := map[int]bool{}
	for _, k := range keys {
		n, ok := k.(int)
		if !ok || seen[n] {
			return false
		}
		if _, ok := own[n]; !ok {
			return false
		}
		seen[n] = true
	}
	return true
}

type snap struct {
	vals []interface{}
	keys string
}

var oracleKeys = []int{1, 2, 3, 4}

func takeSnap(s *oScope) snap {
	var sn snap
	for _, k := range oracleKeys {
		sn.vals = append(sn.vals, s.ds.Value(k))
	}
	sn.keys = showKeys(s.ds.Keys())
	return sn
}

func (a snap) equal(b snap) bool {
	if a.keys != b.keys {
		return false
	}
	for i := range a.vals {
		if a.vals[i] != b.vals[i] {
			return false
		}
	}
	return true
}

func isAncestorOrSelf(a, s *oScope) bool {
	for x := s; x != nil; x = x.parent {
		if x == a {
			return true
		}
	}
	return false
}

func (o *orc) seqCase() {
	r := o.r
	var all []*oScope
	add := func(p *oScope) {
		s := &oScope{parent: p, own: map[int]interface{}{}}
		if p == nil {
			s.ds = datascope.New(map[interface{}]interface{}{})
		} else {
			s.ds = datascope.NewChild(p.ds, map[interface{}]interface{}{})
		}
		all = append(all, s)
	}
	depthOf := func(s *oScope) int {
		d := 0
		for x := s.parent; x != nil; x = x.parent {
			d++
		}
		return d
	}
	add(nil)
	for n := 2 + r.Intn(6); len(all) < n; {
		p := all[len(all)-1]
		if r.Chance(1, 3) {
			p = all[r.Intn(len(all))]
		}
		for depthOf(p) >= 4 {
			p = p.parent
		}
		add(p)
	}
	val := func() interface{} {
		if r.Chance(1, 6) {
			return nil
		}
		return r.Intn(10)
	}
	// the overlay clause, stated on the real objects: own entry if present, else the parent's current value
	checkGet := func(s *oScope, k int, got interface{}, via string) {
		o.tick("seq:" + via)
		var want interface{}
		if v, ok := s.own[k]; ok {
			want = v
		} else if s.parent != nil {
			want = s.parent.ds.Value(k)
		}
		if got != want {
			o.fail("overlay_get", "%s of key %d at depth %d: got %s want %s (own entry present: %v)", via, k, depthOf(s), showVal(got), showVal(want), func() bool { _, ok := s.own[k]; return ok }())
		}
	}
	// the frame clause: a write to s leaves every scope that is not s or a descendant of s unchanged
	framedSet := func(s *oScope, k int, v interface{}, write func()) {
		var others []*oScope
		var before []snap
		for _, x := range all {
			if !isAncestorOrSelf(s, x) {
				others = append(others, x)
				before = append(before, takeSnap(x))
			}
		}
		write()
		s.own[k] = v
		for i, x := range others {
			if !before[i].equal(takeSnap(x)) {
				o.fail("child_set_frames_parent", "set of key %d at depth %d changed a scope at depth %d that is not below it", k, depthOf(s), depthOf(x))
			}
		}
		o.tick("seq:set")
	}
	for i, n := 0, 30+r.Intn(40); i < n; i++ {
		s := all[r.Intn(len(all))]
		k := oracleKeys[r.Intn(len(oracleKeys))]
		switch x := r.Intn(10); {
		case x < 3:
			v := val()
			framedSet(s, k, v, func() { s.ds.SetValue(k, v) })
			checkGet(s, k, s.ds.Value(k), "Value-after-SetValue")
		case x < 6:
			checkGet(s, k, s.ds.Value(k), "Value")
		case x < 7:
			o.tick("seq:keys")
			if !sameKeys(s.ds.Keys(), s.own) {
				o.fail("keys", "Keys at depth %d = %s, own entries %d", depthOf(s), showKeys(s.ds.Keys()), len(s.own))
			}
		default:
			// a locked section: reads obey the overlay clause, writes go to this scope only, and
			// after Commit the scope shows them
			lk := s.ds.LockData()
			for j, m := 0, 1+r.Intn(4); j < m; j++ {
				k := oracleKeys[r.Intn(len(oracleKeys))]
				if r.Chance(1, 2) {
					v := val()
					// snapshots of the other scopes must not touch s (it is locked): others exclude s and its descendants
					framedSet(s, k, v, func() { lk.SetValue(k, v) })
					checkGet(s, k, lk.Value(k), "locker.Value-after-SetValue")
				} else {
					checkGet(s, k, lk.Value(k), "locker.Value")
				}
			}
			if !sameKeys(lk.Keys(), s.own) {
				o.fail("keys", "locker.Keys at depth %d differs from the scope's own entries", depthOf(s))
			}
			if err := lk.Commit(); err != nil {
				o.fail("commit", "Commit returned %v", err)
			}
			for _, k := range oracleKeys {
				checkGet(s, k, s.ds.Value(k), "Value-after-Commit")
			}
		}
	}
	// parent's CURRENT value: change an ancestor's entry and read through a descendant without own entry
	for _, s := range all {
		if s.parent == nil {
			continue
		}
		k := oracleKeys[r.Intn(len(oracleKeys))]
		if _, ok := s.own[k]; ok {
			continue
		}
		v := 100 + r.Intn(100)
		s.parent.ds.SetValue(k, v)
		s.parent.own[k] = v
		o.tick("seq:current")
		if got := s.ds.Value(k); got != v {
			o.fail("overlay_get", "child without own entry for key %d returned %s after the parent was set to %d", k, showVal(got), v)
		}
	}
}

// ---------------------------------------------------------------- concurrent clauses

func chainOf(depth int) []app.DataScope {
	c := []app.DataScope{datascope.New(map[interface{}]interface{}{})}
	for i := 0; i < depth; i++ {
		c = append(c, datascope.NewChild(c[i], map[interface{}]interface{}{}))
	}
	return c
}

const counterKey = "counter"

// n goroutines x k locked read-modify-write increments on the scope at the given depth, with plain
// traffic from other goroutines on the same scope, its parent and its child: final = base + n*k.
func (o *orc) counterCase(depth, n, k int, present bool, noise int) {
	what := fmt.Sprintf("depth=%d n=%d k=%d present=%v noise=%d", depth, n, k, present, noise)
	chain := chainOf(depth + 1) // one more level below the counter scope
	s := chain[depth]
	base := 0
	if present {
		s.SetValue(counterKey, 0)
	} else if depth > 0 {
		base = 1000
		chain[0].SetValue(counterKey, base) // only reachable through the fall-back
	}
	var stop int32
	var wg, nwg sync.WaitGroup
	ok := o.guarded("no_lost_update", what, 30*time.Second, func() {
		for g := 0; g < noise; g++ {
			nwg.Add(1)
			go func(g int) {
				defer nwg.Done()
				last := -1
				for i := 0; atomic.LoadInt32(&stop) == 0; i++ {
					switch i % 5 {
					case 0:
						s.SetValue(fmt.Sprintf("noise%d", g), i)
					case 1:
						// plain reads of the counter see committed values only: they never decrease
						if v, isInt := s.Value(counterKey).(int); isInt {
							if v < last {
								o.fail("no_lost_update", "%s: a plain read saw the counter go from %d back to %d", what, last, v)
							}
							last = v
						}
					case 2:
						s.Keys()
					case 3:
						chain[depth+1].SetValue("other", i)
						chain[depth+1].Value(counterKey)
					case 4:
						if depth > 0 {
							chain[depth-1].SetValue("above", i)
						}
					}
					if i%64 == 0 {
						runtime.Gosched()
					}
				}
			}(g)
		}
		for g := 0; g < n; g++ {
			wg.Add(1)
			go func(g int) {
				defer wg.Done()
				for i := 0; i < k; i++ {
					lk := s.LockData()
					v, _ := lk.Value(counterKey).(int)
					if (i+g)%3 == 0 {
						runtime.Gosched() // widen the window between read and write
					}
					lk.SetValue(counterKey, v+1)
					lk.Commit()
				}
			}(g)
		}
		wg.Wait()
		atomic.StoreInt32(&stop, 1)
		nwg.Wait()
	})
	atomic.StoreInt32(&stop, 1)
	o.tick("conc:counter")
	if !ok {
		return
	}
	if got, _ := s.Value(counterKey).(int); got != base+n*k {
		o.fail("no_lost_update", "%s: final counter %d, expected %d", what, got, base+n*k)
	}
	if depth > 0 {
		if got, _ := chain[0].Value(counterKey).(int); !present && got != base {
			o.fail("child_set_frames_parent", "%s: increments through the child's locker changed the root's entry to %d", what, got)
		}
	}
}

// A locked section writes a sentinel, yields, and reads it back while other goroutines issue plain
// SetValue / Value / Keys / LockData on the same scope: nothing of theirs may be visible inside.
func (o *orc) sentinelCase(depth, holders, intruders, rounds int) {
	what := fmt.Sprintf("depth=%d holders=%d intruders=%d rounds=%d", depth, holders, intruders, rounds)
	chain := chainOf(depth)
	s := chain[depth]
	const key = "sentinel"
	var stop int32
	var inside int32 // number of goroutines between LockData and Commit on s
	var wg, iwg sync.WaitGroup
	o.guarded("lock_exclusive", what, 30*time.Second, func() {
		for g := 0; g < intruders; g++ {
			iwg.Add(1)
			go func(g int) {
				defer iwg.Done()
				for i := 0; atomic.LoadInt32(&stop) == 0; i++ {
					switch i % 3 {
					case 0:
						s.SetValue(key, -1-g)
					case 1:
						s.Value(key)
					case 2:
						s.Keys()
					}
				}
			}(g)
		}
		for g := 0; g < holders; g++ {
			wg.Add(1)
			go func(g int) {
				defer wg.Done()
				for i := 0; i < rounds; i++ {
					token := (g+1)*1000000 + i
					lk := s.LockData()
					if c := atomic.AddInt32(&inside, 1); c != 1 {
						o.fail("lock_exclusive", "%s: %d goroutines are inside a locked section of the same scope", what, c)
					}
					lk.SetValue(key, token)
					for y := 0; y < 1+i%4; y++ {
						runtime.Gosched()
					}
					if i%16 == 0 {
						time.Sleep(20 * time.Microsecond)
					}
					if got := lk.Value(key); got != token {
						o.fail("lock_exclusive", "%s: section wrote %d and read back %s before Commit", what, token, showVal(got))
					}
					lk.Keys()
					atomic.AddInt32(&inside, -1)
					lk.Commit()
				}
			}(g)
		}
		wg.Wait()
		atomic.StoreInt32(&stop, 1)
		iwg.Wait()
	})
	atomic.StoreInt32(&stop, 1)
	o.tick("conc:sentinel")
}

// While the lock is held a plain call of another goroutine must not return.  Only the sound
// direction is tested: if the call HAS returned while we still hold the lock, exclusion is broken.
func (o *orc) blockCase(depth int, which int) {
	chain := chainOf(depth)
	s := chain[depth]
	names := []string{"SetValue", "Value", "Keys", "LockData"}
	var returned int32
	lk := s.LockData()
	done := make(chan struct{})
	go func() {
		switch which {
		case 0:
			s.SetValue("x", 1)
		case 1:
			s.Value("x")
		case 2:
			s.Keys()
		case 3:
			s.LockData().Commit()
		}
		atomic.StoreInt32(&returned, 1)
		close(done)
	}()
	for i := 0; i < 50; i++ {
		runtime.Gosched()
	}
	time.Sleep(300 * time.Microsecond)
	if atomic.LoadInt32(&returned) == 1 {
		o.fail("lock_exclusive", "%s of another goroutine returned between LockData and Commit (depth %d)", names[which], depth)
	}
	lk.Commit()
	select {
	case <-done:
	case <-time.After(mustFinish):
		atomic.AddInt32(&o.hangs, 1)
		o.fail("lock_exclusive", "%s still blocked %v after Commit (depth %d)", names[which], mustFinish, depth)
	}
	o.tick("conc:block")
}

// get-or-create through the three real services: all callers on one scope obtain one instance.
func (o *orc) getOrCreateCase(n int, childDepth int, parentFirst bool) {
	what := fmt.Sprintf("n=%d childDepth=%d parentFirst=%v", n, childDepth, parentFirst)
	tunit := tasks.NewUnit(tasks.UnitDeps{})
	eunit := &envs.Unit{}
	wman := waits.NewWaitManager()
	scopes := []app.Scope{scope.New(scope.Params{})}
	for i := 0; i < childDepth; i++ {
		scopes = append(scopes, scope.NewChild(scopes[i], scope.ChildParams{}))
	}
	target := scopes[childDepth]
	var fromParent [3]interface{}
	if parentFirst && childDepth > 0 {
		fromParent[0], _ = tunit.FromScope(scopes[0])
		fromParent[1], _ = eunit.Envs(scopes[0])
		fromParent[2], _ = wman.ForScope(scopes[0])
	}
	res := make([][3]interface{}, n)
	errs := make([][3]error, n)
	var wg sync.WaitGroup
	startGate := make(chan struct{})
	finished := o.guarded("get_or_create_once", what, 30*time.Second, func() {
		for g := 0; g < n; g++ {
			wg.Add(1)
			go func(g int) {
				defer wg.Done()
				<-startGate
				for j := 0; j < 3; j++ {
					switch (j + g) % 3 { // different goroutines start with different services
					case 0:
						res[g][0], errs[g][0] = tunit.FromScope(target)
					case 1:
						res[g][1], errs[g][1] = eunit.Envs(target)
					case 2:
						res[g][2], errs[g][2] = wman.ForScope(target)
					}
				}
			}(g)
		}
		close(startGate)
		wg.Wait()
	})
	if !finished {
		// some caller never came back (a service left the scope locked): already reported; the results are
		// incomplete and a further call on this scope would block this goroutine too
		o.tick("conc:getorcreate")
		return
	}
	names := []string{"tasks.Unit.FromScope", "envs.Unit.Envs", "waits.WaitManager.ForScope"}
	for j := 0; j < 3; j++ {
		for g := 0; g < n; g++ {
			if errs[g][j] != nil || res[g][j] == nil {
				o.fail("get_or_create_once", "%s %s: caller %d got instance=%v err=%v", names[j], what, g, res[g][j], errs[g][j])
				continue
			}
			if res[g][j] != res[0][j] {
				o.fail("get_or_create_once", "%s %s: callers 0 and %d obtained different instances", names[j], what, g)
			}
			if fromParent[j] != nil && res[g][j] != fromParent[j] {
				o.fail("get_or_create_once", "%s %s: the parent's existing instance was not reused by caller %d", names[j], what, g)
			}
		}
	}
	// a later caller gets the same one again
	// (under the watchdog as well: a service that left the scope locked on some path blocks this call for ever)
	o.guarded("get_or_create_once", what+" later call", 30*time.Second, func() {
		again, _ := tunit.FromScope(target)
		if again != res[0][0] {
			o.fail("get_or_create_once", "tasks.Unit.FromScope %s: a later call returned a different instance", what)
		}
	})
	o.tick("conc:getorcreate")
}

func oracle(n int) {
	w := bufio.NewWriterSize(os.Stdout, 1<<16)
	defer w.Flush()
	o := &orc{r: hx.NewRand(hx.SeedFromEnv()*0x2545f4914f6cdd1d + 7), w: w, count: map[string]int{}}
	// n scales everything: n sequential cases, n/4 concurrent configurations of each kind
	for i := 0; i < n && atomic.LoadInt32(&o.hangs) < 2; i++ {
		o.guarded("sequential", "sequential case", 30*time.Second, o.seqCase)
	}
	conc := n / 4
	if conc < 8 {
		conc = 8
	}
	ns := []int{2, 3, 4, 8, 16, 32, 64}
	stuck := func() bool { return atomic.LoadInt32(&o.hangs) >= 2 }
	for i := 0; i < conc && !stuck(); i++ {
		depth := i % 5
		nn := ns[o.r.Intn(len(ns))]
		k := 20 + o.r.Intn(200)
		if nn*k > 6000 {
			k = 6000 / nn
		}
		o.counterCase(depth, nn, k, i%3 != 2, o.r.Intn(4))
	}
	for i := 0; i < conc && !stuck(); i++ {
		o.sentinelCase(i%5, 1+o.r.Intn(4), 1+o.r.Intn(6), 100+o.r.Intn(300))
	}
	for i := 0; i < conc && !stuck(); i++ {
		o.blockCase(i%5, i%4)
	}
	for i := 0; i < conc && !stuck(); i++ {
		o.getOrCreateCase(ns[i%len(ns)], i%4, i%5 == 4)
	}
	total := 0
	var keys []string
	for k, v := range o.count {
		keys = append(keys, k)
		total += v
	}
	sort.Strings(keys)
	fmt.Fprintf(w, "oracle cases=%d fails=%d", total, o.fails)
	for _, k := range keys {
		fmt.Fprintf(w, " %s=%d", k, o.count[k])
	}
	fmt.Fprintln(w)
}
