package main

// The `dssvc` family: the three service units that sit on top of the data scope
// (tasks.Unit FromScope/BindScope/Clear, envs.Unit.Envs, waits.WaitManager.ForScope) driven through
// SEQUENCES of operations on trees of real app.Scope objects (scope.New / scope.NewChild).
// Protocol: see lean/Driver/DataScopeSvc.lean.  The driver is one goroutine: a call that the model
// says would wait for a mutex is skipped (hint `s`), everything else runs under a watchdog.
//
//	datascope svcdrive        ops (with model hints) on stdin -> one result line per op (format of m_dssvc)
//	datascope svcgen <cases>  seeded generator

import (
	"bufio"
	"fmt"
	"os"
	"strconv"
	"strings"

	"gcverif/internal/hx"

	"github.com/goatcms/goatcore/app"
	"github.com/goatcms/goatcore/app/modules/commonm/commservices/envs"
	"github.com/goatcms/goatcore/app/modules/commonm/commservices/waits"
	"github.com/goatcms/goatcore/app/modules/pipelinem/pipservices"
	"github.com/goatcms/goatcore/app/modules/pipelinem/pipservices/tasks"
	"github.com/goatcms/goatcore/app/scope"
)

type svcSession struct {
	scopes  []app.Scope
	lockers map[int]app.DataScopeLocker
	insts   []interface{} // instance number -> object
	owner   []int         // instance number -> service index
	aborted bool
}

var (
	svcNames = []string{"t", "e", "w"}
	svcKeys  [3]interface{} // the (unexported) data-scope keys of the three services, discovered at start
	tunit    = tasks.NewUnit(tasks.UnitDeps{})
	eunit    = &envs.Unit{}
	wman     = waits.NewWaitManager()
)

func svcIndex(s string) int {
	for i, n := range svcNames {
		if n == s {
			return i
		}
	}
	return -1
}

func svcGetOrCreate(u int, scp app.Scope) (interface{}, error) {
	switch u {
	case 0:
		return tunit.FromScope(scp)
	case 1:
		return eunit.Envs(scp)
	default:
		return wman.ForScope(scp)
	}
}

// discoverKeys finds the key under which each service stores its instance: get-or-create on a fresh
// scope, then the only key of that scope.
func discoverKeys() error {
	for u := 0; u < 3; u++ {
		scp := scope.New(scope.Params{})
		ins, err := svcGetOrCreate(u, scp)
		if err != nil || ins == nil {
			return fmt.Errorf("service %s: get-or-create on a fresh scope failed: %v", svcNames[u], err)
		}
		keys := scp.Keys()
		if len(keys) != 1 {
			return fmt.Errorf("service %s: %d keys after get-or-create on a fresh scope", svcNames[u], len(keys))
		}
		svcKeys[u] = keys[0]
	}
	return nil
}

func (se *svcSession) number(u int, ins interface{}) string {
	if ins == nil {
		return "nil"
	}
	for i, x := range se.insts {
		if x == ins {
			return strconv.Itoa(i)
		}
	}
	se.insts = append(se.insts, ins)
	se.owner = append(se.owner, u)
	return strconv.Itoa(len(se.insts) - 1)
}

// show is number without registering: an object nobody created through the driver is `?`
func (se *svcSession) show(ins interface{}) string {
	if ins == nil {
		return "nil"
	}
	for i, x := range se.insts {
		if x == ins {
			return strconv.Itoa(i)
		}
	}
	return "?"
}

func (se *svcSession) obs() string {
	if len(se.lockers) > 0 {
		return ""
	}
	var b strings.Builder
	b.WriteString(" obs ")
	for u := 0; u < 3; u++ {
		if u > 0 {
			b.WriteByte(';')
		}
		b.WriteString(svcNames[u] + "=")
		for i, scp := range se.scopes {
			if i > 0 {
				b.WriteByte(',')
			}
			b.WriteString(se.show(scp.Value(svcKeys[u])))
		}
	}
	return b.String()
}

// inst parses `n|nil` as a value for service u: (value, ok, wellFormed)
func (se *svcSession) inst(u int, s string) (interface{}, bool, bool) {
	if s == "nil" {
		return nil, true, true
	}
	n, err := strconv.Atoi(s)
	if err != nil || n < 0 {
		return nil, false, false
	}
	if n >= len(se.insts) || se.owner[n] != u {
		return nil, false, true
	}
	return se.insts[n], true, true
}

func (se *svcSession) run(f []string) string {
	atoi := func(s string) (int, bool) {
		n, err := strconv.Atoi(s)
		return n, err == nil && n >= 0
	}
	scp := func(n int) app.Scope {
		if n >= len(se.scopes) {
			return nil
		}
		return se.scopes[n]
	}
	switch {
	case f[0] == "goc" && len(f) == 3:
		u := svcIndex(f[1])
		s, ok := atoi(f[2])
		if u < 0 || !ok {
			return "bad-op"
		}
		sc := scp(s)
		if sc == nil {
			return "bad"
		}
		ins, err := svcGetOrCreate(u, sc)
		if err != nil {
			return "err"
		}
		return "inst " + se.number(u, ins)
	case f[0] == "bind" && len(f) == 3:
		s, ok := atoi(f[1])
		v, vok, wf := se.inst(0, f[2])
		if !ok || !wf {
			return "bad-op"
		}
		sc := scp(s)
		if sc == nil || !vok || v == nil {
			return "bad"
		}
		if err := tunit.BindScope(sc, v.(pipservices.TasksManager)); err != nil {
			return "err"
		}
		return "ok"
	case f[0] == "clear" && len(f) == 2:
		s, ok := atoi(f[1])
		if !ok {
			return "bad-op"
		}
		sc := scp(s)
		if sc == nil {
			return "bad"
		}
		if err := tunit.Clear(sc); err != nil {
			return "err"
		}
		return "ok"
	case f[0] == "set" && len(f) == 4:
		u := svcIndex(f[1])
		s, ok := atoi(f[2])
		if u < 0 || !ok {
			return "bad-op"
		}
		v, vok, wf := se.inst(u, f[3])
		if !wf {
			return "bad-op"
		}
		sc := scp(s)
		if sc == nil || !vok {
			return "bad"
		}
		sc.SetValue(svcKeys[u], v)
		return "ok"
	case f[0] == "get" && len(f) == 3:
		u := svcIndex(f[1])
		s, ok := atoi(f[2])
		if u < 0 || !ok {
			return "bad-op"
		}
		sc := scp(s)
		if sc == nil {
			return "bad"
		}
		return "inst " + se.show(sc.Value(svcKeys[u]))
	case f[0] == "lock" && len(f) == 3:
		s, ok := atoi(f[1])
		h, hok := atoi(f[2])
		if !ok || !hok {
			return "bad-op"
		}
		sc := scp(s)
		if sc == nil || se.lockers[h] != nil {
			return "bad"
		}
		se.lockers[h] = sc.LockData()
		return "ok"
	case f[0] == "lset" && len(f) == 4:
		u := svcIndex(f[1])
		h, ok := atoi(f[2])
		if u < 0 || !ok {
			return "bad-op"
		}
		v, vok, wf := se.inst(u, f[3])
		if !wf {
			return "bad-op"
		}
		l := se.lockers[h]
		if l == nil || !vok {
			return "bad"
		}
		l.SetValue(svcKeys[u], v)
		return "ok"
	case f[0] == "lget" && len(f) == 3:
		u := svcIndex(f[1])
		h, ok := atoi(f[2])
		if u < 0 || !ok {
			return "bad-op"
		}
		l := se.lockers[h]
		if l == nil {
			return "bad"
		}
		return "inst " + se.show(l.Value(svcKeys[u]))
	case f[0] == "commit" && len(f) == 2:
		h, ok := atoi(f[1])
		if !ok {
			return "bad-op"
		}
		l := se.lockers[h]
		if l == nil {
			return "bad"
		}
		if err := l.Commit(); err != nil {
			return "err"
		}
		delete(se.lockers, h)
		return "ok"
	}
	return "bad-op"
}

func (se *svcSession) exec(line string) string {
	op, hint := line, ""
	if i := strings.Index(line, " | "); i >= 0 {
		op, hint = line[:i], strings.TrimSpace(line[i+3:])
	}
	f := strings.Fields(op)
	if len(f) == 0 {
		return "bad-op"
	}
	if f[0] == "reset" {
		*se = svcSession{lockers: map[int]app.DataScopeLocker{}, aborted: hangs >= maxHangs}
		return "ok"
	}
	if se.aborted {
		return "abort"
	}
	switch f[0] {
	case "root":
		se.scopes = append(se.scopes, scope.New(scope.Params{}))
		return fmt.Sprintf("id %d", len(se.scopes)-1)
	case "child":
		if len(f) != 2 {
			return "bad-op"
		}
		p, err := strconv.Atoi(f[1])
		if err != nil {
			return "bad-op"
		}
		if p < 0 || p >= len(se.scopes) {
			return "bad"
		}
		se.scopes = append(se.scopes, scope.NewChild(se.scopes[p], scope.ChildParams{}))
		return fmt.Sprintf("id %d", len(se.scopes)-1)
	}
	if strings.HasPrefix(hint, "s") {
		return "skip" // the model says this call would wait for a mutex: not executed
	}
	var res string
	ch := start(func() string {
		r := se.run(f)
		if r == "ok" || strings.HasPrefix(r, "inst ") {
			r += se.obs()
		}
		return r
	})
	res, ok := await(ch, mustFinish)
	if !ok {
		se.aborted = true
		hangs++
		return "hang"
	}
	return res
}

func svcDrive() {
	if err := discoverKeys(); err != nil {
		fmt.Fprintln(os.Stderr, "svcdrive:", err)
		os.Exit(3)
	}
	in := bufio.NewScanner(os.Stdin)
	in.Buffer(make([]byte, 1<<20), 1<<26)
	out := bufio.NewWriterSize(os.Stdout, 1<<16)
	defer out.Flush()
	se := &svcSession{lockers: map[int]app.DataScopeLocker{}}
	for in.Scan() {
		line := strings.TrimRight(in.Text(), "\r\n")
		if line == "" || strings.HasPrefix(line, "#") {
			continue
		}
		fmt.Fprintln(out, se.exec(line))
		out.Flush()
	}
}

// ----------------------------------------------------------------------------- generator

// The generator keeps its own picture of the tree (own slots, which scopes it has locked, which instance
// numbers exist) only to steer the mix towards colliding operations - e.g. binding a node to the very
// instance it or its parent currently resolves to, clearing a node that resolves to nil, re-binding a
// parent after its children were bound.  It never decides a result: those come from the Lean model.
type gSlot struct {
	present bool
	val     int // -1 = stored nil
}

type svcGen struct {
	r      *hx.Rand
	w      *bufio.Writer
	parent []int
	own    [3][]gSlot
	held   []bool
	owner  []int       // instance number -> service index
	open   map[int]int // handle -> scope
	nextH  int
}

func (g *svcGen) emit(format string, a ...interface{}) { fmt.Fprintf(g.w, format+"\n", a...) }

func (g *svcGen) addNode(p int) {
	if p < 0 {
		g.emit("root")
	} else {
		g.emit("child %d", p)
	}
	g.parent = append(g.parent, p)
	g.held = append(g.held, false)
	for u := 0; u < 3; u++ {
		g.own[u] = append(g.own[u], gSlot{})
	}
}

// value: what Value(key u) on node n gives (-1 nil); blocked when a locked scope is on the way.
// viaLocker: the first level is read through the locker that holds n.
func (g *svcGen) value(u, n int, viaLocker bool) (int, bool) {
	for j := n; j >= 0; j = g.parent[j] {
		if g.held[j] && !(viaLocker && j == n) {
			return -1, true
		}
		if g.own[u][j].present {
			return g.own[u][j].val, false
		}
	}
	return -1, false
}

func (g *svcGen) node() int {
	// prefer nodes with relatives: pick two, keep the deeper one half of the time
	a, b := g.r.Intn(len(g.parent)), g.r.Intn(len(g.parent))
	if g.r.Chance(1, 2) && b > a {
		a = b
	}
	return a
}

func (g *svcGen) svc() int {
	if g.r.Chance(3, 5) {
		return 0 // tasks: the only service with BindScope/Clear
	}
	return 1 + g.r.Intn(2)
}

// instFor picks an instance number of service u to store on node n: what n resolves to now, what its
// parent resolves to, or any instance of the service; rarely an unknown number / one of another service.
func (g *svcGen) instFor(u, n int) string {
	if g.r.Chance(1, 40) {
		return strconv.Itoa(g.r.Intn(len(g.owner) + 2))
	}
	var c []int
	for i, o := range g.owner {
		if o == u {
			c = append(c, i)
		}
	}
	if len(c) == 0 {
		return ""
	}
	switch g.r.Intn(5) {
	case 0, 1:
		if v, b := g.value(u, n, false); !b && v >= 0 {
			return strconv.Itoa(v)
		}
	case 2:
		if p := g.parent[n]; p >= 0 {
			if v, b := g.value(u, p, false); !b && v >= 0 {
				return strconv.Itoa(v)
			}
		}
	}
	return strconv.Itoa(c[g.r.Intn(len(c))])
}

func (g *svcGen) write(u, n int, v string) {
	if g.held[n] {
		return // skipped by the model
	}
	g.store(u, n, v)
}

func (g *svcGen) store(u, n int, v string) {
	if v == "nil" {
		g.own[u][n] = gSlot{true, -1}
		return
	}
	if m, err := strconv.Atoi(v); err == nil && m < len(g.owner) && g.owner[m] == u {
		g.own[u][n] = gSlot{true, m}
	}
}

func (g *svcGen) goc(u, n int) {
	g.emit("goc %s %d", svcNames[u], n)
	if g.held[n] {
		return
	}
	g.held[n] = true
	v, blocked := g.value(u, n, true)
	g.held[n] = false
	if blocked || v >= 0 {
		return
	}
	g.owner = append(g.owner, u)
	g.own[u][n] = gSlot{true, len(g.owner) - 1}
}

func (g *svcGen) genCase() {
	g.parent, g.held, g.owner, g.open, g.nextH = nil, nil, nil, map[int]int{}, 0
	g.own = [3][]gSlot{}
	g.emit("reset")
	g.addNode(-1)
	n := 2 + g.r.Intn(6)
	shape := g.r.Intn(3) // chain / random tree / bushy near the root
	for len(g.parent) < n {
		p := len(g.parent) - 1
		switch shape {
		case 1:
			p = g.r.Intn(len(g.parent))
		case 2:
			p = g.r.Intn(1 + len(g.parent)/3)
		}
		if g.r.Chance(1, 14) {
			p = -1
		}
		g.addNode(p)
	}
	steps := 8 + g.r.Intn(30)
	for i := 0; i < steps; i++ {
		g.genOp()
	}
	for h := 0; h < g.nextH; h++ {
		if s, ok := g.open[h]; ok {
			g.emit("commit %d", h)
			g.held[s] = false
			delete(g.open, h)
		}
	}
	for u := 0; u < 3; u++ {
		if g.r.Chance(1, 2) {
			g.goc(u, g.node())
		}
	}
}

func (g *svcGen) handle() int {
	lo, hi := -1, -1
	for h := range g.open {
		if lo < 0 || h < lo {
			lo = h
		}
		if h > hi {
			hi = h
		}
	}
	if g.r.Chance(1, 3) {
		return lo
	}
	return hi
}

func (g *svcGen) genOp() {
	x := g.r.Intn(100)
	u := g.svc()
	n := g.node()
	switch {
	case x < 26:
		g.goc(u, n)
	case x < 46:
		if m := g.instFor(0, n); m != "" {
			g.emit("bind %d %s", n, m)
			g.write(0, n, m)
		} else {
			g.goc(0, n)
		}
	case x < 58:
		g.emit("clear %d", n)
		g.write(0, n, "nil")
	case x < 68:
		v := "nil"
		if m := g.instFor(u, n); m != "" && g.r.Chance(3, 4) {
			v = m
		}
		g.emit("set %s %d %s", svcNames[u], n, v)
		g.write(u, n, v)
	case x < 76:
		g.emit("get %s %d", svcNames[u], n)
	case x < 83:
		if len(g.open) < 2 {
			g.emit("lock %d %d", n, g.nextH)
			if !g.held[n] {
				g.held[n] = true
				g.open[g.nextH] = n
			}
			g.nextH++
		} else {
			g.emit("get %s %d", svcNames[u], n)
		}
	case x < 96:
		if len(g.open) == 0 {
			g.goc(u, n)
			return
		}
		h := g.handle()
		s := g.open[h]
		switch y := g.r.Intn(10); {
		case y < 3:
			g.emit("lget %s %d", svcNames[u], h)
		case y < 6:
			v := "nil"
			if m := g.instFor(u, s); m != "" && g.r.Chance(3, 4) {
				v = m
			}
			g.emit("lset %s %d %s", svcNames[u], h, v)
			g.store(u, s, v)
		default:
			g.emit("commit %d", h)
			g.held[s] = false
			delete(g.open, h)
		}
	case x < 98:
		if len(g.parent) < 9 {
			g.addNode(n)
		} else {
			g.emit("get %s %d", svcNames[u], n)
		}
	default:
		g.emit("lget %s %d", svcNames[u], g.r.Intn(g.nextH+2)) // possibly an unbound / committed handle
	}
}

func svcGenMain(cases int) {
	w := bufio.NewWriterSize(os.Stdout, 1<<16)
	defer w.Flush()
	g := &svcGen{r: hx.NewRand(hx.SeedFromEnv()*0x9e3779b97f4a7c15 + 77), w: w}
	for i := 0; i < cases; i++ {
		g.genCase()
	}
}
