package main

// The extended operation set of the `di` protocol: names as text (`~` = the empty name), nil
// definitions, AddInjectors with injectors given as data, NewStaticProvider built from the tables of
// the running provider, InjectTo targets that are not pointers to structs.

import (
	"bufio"
	"fmt"
	"os"
	"reflect"
	"strconv"
	"strings"
	"unsafe"

	"gcverif/internal/hx"

	"github.com/goatcms/goatcore/app"
	"github.com/goatcms/goatcore/app/dependency"
	"github.com/goatcms/goatcore/app/injector"
	"github.com/goatcms/goatcore/app/scope/datascope"
)

func tokName(tok string) string {
	if tok == "~" {
		return ""
	}
	return tok
}

func nameTok(n string) string {
	if n == "" {
		return "~"
	}
	return n
}

func nameToks(l []string) []string {
	r := make([]string, len(l))
	for i, n := range l {
		r[i] = nameTok(n)
	}
	return r
}

func validTok(t string) bool {
	return t != "" && (t == "~" || !strings.ContainsAny(t, " :,;+=[]{}-~"))
}

// the tag name of tag number t: 0 is the provider's own
func tagName(t int) string {
	if t == 0 {
		return app.DependencyTagName
	}
	return "t" + strconv.Itoa(t)
}

type tagKV struct {
	tag int
	raw string
}

// the reference reading of a tag: "" skips the field, one leading `?` makes it optional
func parseTag(raw string) (name string, optional, skip bool) {
	if raw == "" {
		return "", false, true
	}
	if raw[0] == '?' {
		return raw[1:], true, false
	}
	return raw, false, false
}

// the raw text of the provider's tag of a field / an InjectTo edge
func (d depSpec) rawTag() string {
	if d.optional {
		return "?" + d.name
	}
	return d.name
}

// ------------------------------------------------------------------------------ injector specs

type injEntry struct {
	key   string
	isNil bool
}

type injSpec struct {
	kind    byte // 'n' 'm' 's' '['
	tag     int
	entries []injEntry
	sub     []injSpec
}

func parseInj(s string) (injSpec, string, bool) {
	switch {
	case strings.HasPrefix(s, "n"):
		return injSpec{kind: 'n'}, s[1:], true
	case strings.HasPrefix(s, "[]"):
		return injSpec{kind: '['}, s[2:], true
	case strings.HasPrefix(s, "["):
		l, rest, ok := parseInjList(s[1:])
		if !ok || !strings.HasPrefix(rest, "]") {
			return injSpec{}, "", false
		}
		return injSpec{kind: '[', sub: l}, rest[1:], true
	case len(s) >= 3 && (s[0] == 'm' || s[0] == 's') && s[1] >= '0' && s[1] <= '9' && s[2] == '{':
		end := strings.IndexByte(s, '}')
		if end < 0 {
			return injSpec{}, "", false
		}
		sp := injSpec{kind: s[0], tag: int(s[1] - '0')}
		if body := s[3:end]; body != "" {
			for _, it := range strings.Split(body, ",") {
				kv := strings.Split(it, "=")
				if len(kv) != 2 || (kv[1] != "v" && kv[1] != "nil") {
					return injSpec{}, "", false
				}
				sp.entries = append(sp.entries, injEntry{key: tokName(kv[0]), isNil: kv[1] == "nil"})
			}
		}
		return sp, s[end+1:], true
	}
	return injSpec{}, "", false
}

func parseInjList(s string) ([]injSpec, string, bool) {
	i, rest, ok := parseInj(s)
	if !ok {
		return nil, "", false
	}
	if strings.HasPrefix(rest, "+") {
		l, rest2, ok := parseInjList(rest[1:])
		if !ok {
			return nil, "", false
		}
		return append([]injSpec{i}, l...), rest2, true
	}
	return []injSpec{i}, rest, true
}

func parseInjSpec(s string) ([]injSpec, bool) {
	if s == "-" {
		return nil, true
	}
	l, rest, ok := parseInjList(s)
	return l, ok && rest == ""
}

// injData: the values of an injector spec, in order of appearance (a fresh object per `v`; the first
// entry of a key wins)
type injData struct {
	keys []string
	vals map[string]interface{}
}

func (sp *injSpec) data(mk func() interface{}) injData {
	d := injData{vals: map[string]interface{}{}}
	for _, e := range sp.entries {
		var v interface{}
		if !e.isNil {
			v = mk() // every `v` consumes an object, as in the model driver
		}
		if _, dup := d.vals[e.key]; dup {
			continue
		}
		d.keys = append(d.keys, e.key)
		d.vals[e.key] = v
	}
	return d
}

// builtInj: a real injector plus the data it was built from (for the oracle's reference reading)
type builtInj struct {
	kind byte
	tag  int
	data injData
	sub  []builtInj
	real app.Injector
}

func buildInj(sp injSpec, mk func() interface{}) builtInj {
	b := builtInj{kind: sp.kind, tag: sp.tag}
	switch sp.kind {
	case 'n':
		b.real = injector.NewNilInjector()
	case 'm':
		b.data = sp.data(mk)
		m := map[string]interface{}{}
		for k, v := range b.data.vals {
			m[k] = v
		}
		b.real = injector.NewMapInjector(tagName(sp.tag), m)
	case 's':
		b.data = sp.data(mk)
		m := map[interface{}]interface{}{}
		for k, v := range b.data.vals {
			m[k] = v
		}
		b.real = datascope.NewInjector(tagName(sp.tag), datascope.New(m))
	case '[':
		var reals []app.Injector
		for _, s := range sp.sub {
			c := buildInj(s, mk)
			b.sub = append(b.sub, c)
			reals = append(reals, c.real)
		}
		b.real = injector.NewMultiInjector(reals)
	}
	return b
}

// recInjector notes which registered injector returned an error to a request from outside
type recInjector struct {
	inner app.Injector
	idx   int
	depth *int
	first *int
}

func (r recInjector) InjectTo(obj interface{}) error {
	err := r.inner.InjectTo(obj)
	if err != nil && *r.depth == 0 && *r.first < 0 {
		*r.first = r.idx
	}
	return err
}

// ------------------------------------------------------------------------------ static provider

func privateField(dp *dependency.Provider, name string) reflect.Value {
	f := reflect.ValueOf(dp).Elem().FieldByName(name)
	return reflect.NewAt(f.Type(), unsafe.Pointer(f.UnsafeAddr())).Elem()
}

// staticFrom: Block, then NewStaticProvider over copies of the provider's own tables: every default
// factory overridden by the explicit ones, the instances, the registered injectors
func staticFrom(cur app.DependencyProvider) app.DependencyProvider {
	dp := cur.(*dependency.Provider)
	dp.Block()
	facs := privateField(dp, "factories").Interface().(map[string]app.Factory)
	dfacs := privateField(dp, "defaultFactories").Interface().(map[string]app.Factory)
	insts := privateField(dp, "instances").Interface().(map[string]interface{})
	injs := privateField(dp, "injectors").Interface().([]app.Injector)
	merged := map[string]app.Factory{}
	for k, v := range dfacs {
		merged[k] = v
	}
	for k, v := range facs {
		merged[k] = v
	}
	instCopy := map[string]interface{}{}
	for k, v := range insts {
		instCopy[k] = v
	}
	return dependency.NewStaticProvider(app.DependencyTagName, merged, instCopy, append([]app.Injector{}, injs...))
}

// InjectTo with an argument that is not a pointer to a struct
func injectBad(dp app.DependencyProvider, what string) error {
	switch what {
	case "nil":
		return dp.InjectTo(nil)
	case "value":
		return dp.InjectTo(struct{ A *Obj }{})
	case "nilptr":
		return dp.InjectTo((*struct{ A *Obj })(nil))
	default:
		return dp.InjectTo(new(int))
	}
}

// ------------------------------------------------------------------------------ generator (extended stream)

var extNames = []string{"a", "?a", "??a", "a?", "~", "?", "b", "?b"}

func extPool(r *hx.Rand) []string {
	n := 3 + r.Intn(4)
	pool := []string{"a", "?a"}
	for len(pool) < n {
		c := extNames[r.Intn(len(extNames))]
		dup := false
		for _, x := range pool {
			dup = dup || x == c
		}
		if !dup {
			pool = append(pool, c)
		}
	}
	return pool
}

func pick(r *hx.Rand, pool []string) string {
	if r.Chance(1, 9) {
		return "zz" // a name nobody defines
	}
	return pool[r.Intn(len(pool))]
}

func genDepsExt(r *hx.Rand, pool []string, withVia bool) string {
	n := []int{0, 1, 1, 1, 2, 2, 2, 3}[r.Intn(8)]
	if n == 0 {
		return "-"
	}
	items := make([]string, n)
	for i := range items {
		o := "r"
		if r.Chance(45, 100) {
			o = "o"
		}
		items[i] = pick(r, pool) + ":" + o
		if withVia {
			if r.Chance(50, 100) {
				items[i] += ":i"
			} else {
				items[i] += ":g"
			}
		} else {
			for t := 1; t <= 2; t++ {
				if r.Chance(1, 5) {
					raw := pick(r, pool)
					if raw == "~" {
						raw = "?"
					}
					if r.Chance(1, 3) {
						raw = "?" + raw
					}
					items[i] += fmt.Sprintf(":%d=%s", t, raw)
				}
			}
		}
	}
	return strings.Join(items, ",")
}

func genInj(r *hx.Rand, pool []string, depth int) string {
	x := r.Intn(100)
	switch {
	case x < 8:
		return "n"
	case x < 22 && depth < 2:
		n := r.Intn(4)
		parts := make([]string, n)
		for i := range parts {
			parts[i] = genInj(r, pool, depth+1)
		}
		return "[" + strings.Join(parts, "+") + "]"
	}
	kind := "m"
	if r.Chance(40, 100) {
		kind = "s"
	}
	tag := 0
	if r.Chance(40, 100) {
		tag = 1 + r.Intn(2)
	}
	n := r.Intn(4)
	ents := make([]string, n)
	for i := range ents {
		v := "v"
		if r.Chance(1, 5) {
			v = "nil"
		}
		ents[i] = pick(r, pool) + "=" + v
	}
	return fmt.Sprintf("%s%d{%s}", kind, tag, strings.Join(ents, ","))
}

func genAddInjectors(r *hx.Rand, pool []string) string {
	n := r.Intn(3)
	if n == 0 && r.Chance(1, 2) {
		return "addinjectors -"
	}
	parts := make([]string, n+1)
	for i := range parts {
		parts[i] = genInj(r, pool, 0)
	}
	return "addinjectors " + strings.Join(parts, "+")
}

func genDefExt(r *hx.Rand, pool []string) string {
	name := pool[r.Intn(len(pool))]
	switch x := r.Intn(100); {
	case x < 10:
		return "set " + name
	case x < 16:
		return "set " + name + " nil"
	case x < 24:
		return "setdefault " + name
	case x < 30:
		return "setdefault " + name + " nil"
	case x < 42:
		return genAddInjectors(r, pool)
	default:
		out := "ok"
		if y := r.Intn(100); y < 10 {
			out = "fail"
		} else if y < 15 {
			out = "nil"
		}
		kw := "factory"
		if r.Chance(35, 100) {
			kw = "deffactory"
		}
		return fmt.Sprintf("%s %s %s %s", kw, name, genDepsExt(r, pool, true), out)
	}
}

func genReqExt(r *hx.Rand, pool []string) string {
	switch x := r.Intn(100); {
	case x < 45:
		return "get " + pick(r, pool)
	case x < 85:
		return "inject " + genDepsExt(r, pool, false)
	case x < 88:
		return "injectbad " + []string{"nil", "value", "nilptr", "intptr"}[r.Intn(4)]
	case x < 93:
		return "keys"
	default:
		return "calls"
	}
}

func genProgramExt(r *hx.Rand, w *bufio.Writer) {
	pool := extPool(r)
	fmt.Fprintln(w, "new")
	ndefs := 2 + r.Intn(len(pool)+3)
	for i := 0; i < ndefs; i++ {
		fmt.Fprintln(w, genDefExt(r, pool))
		if r.Chance(1, 40) {
			fmt.Fprintln(w, genReqExt(r, pool))
		}
	}
	if r.Chance(1, 8) { // a static provider of something that never resolved anything
		fmt.Fprintln(w, "static")
	}
	if r.Chance(1, 3) {
		fmt.Fprintln(w, "keys")
	}
	nreq := 1 + r.Intn(8)
	for i := 0; i < nreq; i++ {
		fmt.Fprintln(w, genReqExt(r, pool))
		if r.Chance(1, 6) {
			fmt.Fprintln(w, genDefExt(r, pool))
		}
		if r.Chance(1, 12) {
			fmt.Fprintln(w, "static")
		}
	}
	fmt.Fprintln(w, "keys")
	fmt.Fprintln(w, "calls")
}

func genx(n int) {
	r := hx.NewRand(hx.SeedFromEnv() ^ 0xe87)
	w := bufio.NewWriterSize(os.Stdout, 1<<16)
	defer w.Flush()
	for i := 0; i < n; i++ {
		genProgramExt(r, w)
	}
}

// enumx: every combination of
//   the definition of `a` and of `?a` (absent, object, nil, default nil, default object, a factory with an
//   optional InjectTo edge on the other name, a factory with a required Get edge on the other name),
//   one AddInjectors call (none, and seven injectors over the keys a / ?a),
//   static provider before the requests or not,
// followed by the same requests: Get of both names and of the empty name, one-field structs for the tags
// a ?a ??a ? and a two-field struct with a second tag name.
func enumx(shard, shards int) {
	w := bufio.NewWriterSize(os.Stdout, 1<<16)
	defer w.Flush()
	defsOf := func(n, other string) []string {
		return []string{"", "set " + n, "set " + n + " nil", "setdefault " + n + " nil", "setdefault " + n,
			"factory " + n + " " + other + ":o:i ok", "deffactory " + n + " " + other + ":r:g ok"}
	}
	injs := []string{"", "addinjectors m0{a=v}", "addinjectors m0{a=nil}", "addinjectors s0{a=nil,?a=v}",
		"addinjectors m0{?a=v}", "addinjectors m1{a=v}+m0{a=v}", "addinjectors [s1{a=v}+n]+m1{a=v}", "addinjectors s0{~=v}"}
	da, db := defsOf("a", "?a"), defsOf("?a", "a")
	idx := 0
	for _, x := range da {
		for _, y := range db {
			for _, in := range injs {
				for st := 0; st < 2; st++ {
					idx++
					if idx%shards != shard {
						continue
					}
					fmt.Fprintln(w, "new")
					for _, l := range []string{x, in, y} {
						if l != "" {
							fmt.Fprintln(w, l)
						}
					}
					if st == 1 {
						fmt.Fprintln(w, "static")
					}
					for _, l := range []string{"get a", "inject a:r", "inject a:o", "inject ?a:o", "inject ~:o", "get ?a", "get ~",
						"inject a:o:1=a,?a:o:1=?a", "inject ~:r:1=a", "keys", "calls"} {
						fmt.Fprintln(w, l)
					}
				}
			}
		}
	}
}
