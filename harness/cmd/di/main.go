// Command di is the implementation-side driver, generator and oracle of the `di` line protocol
// (property C10): it runs the real dependency.Provider of /repo.
//
//	di drive              ops on stdin -> one result line per op on stdout (same format as m_di)
//	di gen <n>            n random programs (each starts with `new`)
//	di genx <n>           n random programs of the extended operation set (ext.go)
//	di enum3 <k> <m>      shard k of m of the exhaustive 3-name graphs
//	di enumx <k> <m>      shard k of m of the exhaustive small space of the extended operation set
//	di oracle <n>         property clauses evaluated on the implementation alone (no model)
//	di judge              the same clauses on the programs given on stdin (verdict for a disagreement)
//
// A factory is data (ordered dependency list with required/optional and Get/InjectTo edges, outcome
// ok/fail/nil) interpreted by a closure (every InjectTo edge uses its own one-field struct); InjectTo
// targets are struct types built with reflect.StructOf so that the `dependency:"…"` tags (and the tags
// `t1:"…"`, `t2:"…"` read by extra injectors) are data too; injectors are the real map / data-scope /
// multi / nil injectors built from a spec; `static` replaces the provider by NewStaticProvider over
// copies of its own tables.  Names are text (`~` stands for the empty name).  Object identity is reported as
// classes numbered by first appearance in the output, never as pointers; error kinds are derived
// from what the provider did (which factory it invoked at the top level and what that returned, which
// registered injector returned an error, whether a nil definition had been accepted for the name),
// never from message text.
package main

import (
	"time"
	"bufio"
	"errors"
	"fmt"
	"os"
	"reflect"
	"runtime/debug"
	"sort"
	"strconv"
	"strings"

	"gcverif/internal/hx"

	"github.com/goatcms/goatcore/app"
	"github.com/goatcms/goatcore/app/dependency"
)

// Obj is what Set receives and what factories build (non-zero size: distinct allocations have
// distinct addresses).
type Obj struct{ serial int }

type depSpec struct {
	name     string
	optional bool
	inject   bool
	extra    []tagKV // further struct tags of an InjectTo field: tag number -> raw text
}

type facSpec struct {
	deps []depSpec
	out  string // ok | fail | nil
}

type topCall struct {
	name string
	out  string // failed | nil | ok
}

type prog struct {
	dp      app.DependencyProvider
	classes map[*Obj]int
	serial  int
	depth   int
	ran     []string       // factory invocations of the current request, in order
	calls   map[string]int // factory invocations so far
	built   map[string]int // successful factory returns so far
	top     []topCall      // returns of factories invoked directly by the current top-level request
	nilSet  map[string]bool // names for which a nil Set / SetDefault was accepted
	ninj    int             // injectors registered so far
	injErr  int             // index of the first registered injector that failed for the current request (-1: none)
	static  bool
}

func newProg() *prog {
	return &prog{
		dp:      dependency.NewProvider(app.DependencyTagName),
		classes: map[*Obj]int{},
		calls:   map[string]int{},
		built:   map[string]int{},
		nilSet:  map[string]bool{},
		injErr:  -1,
	}
}

func (p *prog) newObj() *Obj {
	p.serial++
	return &Obj{serial: p.serial}
}

func (p *prog) classOf(v interface{}) string {
	o, ok := v.(*Obj)
	if !ok || o == nil {
		return "foreign"
	}
	if k, ok := p.classes[o]; ok {
		return strconv.Itoa(k)
	}
	k := len(p.classes)
	p.classes[o] = k
	return strconv.Itoa(k)
}

var objPtrType = reflect.TypeOf((*Obj)(nil))
var oObjPtrType = reflect.TypeOf((*oObj)(nil))
var ifaceType = reflect.TypeOf((*interface{})(nil)).Elem()

// fieldSpec -> struct type { X int; F0 *Obj `dependency:"a"`; F1 interface{} `dependency:"?b"`; … }
func structFor(fields []depSpec) reflect.Value { return structForT(fields, false) }

func structForT(fields []depSpec, forOracle bool) reflect.Value {
	sf := []reflect.StructField{{Name: "X", Type: reflect.TypeOf(0)}}
	for i, f := range fields {
		tag := app.DependencyTagName + `:"` + f.rawTag() + `"`
		for _, kv := range f.extra {
			tag += " " + tagName(kv.tag) + `:"` + kv.raw + `"`
		}
		t := objPtrType
		if forOracle {
			t = oObjPtrType
		}
		if i%2 == 1 {
			t = ifaceType
		}
		sf = append(sf, reflect.StructField{
			Name: "F" + strconv.Itoa(i),
			Type: t,
			Tag:  reflect.StructTag(tag),
		})
	}
	ptr := reflect.New(reflect.StructOf(sf))
	// Every second target arrives PRE-FILLED: its tagged fields hold an object that does not come from the
	// container (an object built by hand, or injected earlier by another container).  InjectTo must replace
	// it by the container's instance wherever it resolves the field; a field still holding the foreign
	// object afterwards counts as untouched, exactly like a nil field.
	prefillCount++
	if prefillCount%2 == 0 {
		for i := range fields {
			f := ptr.Elem().Field(i + 1)
			switch {
			case f.Type() == oObjPtrType:
				f.Set(reflect.ValueOf(foreignOObj))
			default:
				f.Set(reflect.ValueOf(foreignObj))
			}
		}
	}
	return ptr
}

var (
	prefillCount int
	foreignObj   = &Obj{}
	foreignOObj  = &oObj{}
)

func fieldValue(ptr reflect.Value, i int) interface{} {
	f := ptr.Elem().Field(i + 1)
	if f.IsNil() {
		return nil
	}
	v := f.Interface()
	if v == interface{}(foreignObj) || v == interface{}(foreignOObj) {
		return nil // the pre-filled foreign object is still there: InjectTo did not touch the field
	}
	return v
}

var errFactory = errors.New("factory says no")

func (p *prog) factory(name string, spec facSpec) app.Factory {
	return func(dp app.DependencyProvider) (res interface{}, err error) {
		p.ran = append(p.ran, name)
		p.calls[name]++
		depth := p.depth
		p.depth++
		defer func() {
			p.depth = depth
			if depth == 0 {
				out := "ok"
				if err != nil {
					out = "failed"
				} else if res == nil {
					out = "nil"
				}
				p.top = append(p.top, topCall{name, out})
			}
		}()
		for i, d := range spec.deps {
			if !d.inject {
				if _, e := dp.Get(d.name); e != nil && !d.optional {
					return nil, e
				}
				continue
			}
			// one struct per InjectTo edge (the registered injectors run at the end of every InjectTo)
			if e := dp.InjectTo(structFor(spec.deps[i : i+1]).Interface()); e != nil {
				return nil, e
			}
		}
		switch spec.out {
		case "fail":
			return nil, errFactory
		case "nil":
			return nil, nil
		}
		p.built[name]++
		return p.newObj(), nil
	}
}

func parseDeps(s string, withVia bool) ([]depSpec, bool) {
	if s == "-" {
		return nil, true
	}
	var res []depSpec
	for _, it := range strings.Split(s, ",") {
		parts := strings.Split(it, ":")
		if (withVia && len(parts) != 3) || (!withVia && len(parts) < 2) {
			return nil, false
		}
		if !validTok(parts[0]) {
			return nil, false
		}
		d := depSpec{name: tokName(parts[0])}
		switch parts[1] {
		case "o":
			d.optional = true
		case "r":
		default:
			return nil, false
		}
		if withVia {
			switch parts[2] {
			case "i":
				d.inject = true
			case "g":
			default:
				return nil, false
			}
		} else {
			for _, x := range parts[2:] {
				kv := strings.Split(x, "=")
				if len(kv) != 2 || kv[1] == "" {
					return nil, false
				}
				t, err := strconv.Atoi(kv[0])
				if err != nil {
					return nil, false
				}
				d.extra = append(d.extra, tagKV{t, tokName(kv[1])})
			}
		}
		res = append(res, d)
	}
	return res, true
}

func join(l []string) string {
	if len(l) == 0 {
		return "-"
	}
	return strings.Join(l, ",")
}

func accepted(err error) string {
	if err != nil {
		return "refused"
	}
	return "ok"
}

// kind of the error a top-level request for `name` ended with: what did the provider do for it?
func (p *prog) kindFor(name string) string {
	for i := len(p.top) - 1; i >= 0; i-- {
		if p.top[i].name == name {
			return p.top[i].out
		}
	}
	return "missing"
}

// kind of the error an InjectTo from outside ended with (see the header: derived from what happened)
func (p *prog) injectKind(fields []depSpec, filled []bool) string {
	if p.injErr >= 0 {
		return "inj" + strconv.Itoa(p.injErr)
	}
	for i, f := range fields {
		name, optional, skip := parseTag(f.rawTag())
		if skip || filled[i] {
			continue
		}
		ran := false
		for j := len(p.top) - 1; j >= 0; j-- {
			if p.top[j].name == name {
				ran = true
				if !optional {
					return p.top[j].out
				}
				break
			}
		}
		if ran {
			continue
		}
		if p.nilSet[name] {
			return "nildep"
		}
		if !optional {
			return "missing"
		}
	}
	return "unknown"
}

func (p *prog) op(line string) string {
	f := strings.Split(line, " ")
	switch {
	case (f[0] == "set" || f[0] == "setdefault") && (len(f) == 2 || (len(f) == 3 && f[2] == "nil")) && validTok(f[1]):
		name := tokName(f[1])
		var v interface{}
		if len(f) == 2 {
			v = p.newObj()
		}
		var err error
		if f[0] == "set" {
			err = p.dp.Set(name, v)
		} else {
			err = p.dp.SetDefault(name, v)
		}
		if err == nil && v == nil {
			p.nilSet[name] = true
		}
		return accepted(err)
	case (f[0] == "factory" || f[0] == "deffactory") && len(f) == 4 && validTok(f[1]):
		deps, ok := parseDeps(f[2], true)
		if !ok || (f[3] != "ok" && f[3] != "fail" && f[3] != "nil") {
			return "bad-op"
		}
		name := tokName(f[1])
		fac := p.factory(name, facSpec{deps, f[3]})
		if f[0] == "factory" {
			return accepted(p.dp.AddFactory(name, fac))
		}
		return accepted(p.dp.AddDefaultFactory(name, fac))
	case f[0] == "addinjectors" && len(f) == 2:
		specs, ok := parseInjSpec(f[1])
		if !ok {
			return "bad-op"
		}
		var injs []app.Injector
		for i, sp := range specs {
			b := buildInj(sp, func() interface{} { return p.newObj() })
			injs = append(injs, recInjector{inner: b.real, idx: p.ninj + i, depth: &p.depth, first: &p.injErr})
		}
		err := p.dp.AddInjectors(injs)
		if err == nil {
			p.ninj += len(injs)
		}
		return accepted(err)
	case f[0] == "get" && len(f) == 2 && validTok(f[1]):
		name := tokName(f[1])
		p.ran, p.top, p.depth, p.injErr = nil, nil, 0, -1
		v, err := p.dp.Get(name)
		if err != nil {
			return fmt.Sprintf("err %s ran=%s", p.kindFor(name), join(nameToks(p.ran)))
		}
		if v == nil {
			return fmt.Sprintf("inst nil ran=%s", join(nameToks(p.ran)))
		}
		return fmt.Sprintf("inst %s ran=%s", p.classOf(v), join(nameToks(p.ran)))
	case f[0] == "inject" && len(f) == 2:
		fields, ok := parseDeps(f[1], false)
		if !ok {
			return "bad-op"
		}
		p.ran, p.top, p.depth, p.injErr = nil, nil, 0, -1
		ptr := structFor(fields)
		err := p.dp.InjectTo(ptr.Interface())
		vals := make([]string, len(fields))
		filled := make([]bool, len(fields))
		for i := range fields {
			if v := fieldValue(ptr, i); v != nil {
				vals[i] = p.classOf(v)
				filled[i] = true
			} else {
				vals[i] = "-"
			}
		}
		if err != nil {
			return fmt.Sprintf("err %s vals=%s ran=%s", p.injectKind(fields, filled), join(vals), join(nameToks(p.ran)))
		}
		return fmt.Sprintf("ok vals=%s ran=%s", join(vals), join(nameToks(p.ran)))
	case f[0] == "injectbad" && len(f) == 2:
		err := injectBad(p.dp, f[1])
		return fmt.Sprintf("no-panic err=%v", err != nil)
	case f[0] == "static" && len(f) == 1:
		p.dp = staticFrom(p.dp)
		p.static = true
		return "ok"
	case f[0] == "keys" && len(f) == 1:
		keys, err := p.dp.Keys()
		if err != nil {
			return "err"
		}
		keys = append([]string{}, keys...)
		if p.static {
			sort.Strings(keys) // NewStaticProvider fills keys from a range over a map
		}
		return "keys " + join(nameToks(keys))
	case f[0] == "calls" && len(f) == 1:
		var names []string
		for n := range p.calls {
			names = append(names, n)
		}
		sort.Strings(names)
		items := make([]string, len(names))
		for i, n := range names {
			items[i] = fmt.Sprintf("%s=%d", nameTok(n), p.calls[n])
		}
		return "calls " + join(items)
	}
	return "bad-op"
}

func drive() {
	in := bufio.NewScanner(os.Stdin)
	in.Buffer(make([]byte, 1<<20), 1<<26)
	w := bufio.NewWriterSize(os.Stdout, 1<<16)
	defer w.Flush()
	p := newProg()
	for in.Scan() {
		line := strings.TrimRight(in.Text(), "\r\n")
		if line == "" || strings.HasPrefix(line, "#") {
			continue
		}
		var res string
		hx.Progress()
		if line == "new" {
			w.Flush() // a crash (stack overflow is not recoverable) then loses at most the current program
			p = newProg()
			res = "ok"
		} else if panicked, _ := hx.Guard(func() { res = p.op(line) }); panicked {
			res = "panic"
		}
		fmt.Fprintln(w, res)
	}
}

// ---------------------------------------------------------------------------------- generator

func genDeps(r *hx.Rand, pool int, withVia bool) string {
	n := 0
	switch x := r.Intn(10); {
	case x < 2:
		n = 0
	case x < 6:
		n = 1
	case x < 9:
		n = 2
	default:
		n = 3
	}
	if n == 0 {
		return "-"
	}
	items := make([]string, n)
	for i := range items {
		// one name beyond the pool: a dependency nobody defines
		name := r.Intn(pool)
		if r.Chance(1, 8) {
			name = pool
		}
		o := "r"
		if r.Chance(40, 100) {
			o = "o"
		}
		items[i] = fmt.Sprintf("%d:%s", name, o)
		if withVia {
			v := "g"
			if r.Chance(40, 100) {
				v = "i"
			}
			items[i] += ":" + v
		}
	}
	return strings.Join(items, ",")
}

func genDef(r *hx.Rand, pool int) string {
	name := r.Intn(pool)
	switch x := r.Intn(100); {
	case x < 12:
		return fmt.Sprintf("set %d", name)
	case x < 24:
		return fmt.Sprintf("setdefault %d", name)
	default:
		out := "ok"
		if y := r.Intn(100); y < 11 {
			out = "fail"
		} else if y < 17 {
			out = "nil"
		}
		kw := "factory"
		if r.Chance(35, 100) {
			kw = "deffactory"
		}
		return fmt.Sprintf("%s %d %s %s", kw, name, genDeps(r, pool, true), out)
	}
}

func genReq(r *hx.Rand, pool int) string {
	switch x := r.Intn(100); {
	case x < 60:
		name := r.Intn(pool)
		if r.Chance(1, 8) {
			name = pool
		}
		return fmt.Sprintf("get %d", name)
	case x < 90:
		return "inject " + genDeps(r, pool, false)
	case x < 95:
		return "keys"
	default:
		return "calls"
	}
}

func genProgram(r *hx.Rand, w *bufio.Writer) {
	pool := 1 + r.Intn(6)
	fmt.Fprintln(w, "new")
	ndefs := pool - pool/3 + r.Intn(pool+3)
	for i := 0; i < ndefs; i++ {
		fmt.Fprintln(w, genDef(r, pool))
		if r.Chance(1, 40) { // an early request: everything after it must be refused
			fmt.Fprintln(w, genReq(r, pool))
		}
	}
	if r.Chance(1, 3) {
		fmt.Fprintln(w, "keys")
	}
	nreq := 1 + r.Intn(8)
	for i := 0; i < nreq; i++ {
		fmt.Fprintln(w, genReq(r, pool))
		if r.Chance(1, 6) { // a late definition
			fmt.Fprintln(w, genDef(r, pool))
		}
	}
	fmt.Fprintln(w, "keys")
	fmt.Fprintln(w, "calls")
}

func gen(n int) {
	r := hx.NewRand(hx.SeedFromEnv())
	w := bufio.NewWriterSize(os.Stdout, 1<<16)
	defer w.Flush()
	for i := 0; i < n; i++ {
		genProgram(r, w)
	}
}

// enum3: every assignment, to each of the names 0 1 2, of one of
// {undefined, instance, factory with each of 0 1 2 absent/required/optional and outcome ok/fail/nil};
// definition kind (explicit/default) and edge kind (Get/InjectTo) vary deterministically with the
// index so that all code paths occur; each program requests every name twice.
func enum3(shard, shards int) {
	w := bufio.NewWriterSize(os.Stdout, 1<<16)
	defer w.Flush()
	const per = 2 + 27*3
	total := per * per * per
	for idx := shard; idx < total; idx += shards {
		fmt.Fprintln(w, "new")
		code := idx
		for name := 0; name < 3; name++ {
			c := code % per
			code /= per
			switch {
			case c == 0:
			case c == 1:
				if (idx+name)%3 == 0 {
					fmt.Fprintf(w, "setdefault %d\n", name)
				} else {
					fmt.Fprintf(w, "set %d\n", name)
				}
			default:
				c -= 2
				out := []string{"ok", "fail", "nil"}[c%3]
				c /= 3
				var deps []string
				for t := 0; t < 3; t++ {
					e := c % 3
					c /= 3
					if e == 0 {
						continue
					}
					via := "g"
					if (idx+name+t)%2 == 1 {
						via = "i"
					}
					deps = append(deps, fmt.Sprintf("%d:%s:%s", t, []string{"", "r", "o"}[e], via))
				}
				kw := "factory"
				if (idx/7+name)%4 == 0 {
					kw = "deffactory"
				}
				fmt.Fprintf(w, "%s %d %s %s\n", kw, name, join(deps), out)
			}
		}
		first := idx % 3
		for k := 0; k < 3; k++ {
			fmt.Fprintf(w, "get %d\n", (first+k)%3)
		}
		fmt.Fprintln(w, "inject 0:o,1:o,2:o")
		fmt.Fprintln(w, "calls")
	}
}

func main() {
	if len(os.Args) < 2 {
		fmt.Fprintln(os.Stderr, "usage: di drive | gen <n> | genx <n> | enum3 <k> <m> | enumx <k> <m> | oracle <n> | judge")
		os.Exit(2)
	}
	arg := func(i int) int {
		if len(os.Args) <= i {
			return 0
		}
		n, _ := strconv.Atoi(os.Args[i])
		return n
	}
	debug.SetMaxStack(512 << 20) // unbounded recursion ends in seconds, legitimate deep chains still fit
	if os.Args[1] == "drive" || os.Args[1] == "oracle" || os.Args[1] == "judge" {
		hx.StartWatchdog(30*time.Second, nil)
	}
	switch os.Args[1] {
	case "drive":
		drive()
	case "gen":
		gen(arg(2))
	case "enum3":
		enum3(arg(2), arg(3))
	case "genx":
		genx(arg(2))
	case "enumx":
		enumx(arg(2), arg(3))
	case "oracle":
		oracle(arg(2))
	case "judge":
		judgeStdin()
	default:
		os.Exit(2)
	}
}
