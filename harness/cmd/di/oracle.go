package main

// The property's own clauses evaluated on the real provider, without the Lean model.  Expected
// answers are known by construction (which object must come back, which calls must be refused) or
// come from a twenty-line reference reading of the statement: the definition in force for a name is
// its first explicit one, else its first default one; a name is `good` when that definition is an
// instance or a factory that returns an object and whose required dependencies are all good (and
// whose InjectTo edges name no nil object and are accepted by the registered injectors).  A tag is
// read as: empty = skip, one leading `?` = optional; InjectTo fills the provider's tags first and then
// runs the registered injectors in registration order, each over its own tag name.
//
// Output: `FAIL <clause> <detail> :: <op>;<op>;…` (the op list replays through drive/m_di) and a
// final `oracle cases=… fails=… <clause>=<evaluations>…` line.

import (
	"bufio"
	"fmt"
	"os"
	"sort"
	"strconv"
	"strings"

	"gcverif/internal/hx"

	"github.com/goatcms/goatcore/app"
	"github.com/goatcms/goatcore/app/dependency"
	"github.com/goatcms/goatcore/app/injector"
)

type odef struct {
	kind  string // set | setdefault | factory | deffactory
	name  string
	isNil bool // Set(name, nil) / SetDefault(name, nil)
	spec  facSpec
}

func (d odef) line() string {
	switch d.kind {
	case "set", "setdefault":
		if d.isNil {
			return d.kind + " " + nameTok(d.name) + " nil"
		}
		return d.kind + " " + nameTok(d.name)
	}
	items := make([]string, len(d.spec.deps))
	for i, e := range d.spec.deps {
		o, v := "r", "g"
		if e.optional {
			o = "o"
		}
		if e.inject {
			v = "i"
		}
		items[i] = nameTok(e.name) + ":" + o + ":" + v
	}
	return fmt.Sprintf("%s %s %s %s", d.kind, nameTok(d.name), join(items), d.spec.out)
}

// the name an edge of a factory asks the provider for, whether it tolerates a failure, and whether it
// asks for nothing (an InjectTo edge with an empty tag)
func (e depSpec) eff() (name string, optional, skip bool) {
	if !e.inject {
		return e.name, e.optional, false
	}
	return parseTag(e.rawTag())
}

func (d odef) explicit() bool { return d.kind == "set" || d.kind == "factory" }

// oObj remembers which definition produced it.
type oObj struct {
	origin int
	serial int
}

type ocase struct {
	defs    []odef
	dp      app.DependencyProvider
	calls   map[string]int
	built   map[string]int
	ran     []string
	serial  int
	setObjs map[int]*oObj
	regs    []builtInj // the registered injectors (with the data they were built from)
}

func (c *ocase) newInjObj() interface{} {
	c.serial++
	return &oObj{origin: -3, serial: c.serial}
}

func (c *ocase) factory(idx int) app.Factory {
	d := c.defs[idx]
	return func(dp app.DependencyProvider) (interface{}, error) {
		c.calls[d.name]++
		c.ran = append(c.ran, d.name)
		for i, e := range d.spec.deps {
			if !e.inject {
				if _, err := dp.Get(e.name); err != nil && !e.optional {
					return nil, err
				}
				continue
			}
			if err := dp.InjectTo(structForT(d.spec.deps[i:i+1], true).Interface()); err != nil {
				return nil, err
			}
		}
		switch d.spec.out {
		case "fail":
			return nil, errFactory
		case "nil":
			return nil, nil
		}
		c.built[d.name]++
		c.serial++
		return &oObj{origin: idx, serial: c.serial}, nil
	}
}

// build a fresh provider with the definitions applied in order; returns which were accepted
func build(defs []odef, injs ...[]injSpec) (*ocase, []bool) {
	c := &ocase{defs: defs, dp: dependency.NewProvider(app.DependencyTagName),
		calls: map[string]int{}, built: map[string]int{}, setObjs: map[int]*oObj{}}
	for _, specs := range injs {
		var reals []app.Injector
		for _, sp := range specs {
			b := buildInj(sp, c.newInjObj)
			c.regs = append(c.regs, b)
			reals = append(reals, b.real)
		}
		c.dp.AddInjectors(reals)
	}
	acc := make([]bool, len(defs))
	for i, d := range defs {
		var err error
		switch d.kind {
		case "set", "setdefault":
			var v interface{}
			if !d.isNil {
				c.serial++
				o := &oObj{origin: i, serial: c.serial}
				c.setObjs[i] = o
				v = o
			}
			if d.kind == "set" {
				err = c.dp.Set(d.name, v)
			} else {
				err = c.dp.SetDefault(d.name, v)
			}
		case "factory":
			err = c.dp.AddFactory(d.name, c.factory(i))
		case "deffactory":
			err = c.dp.AddDefaultFactory(d.name, c.factory(i))
		}
		acc[i] = err == nil
	}
	return c, acc
}

// inForce: index of the definition the statement says is used for name (-1: none)
func inForce(defs []odef, name string) int {
	first := -1
	for i, d := range defs {
		if d.name != name {
			continue
		}
		if d.explicit() {
			return i
		}
		if first < 0 {
			first = i
		}
	}
	return first
}

// is the definition in force for name a nil object?
func nilInForce(defs []odef, name string) bool {
	i := inForce(defs, name)
	return i >= 0 && defs[i].isNil && (defs[i].kind == "set" || defs[i].kind == "setdefault")
}

// the raw text a field carries for tag number t
func rawFor(f depSpec, t int) string {
	if t == 0 {
		return f.rawTag()
	}
	for _, kv := range f.extra {
		if kv.tag == t {
			return kv.raw
		}
	}
	return ""
}

// Reference reading of one injector on a struct with these fields: a map / data-scope injector visits
// the fields in order, reads ITS tag, stores its value, and fails on a required field it has no value
// for (a nil value: the map injector fails, the data-scope injector has no value); a multi injector
// runs its members in order and stops at the first failure.  vals is updated in place.
func refRun(b builtInj, fields []depSpec, vals []interface{}) bool {
	switch b.kind {
	case '[':
		for _, s := range b.sub {
			if refRun(s, fields, vals) {
				return true
			}
		}
	case 'm', 's':
		for i, f := range fields {
			key, optional, skip := parseTag(rawFor(f, b.tag))
			if skip {
				continue
			}
			v, ok := b.data.vals[key]
			if !ok || (b.kind == 's' && v == nil) {
				if optional {
					continue
				}
				return true
			}
			if v == nil {
				return true
			}
			vals[i] = v
		}
	}
	return false
}

// the registered injectors in registration order; index of the first that fails (-1: none)
func refInjectors(regs []builtInj, fields []depSpec, vals []interface{}) int {
	for k, b := range regs {
		if refRun(b, fields, vals) {
			return k
		}
	}
	return -1
}

func goodSet(defs []odef, names []string, regs []builtInj) map[string]bool {
	good := map[string]bool{}
	for changed := true; changed; {
		changed = false
		for _, n := range names {
			if good[n] {
				continue
			}
			i := inForce(defs, n)
			if i < 0 {
				continue
			}
			d := defs[i]
			ok := true
			if d.kind == "factory" || d.kind == "deffactory" {
				ok = d.spec.out == "ok"
				for _, e := range d.spec.deps {
					name, optional, skip := e.eff()
					if !skip && !optional && !good[name] {
						ok = false
					}
					if e.inject {
						// InjectTo refuses a nil object (for an optional field too) and runs the registered injectors
						if !skip && nilInForce(defs, name) {
							ok = false
						}
						if refInjectors(regs, []depSpec{{name: e.name, optional: e.optional}}, make([]interface{}, 1)) >= 0 {
							ok = false
						}
					}
				}
			}
			if ok {
				good[n] = true
				changed = true
			}
		}
	}
	return good
}

func reach(defs []odef, from []string) map[string]bool {
	seen := map[string]bool{}
	var walk func(n string)
	walk = func(n string) {
		if seen[n] {
			return
		}
		seen[n] = true
		if i := inForce(defs, n); i >= 0 {
			for _, e := range defs[i].spec.deps {
				if name, _, skip := e.eff(); !skip {
					walk(name)
				}
			}
		}
	}
	for _, n := range from {
		walk(n)
	}
	return seen
}

type oracleRun struct {
	w     *bufio.Writer
	cases int
	fails int
	evals map[string]int
}

func (o *oracleRun) fail(clause, detail string, ops []string) {
	o.fails++
	if o.fails <= 40 {
		fmt.Fprintf(o.w, "FAIL %s %s :: %s\n", clause, detail, strings.Join(ops, ";"))
		o.w.Flush()
	}
}

func parseDefLine(line string) (odef, bool) {
	f := strings.Split(line, " ")
	switch {
	case (f[0] == "set" || f[0] == "setdefault") && (len(f) == 2 || (len(f) == 3 && f[2] == "nil")) && validTok(f[1]):
		return odef{kind: f[0], name: tokName(f[1]), isNil: len(f) == 3}, true
	case (f[0] == "factory" || f[0] == "deffactory") && len(f) == 4 && validTok(f[1]):
		deps, ok := parseDeps(f[2], true)
		return odef{kind: f[0], name: tokName(f[1]), spec: facSpec{deps, f[3]}}, ok
	}
	return odef{}, false
}

// judge runs one program (protocol lines, first line `new`) on the real provider and evaluates every
// clause of the property on what it observes.  Definitions and injectors count until the first
// resolution (or until the provider is replaced by a static one); the expected answers come from the
// reference reading of the statement only.
func (o *oracleRun) judge(lines []string) {
	o.cases++
	hx.Progress()
	var defs []odef
	var injSpecs [][]injSpec
	c := &ocase{dp: dependency.NewProvider(app.DependencyTagName), calls: map[string]int{}, built: map[string]int{},
		setObjs: map[int]*oObj{}}
	nameSet := map[string]bool{}
	note := func(n string) { nameSet[n] = true }
	var ops []string
	blocked := false
	static := false
	var keysBefore []string
	var good map[string]bool
	firstVal := map[string]interface{}{}
	hasVal := map[string]bool{}
	freeze := func() {
		if blocked {
			return
		}
		blocked = true
		o.evals["lazy"]++
		for n, k := range c.calls {
			if k != 0 {
				o.fail("lazy", fmt.Sprintf("factory of %s ran %d times before any request", nameTok(n), k), ops)
			}
		}
		keys, _ := c.dp.Keys()
		keysBefore = append([]string{}, keys...)
	}
	allNames := func(extra ...string) []string {
		all := append([]string{}, extra...)
		for n := range nameSet {
			all = append(all, n)
		}
		for _, d := range defs {
			all = append(all, d.name)
		}
		return all
	}
	isG := func(n string) bool {
		if good == nil {
			good = goodSet(defs, allNames(), c.regs)
		}
		if v, ok := good[n]; ok {
			return v
		}
		return goodSet(defs, allNames(n), c.regs)[n] // a name first mentioned after the set was computed
	}
	observe := func(name string, v interface{}) {
		o.evals["singleton"]++
		if hasVal[name] {
			if firstVal[name] != v {
				o.fail("singleton", "a later request for "+nameTok(name)+" returned a different object", ops)
			}
		} else {
			hasVal[name] = true
			firstVal[name] = v
		}
		o.evals["explicit_wins"]++
		want := inForce(defs, name)
		if want >= 0 && nilInForce(defs, name) {
			o.evals["nil_definition"]++
			if v != nil {
				o.fail("explicit_wins", nameTok(name)+" is defined as nil but an object came back", ops)
			}
			return
		}
		ob, isObj := v.(*oObj)
		if !isObj || ob == nil || ob.origin != want {
			got := -1
			if isObj && ob != nil {
				got = ob.origin
			}
			o.fail("explicit_wins", fmt.Sprintf("%s resolved through definition #%d, the definition in force is #%d", nameTok(name), got, want), ops)
		} else if so, ok := c.setObjs[want]; ok && so != ob {
			o.fail("explicit_wins", nameTok(name)+" is not the object that was registered", ops)
		}
	}
	for _, line := range lines {
		if line == "new" || line == "calls" {
			ops = append(ops, line)
			continue
		}
		ops = append(ops, line)
		f := strings.Split(line, " ")
		if f[0] == "addinjectors" && len(f) == 2 {
			specs, ok := parseInjSpec(f[1])
			if !ok {
				continue
			}
			var reals []app.Injector
			var built []builtInj
			for _, sp := range specs {
				b := buildInj(sp, c.newInjObj)
				built = append(built, b)
				reals = append(reals, b.real)
			}
			err := c.dp.AddInjectors(reals)
			if blocked {
				o.evals["frozen_after_first_use"]++
				if err == nil {
					o.fail("frozen_after_first_use", "AddInjectors accepted after the first resolution: "+line, ops)
				}
			} else if err != nil {
				o.fail("injectors", "AddInjectors refused before any resolution", ops)
			} else {
				c.regs = append(c.regs, built...)
				injSpecs = append(injSpecs, specs)
			}
			continue
		}
		if f[0] == "static" && len(f) == 1 {
			freeze()
			c.dp = staticFrom(c.dp)
			static = true
			keys, _ := c.dp.Keys()
			keysBefore = append([]string{}, keys...)
			continue
		}
		if f[0] == "injectbad" && len(f) == 2 {
			hx.Guard(func() { injectBad(c.dp, f[1]) })
			continue
		}
		if d, ok := parseDefLine(line); ok {
			note(d.name)
			for _, e := range d.spec.deps {
				note(e.name)
				if n, _, skip := e.eff(); !skip {
					note(n)
				}
			}
			idx := len(defs)
			if blocked {
				idx = 0
			}
			var fac app.Factory
			if d.kind == "factory" || d.kind == "deffactory" {
				if blocked {
					fac = (&ocase{defs: []odef{d}, calls: map[string]int{}, built: map[string]int{}}).factory(0)
				} else {
					defs = append(defs, d)
					c.defs = defs
					fac = c.factory(idx)
				}
			} else if !blocked {
				defs = append(defs, d)
				c.defs = defs
			}
			var err error
			var val interface{}
			if !d.isNil {
				c.serial++
				obj := &oObj{origin: idx, serial: c.serial}
				if blocked {
					obj.origin = -2
				} else if d.kind == "set" || d.kind == "setdefault" {
					c.setObjs[idx] = obj
				}
				val = obj
			}
			switch d.kind {
			case "set":
				err = c.dp.Set(d.name, val)
			case "setdefault":
				err = c.dp.SetDefault(d.name, val)
			case "factory":
				err = c.dp.AddFactory(d.name, fac)
			case "deffactory":
				err = c.dp.AddDefaultFactory(d.name, fac)
			}
			if blocked {
				o.evals["frozen_after_first_use"]++
				if err == nil {
					o.fail("frozen_after_first_use", "accepted after the first resolution: "+line, ops)
				}
				if err2 := c.dp.AddInjectors([]app.Injector{injector.NewNilInjector()}); err2 == nil {
					o.fail("frozen_after_first_use", "AddInjectors accepted after the first resolution", ops)
				}
			}
			continue
		}
		if f[0] == "keys" {
			if blocked {
				o.evals["frozen_after_first_use"]++
				if keys, _ := c.dp.Keys(); strings.Join(keys, ",") != strings.Join(keysBefore, ",") {
					o.fail("frozen_after_first_use", "Keys changed after the first resolution", ops)
				}
			}
			continue
		}
		var q oreq
		if f[0] == "get" && len(f) == 2 && validTok(f[1]) {
			q.get, q.isGet = tokName(f[1]), true
		} else if f[0] == "inject" && len(f) == 2 {
			q.fields, _ = parseDeps(f[1], false)
			if q.fields == nil {
				q.fields = []depSpec{}
			}
		} else {
			continue
		}
		for _, n := range q.names() {
			note(n)
		}
		if q.resolves() {
			freeze()
			if good == nil {
				good = goodSet(defs, allNames(), c.regs)
			}
		}
		before := map[string]int{}
		for n, v := range c.calls {
			before[n] = v
		}
		hadInstance := map[string]bool{}
		for n := range hasVal {
			hadInstance[n] = true
		}
		c.ran = nil
		var panicked bool
		if static {
			o.evals["static_provider"]++
		}
		if q.isGet {
			var v interface{}
			var err error
			panicked, _ = hx.Guard(func() { v, err = c.dp.Get(q.get) })
			if !panicked {
				o.evals["outcome_history_independent"]++
				if g := isG(q.get); (err == nil) != g {
					o.fail("outcome_history_independent", fmt.Sprintf("Get %s ok=%v but good=%v", nameTok(q.get), err == nil, g), ops)
				}
				if err == nil {
					observe(q.get, v)
				}
			}
		} else {
			ptr := structForT(q.fields, true)
			var err error
			panicked, _ = hx.Guard(func() { err = c.dp.InjectTo(ptr.Interface()) })
			if !panicked {
				// the provider's own loop, by the reference reading
				n := len(q.fields)
				own := make([]bool, n) // the provider stores the singleton here
				stopped := false
				for i, fl := range q.fields {
					name, optional, skip := parseTag(fl.rawTag())
					if skip {
						continue
					}
					g := isG(name)
					if g && nilInForce(defs, name) {
						o.evals["nil_definition"]++
						stopped = true // a nil object is refused, for an optional field too
						break
					}
					if g {
						own[i] = true
						continue
					}
					if !optional {
						stopped = true
						break
					}
				}
				// then the registered injectors, in registration order
				inj := make([]interface{}, n)
				failedInj := -1
				if !stopped {
					failedInj = refInjectors(c.regs, q.fields, inj)
				}
				for i, fl := range q.fields {
					v := fieldValue(ptr, i)
					name, _, _ := parseTag(fl.rawTag())
					switch {
					case inj[i] != nil:
						o.evals["extra_injector_order"]++
						if v != inj[i] {
							o.fail("extra_injector_order", fmt.Sprintf("field %d does not hold the value of the last registered injector that has one", i), ops)
						}
					case own[i]:
						o.evals["outcome_history_independent"]++
						if v == nil {
							o.fail("outcome_history_independent", fmt.Sprintf("field %d (%s) left empty but the dependency is good", i, nameTok(name)), ops)
						} else {
							observe(name, v)
						}
					default:
						o.evals["outcome_history_independent"]++
						if v != nil {
							if stopped {
								o.fail("inject_error", fmt.Sprintf("field %d was set although it is not resolvable or lies behind the failing field", i), ops)
							} else {
								o.fail("outcome_history_independent", fmt.Sprintf("field %d (%s) set but the dependency is not good", i, nameTok(name)), ops)
							}
						}
					}
				}
				if (stopped || failedInj >= 0) != (err != nil) {
					o.fail("inject_error", fmt.Sprintf("InjectTo error=%v but the reference says own-loop-failed=%v failing-injector=%d", err != nil, stopped, failedInj), ops)
				}
			}
		}
		if panicked {
			o.fail("panic", "request panicked", ops)
			return
		}
		o.evals["lazy"]++
		rs := reach(defs, q.names())
		for _, n := range c.ran {
			if !rs[n] {
				o.fail("lazy", "factory of "+nameTok(n)+" ran although nothing requested depends on it", ops)
			}
		}
		for n := range c.calls {
			o.evals["never_rerun_after_instance"]++
			if hadInstance[n] && c.calls[n] != before[n] {
				o.fail("never_rerun_after_instance", "factory of "+nameTok(n)+" ran again after it had produced an instance", ops)
			}
			if c.built[n] > 1 {
				o.fail("at_most_one_success", fmt.Sprintf("factory of %s succeeded %d times", nameTok(n), c.built[n]), ops)
			}
		}
	}
	if !blocked {
		return
	}
	// after that history every name answers as in a fresh container with the same definitions
	names := []string{}
	for n := range nameSet {
		names = append(names, n)
	}
	sort.Strings(names)
	for _, n := range names {
		o.evals["fresh_container_equivalence"]++
		_, errA := c.dp.Get(n)
		fresh, _ := build(defs, injSpecs...)
		_, errB := fresh.dp.Get(n)
		if (errA == nil) != (errB == nil) {
			o.fail("fresh_container_equivalence", fmt.Sprintf("Get %s after the history ok=%v, in a fresh container ok=%v", nameTok(n), errA == nil, errB == nil),
				append(append([]string{}, ops...), "get "+nameTok(n)))
		}
		if (errB == nil) != isG(n) {
			fr := []string{"new"}
			for _, l := range ops {
				if strings.HasPrefix(l, "addinjectors ") {
					fr = append(fr, l)
				}
			}
			for _, d := range defs {
				fr = append(fr, d.line())
			}
			o.fail("outcome_history_independent", fmt.Sprintf("fresh container: Get %s ok=%v", nameTok(n), errB == nil), append(fr, "get "+nameTok(n)))
		}
	}
}

type oreq struct {
	get    string
	isGet  bool
	fields []depSpec
}

// the names the request asks the provider for
func (q oreq) names() []string {
	if q.isGet {
		return []string{q.get}
	}
	res := []string{}
	for _, f := range q.fields {
		if n, _, skip := parseTag(f.rawTag()); !skip {
			res = append(res, n)
		}
	}
	return res
}

// does the request reach Get (and so block the provider)?
func (q oreq) resolves() bool { return q.isGet || len(q.names()) > 0 }

func (o *oracleRun) randomCase(r *hx.Rand) {
	var sb strings.Builder
	w := bufio.NewWriter(&sb)
	genProgram(r, w)
	w.Flush()
	o.judge(strings.Split(strings.TrimSpace(sb.String()), "\n"))
}

func (o *oracleRun) extCase(r *hx.Rand) {
	var sb strings.Builder
	w := bufio.NewWriter(&sb)
	genProgramExt(r, w)
	w.Flush()
	o.judge(strings.Split(strings.TrimSpace(sb.String()), "\n"))
}

// static_provider_agrees on the implementation alone: the same program on two providers, one of which
// is replaced by NewStaticProvider (built from its own tables) at some point while the other is only
// blocked there; every later answer - refusals, instances by identity class, injected structs, error
// kinds, the factories each request ran, the invocation counters - must be the same (Keys excepted).
func (o *oracleRun) staticTwin(r *hx.Rand) {
	var sb strings.Builder
	w := bufio.NewWriter(&sb)
	genProgramExt(r, w)
	w.Flush()
	lines := strings.Split(strings.TrimSpace(sb.String()), "\n")
	at := 1 + r.Intn(len(lines))
	lines = append(lines[:at], append([]string{"static"}, lines[at:]...)...)
	o.cases++
	hx.Progress()
	a, b := newProg(), newProg()
	for i, line := range lines {
		if i == 0 {
			continue
		}
		if line == "static" {
			a.dp.(*dependency.Provider).Block()
			b.op(line)
			continue
		}
		var ra, rb string
		if p, _ := hx.Guard(func() { ra = a.op(line) }); p {
			ra = "panic"
		}
		if p, _ := hx.Guard(func() { rb = b.op(line) }); p {
			rb = "panic"
		}
		if line == "keys" {
			continue
		}
		o.evals["static_provider_agrees"]++
		if ra != rb {
			o.fail("static_provider_agrees", fmt.Sprintf("`%s`: the provider answers `%s`, its static twin `%s`", line, ra, rb), lines[:i+1])
			return
		}
	}
}

// judge mode: programs on stdin, FAIL lines or `judge ok` on stdout
func judgeStdin() {
	w := bufio.NewWriterSize(os.Stdout, 1<<16)
	defer w.Flush()
	o := &oracleRun{w: w, evals: map[string]int{}}
	in := bufio.NewScanner(os.Stdin)
	in.Buffer(make([]byte, 1<<20), 1<<26)
	var cur []string
	flush := func() {
		if len(cur) > 0 {
			o.judge(cur)
		}
		cur = nil
	}
	for in.Scan() {
		line := strings.TrimRight(in.Text(), "\r\n")
		if line == "" || strings.HasPrefix(line, "#") {
			continue
		}
		if line == "new" {
			flush()
		}
		cur = append(cur, line)
	}
	flush()
	fmt.Fprintf(w, "judge cases=%d fails=%d\n", o.cases, o.fails)
}

func permutations(xs []string) [][]string {
	if len(xs) <= 1 {
		return [][]string{append([]string{}, xs...)}
	}
	var res [][]string
	for i := range xs {
		rest := append(append([]string{}, xs[:i]...), xs[i+1:]...)
		for _, p := range permutations(rest) {
			res = append(res, append([]string{xs[i]}, p...))
		}
	}
	return res
}

// every order of every non-empty subset of the four definition kinds on one name
func (o *oracleRun) precedence() {
	kinds := []string{"set", "setdefault", "factory", "deffactory"}
	for mask := 1; mask < 16; mask++ {
		var sub []string
		for i, k := range kinds {
			if mask&(1<<i) != 0 {
				sub = append(sub, k)
			}
		}
		for _, perm := range permutations(sub) {
			o.cases++
			o.evals["explicit_wins_orders"]++
			defs := []odef{{kind: "factory", name: "9", spec: facSpec{out: "ok"}}}
			for _, k := range perm {
				defs = append(defs, odef{kind: k, name: "0", spec: facSpec{deps: []depSpec{{name: "9"}}, out: "ok"}})
			}
			ops := []string{"new"}
			for _, d := range defs {
				ops = append(ops, d.line())
			}
			ops = append(ops, "get 0")
			c, _ := build(defs)
			v, err := c.dp.Get("0")
			want := inForce(defs, "0")
			ob, _ := v.(*oObj)
			if err != nil || ob == nil || ob.origin != want {
				o.fail("explicit_wins", fmt.Sprintf("order %v: expected the object of definition #%d (%s)", perm, want, defs[want].kind), ops)
				continue
			}
			if so, ok := c.setObjs[want]; ok && so != ob {
				o.fail("explicit_wins", fmt.Sprintf("order %v: not the registered object", perm), ops)
			}
			v2, err2 := c.dp.Get("0")
			if err2 != nil || v2 != v {
				o.fail("singleton", fmt.Sprintf("order %v: second Get differs", perm), append(ops, "get 0"))
			}
		}
	}
}

// required cycles of every length up to maxLen, entered directly, through a required chain and
// through an optional edge; a long acyclic chain for contrast
func (o *oracleRun) cycles(maxLen int) {
	for k := 1; k <= maxLen; k++ {
		hx.Progress()
		o.cases++
		o.evals["cycle_is_error"]++
		fmt.Fprintf(o.w, "case cycle len=%d\n", k)
		o.w.Flush()
		var defs []odef
		for i := 0; i < k; i++ {
			defs = append(defs, odef{kind: []string{"factory", "deffactory"}[i%2], name: strconv.Itoa(i),
				spec: facSpec{deps: []depSpec{{name: strconv.Itoa((i + 1) % k), inject: i%3 == 0}}, out: "ok"}})
		}
		entryReq, entryOpt, plain := strconv.Itoa(k), strconv.Itoa(k+1), strconv.Itoa(k+2)
		defs = append(defs,
			odef{kind: "factory", name: entryReq, spec: facSpec{deps: []depSpec{{name: "0"}}, out: "ok"}},
			odef{kind: "factory", name: entryOpt, spec: facSpec{deps: []depSpec{{name: "0", optional: true}, {name: plain}}, out: "ok"}},
			odef{kind: "factory", name: plain, spec: facSpec{out: "ok"}})
		ops := []string{"new"}
		for _, d := range defs {
			ops = append(ops, d.line())
		}
		c, _ := build(defs)
		probe := []int{0, k / 2, k - 1}
		for _, i := range probe {
			n := strconv.Itoa(i)
			var err error
			if p, _ := hx.Guard(func() { _, err = c.dp.Get(n) }); p || err == nil {
				o.fail("cycle_is_error", fmt.Sprintf("Get %s on a required %d-cycle: panic=%v err=%v", n, k, p, err != nil), append(ops, "get "+n))
			}
		}
		if _, err := c.dp.Get(entryReq); err == nil {
			o.fail("cycle_is_error", "a name that requires a cycle member resolved", append(ops, "get "+entryReq))
		}
		if _, err := c.dp.Get(entryOpt); err != nil {
			o.fail("outcome_history_independent", "a name with only an optional edge into the cycle failed (after failed requests)", append(ops, "get "+entryOpt))
		}
		for n, cnt := range c.calls {
			i, _ := strconv.Atoi(n)
			if i < k && cnt > 8 {
				o.fail("cycle_is_error", fmt.Sprintf("factory of %s ran %d times for five requests", n, cnt), ops)
			}
		}
	}
	// acyclic chain: deep recursion is legitimate and must resolve
	o.cases++
	o.evals["deep_chain"]++
	depth := 4 * maxLen
	var defs []odef
	for i := 0; i < depth; i++ {
		sp := facSpec{out: "ok"}
		if i+1 < depth {
			sp.deps = []depSpec{{name: strconv.Itoa(i + 1), inject: i%2 == 0}}
		}
		defs = append(defs, odef{kind: "factory", name: strconv.Itoa(i), spec: sp})
	}
	c, _ := build(defs)
	if _, err := c.dp.Get("0"); err != nil {
		o.fail("outcome_history_independent", fmt.Sprintf("acyclic chain of %d did not resolve", depth), nil)
	}
	for n, cnt := range c.calls {
		if cnt != 1 {
			o.fail("at_most_one_success", fmt.Sprintf("chain: factory of %s ran %d times", n, cnt), nil)
		}
	}
}

// the extra injectors of InjectTo run after the tagged fields and are frozen with the definitions
func (o *oracleRun) injectors() {
	o.cases++
	o.evals["injectors"]++
	dp := dependency.NewProvider(app.DependencyTagName)
	if err := dp.AddInjectors([]app.Injector{injector.NewMultiInjector([]app.Injector{
		injector.NewMapInjector("other", map[string]interface{}{"k": "v"}), injector.NewNilInjector()})}); err != nil {
		o.fail("injectors", "AddInjectors refused on a new provider", nil)
	}
	obj := &oObj{origin: 0}
	dp.Set("a", obj)
	target := &struct {
		A *oObj  `dependency:"a"`
		B *oObj  `dependency:"?b"`
		K string `other:"k"`
	}{}
	if err := dp.InjectTo(target); err != nil || target.A != obj || target.B != nil || target.K != "v" {
		o.fail("injectors", "tagged fields then extra injectors", nil)
	}
	if err := dp.AddInjectors(nil); err == nil {
		o.fail("frozen_after_first_use", "AddInjectors accepted after InjectTo", nil)
	}
}

func oracle(n int) {
	w := bufio.NewWriterSize(os.Stdout, 1<<16)
	defer w.Flush()
	o := &oracleRun{w: w, evals: map[string]int{}}
	r := hx.NewRand(hx.SeedFromEnv() ^ 0x5eed0c10)
	o.precedence()
	o.sameTypeName()
	o.injectors()
	maxLen := 60
	if n >= 100000 {
		maxLen = 2000
	}
	o.cycles(maxLen)
	for i := 0; i < n; i++ {
		hx.Progress()
		o.randomCase(r)
	}
	// the extended operation set: an additional stream
	rx := hx.NewRand(hx.SeedFromEnv() ^ 0x5eed0c1e)
	for i := 0; i < n/2; i++ {
		hx.Progress()
		o.extCase(rx)
	}
	for i := 0; i < n/4; i++ {
		o.staticTwin(rx)
	}
	keys := make([]string, 0, len(o.evals))
	for k := range o.evals {
		keys = append(keys, k)
	}
	sort.Strings(keys)
	fmt.Fprintf(w, "oracle cases=%d fails=%d", o.cases, o.fails)
	for _, k := range keys {
		fmt.Fprintf(w, " %s=%d", k, o.evals[k])
	}
	fmt.Fprintln(w)
}
