package main

import (
	"fmt"

	"gcverif/internal/hx"

	"github.com/goatcms/goatcore/app"
	"github.com/goatcms/goatcore/app/dependency"
)

// Two DISTINCT struct types whose reflect String() coincides: a type declared locally in two functions
// under the same name (the idiom `var deps struct{…}` / `type deps struct{…}` inside a function is how
// goatcore's own modules declare injection targets).  Injection is by type identity, not by type name:
// each target must receive the instances its own tags name.

func sameNameTargetA(dp app.DependencyProvider) (got interface{}, err error) {
	type deps struct {
		X *oObj `dependency:"mailer"`
	}
	var d deps
	err = dp.InjectTo(&d)
	return d.X, err
}

func sameNameTargetB(dp app.DependencyProvider) (got interface{}, err error) {
	type deps struct {
		X *oObj `dependency:"logger"`
	}
	var d deps
	err = dp.InjectTo(&d)
	return d.X, err
}

func sameNameTargetC(dp app.DependencyProvider) (n int, err error) {
	type deps struct {
		Y int
	}
	var d deps
	err = dp.InjectTo(&d)
	return d.Y, err
}

// sameTypeName: one provider, targets of equally named local types in every order.
func (o *oracleRun) sameTypeName() {
	for order := 0; order < 6; order++ {
		o.cases++
		o.evals["inject_by_type_identity"]++
		dp := dependency.NewProvider(app.DependencyTagName)
		mailer, logger := &oObj{origin: 1}, &oObj{origin: 2}
		runs := map[string]int{}
		dp.AddFactory("mailer", func(app.DependencyProvider) (interface{}, error) { runs["mailer"]++; return mailer, nil })
		dp.AddFactory("logger", func(app.DependencyProvider) (interface{}, error) { runs["logger"]++; return logger, nil })
		ops := []string{"new", "factory mailer", "factory logger", fmt.Sprintf("inject local types named `deps` in order %d", order)}
		seq := [][]int{{0, 1, 2}, {0, 2, 1}, {1, 0, 2}, {1, 2, 0}, {2, 0, 1}, {2, 1, 0}}[order]
		for _, k := range seq {
			k := k
			if p, v := hx.Guard(func() {
				switch k {
				case 0:
					if v, err := sameNameTargetA(dp); err != nil || v != interface{}(mailer) {
						o.fail("inject_by_type_identity", fmt.Sprintf("order %d: the field tagged `mailer` received %v (err=%v)", order, v, err), ops)
					}
				case 1:
					if v, err := sameNameTargetB(dp); err != nil || v != interface{}(logger) {
						o.fail("inject_by_type_identity", fmt.Sprintf("order %d: the field tagged `logger` received %v (err=%v)", order, v, err), ops)
					}
				case 2:
					if _, err := sameNameTargetC(dp); err != nil {
						o.fail("inject_by_type_identity", fmt.Sprintf("order %d: a target without tagged fields failed: %v", order, err), ops)
					}
				}
			}); p {
				o.fail("inject_by_type_identity", fmt.Sprintf("order %d: InjectTo panicked: %v", order, v), ops)
			}
		}
		if runs["mailer"] != 1 || runs["logger"] != 1 {
			o.fail("inject_by_type_identity", fmt.Sprintf("order %d: factory runs %v, want one each", order, runs), ops)
		}
	}
}
