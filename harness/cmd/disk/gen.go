package main

import (
	"bufio"
	"fmt"
	"sort"
	"strings"

	"gcverif/internal/fsdrv"
	"gcverif/internal/hx"
)

// ---------------------------------------------------------------------------------------------
// Histories for C02.  One PRNG; everything a history contains derives from it.
//
// Layout of a history (op lines of the `fs` protocol):
//	reset / new 0 disk / new 1 mem      — or, one history in four, the pairing "memory child view against
//	                                      disk root": new 101 mem / write 101 <sibling> / mkdir 101 <base> /
//	                                      view 1 101 <base>, so that the memory twin (id 1) is a VIEW
//	every call is made twice, first on the disk side (even id 2k), then on the memory twin (odd id 2k+1);
//	handle k = 0 is the filespace itself, `view` opens handle k+1, k+2 … on both sides
//	`dump 0`, `dump 1` after every mutating pair; `hostsnap 0` now and then and at the end
//
// A tracker (the flat reference of fsdrv, fed with the memory-side lines) knows the tree the
// specification prescribes, so arguments can be drawn to fit it:
//   inside histories   every call satisfies the property's precondition `Pre` (candidates that do not are
//                      redrawn), so deep sequences succeed on both backends: writes with and without
//                      missing parents, writers below existing directories, removes of files / empty /
//                      non-empty directories, recursive removes of existing paths, copies of files and
//                      directories to absent destinations (also INTO the source, one or more levels deep,
//                      with present or missing parents), reads of every kind, views of existing
//                      directories at any depth — and the calls on which both backends must fail alike
//                      (climbing paths, type conflicts, a file on the way)
//   outside histories  the same, but about a third of the calls are drawn from the violating table:
//                      missing source, missing destination parent, existing copy destination (file onto
//                      file, directory onto directory, mixed), Writer below a missing parent, RemoveAll of a
//                      missing path, Reader of a directory, Filespace of a file or of nothing, Lstat of the
//                      root, calls through a view whose directory was removed or replaced by a file
// Names come from a small live pool (a b c) plus, rarely, unusual but legal names (`...`, `a b`, bytes
// ff fe, `-`) and the names of the sentinels planted next to the root (`root`, `rootx`, `hostsecret`).
// Every path is re-spelled by the spelling mutator of fsdrv (`.`, `//`, leading `/`, `x/..`, trailing `/`).
// ---------------------------------------------------------------------------------------------

var exoticNames = []string{"...", "a b", "\xff\xfe", "-", "root", "rootx", "hostsecret", "..a", "a..", "x", "inner"}

type entry struct {
	segs []string
	dir  bool
}

// Hist generates one history and tracks the specified tree.
type Hist struct {
	R       *hx.Rand
	G       *fsdrv.HistGen // only for Spell / Content
	Ref     *fsdrv.Ref
	Count   map[string]int
	Lines   []string
	bases   [][]string          // base path of handle k (in the root's coordinates)
	outside bool                // this history may leave Pre
	left    bool                // … and has done so
	ever    map[string][]string // every node the tracked tree has ever had (root coordinates): paths to come back to
}

func NewHist(r *hx.Rand) *Hist {
	return &Hist{R: r, G: fsdrv.NewHistGen(r, bufio.NewWriter(nopWriter{})), Count: map[string]int{}}
}

type nopWriter struct{}

func (nopWriter) Write(p []byte) (int, error) { return len(p), nil }

func (h *Hist) emit(format string, a ...interface{}) {
	h.Lines = append(h.Lines, fmt.Sprintf(format, a...))
}

func hp(s string) string { return fsdrv.HP(s) }

// tree returns every entry of the tracked tree (root coordinates).
func (h *Hist) tree() []entry {
	res := h.Ref.Line([]string{"dump", "1"})
	if !strings.HasPrefix(res, "tree ") {
		return nil
	}
	var out []entry
	for _, it := range strings.Split(res[5:], " ") {
		if strings.HasSuffix(it, "/") {
			out = append(out, entry{strings.Split(string(hx.MustDec(it[:len(it)-1])), "/"), true})
		} else if i := strings.IndexByte(it, '='); i >= 0 {
			out = append(out, entry{strings.Split(string(hx.MustDec(it[:i])), "/"), false})
		}
	}
	return out
}

// kindAt: 'd', 'f' or '-' at an absolute (root coordinates) path of the tracked tree.
func kindAt(ref *fsdrv.Ref, abs []string) byte {
	if len(abs) == 0 {
		return 'd'
	}
	p := hp(strings.Join(abs, "/"))
	if ref.Line([]string{"isdir", "1", p}) == "t" {
		return 'd'
	}
	if ref.Line([]string{"isfile", "1", p}) == "t" {
		return 'f'
	}
	return '-'
}

func hasPrefix(p, pre []string) bool {
	if len(pre) > len(p) {
		return false
	}
	for i := range pre {
		if p[i] != pre[i] {
			return false
		}
	}
	return true
}

func cat(a []string, b ...string) []string { return append(append([]string{}, a...), b...) }

func (h *Hist) name() string {
	if h.R.Chance(1, 12) {
		h.Count["name:exotic"]++
		return h.R.Pick(exoticNames)
	}
	return h.R.Pick(fsdrv.Pool)
}

// what a drawn path should be
const (
	wFile     = iota // an existing file
	wDir             // an existing directory (possibly the handle's root)
	wAny             // anything that exists
	wFresh           // absent, parent exists
	wDeep            // absent, one or two parents missing too
	wMissing         // absent (for sources)
	wBelowF          // below a file
	wEmptyDir        // an existing directory without children
	wFullDir         // an existing directory with children
)

// rel draws a path relative to handle k's base that is, in the tracked tree, of the wanted kind;
// ok=false when the tree has nothing of that kind.
func (h *Hist) rel(k int, want int) ([]string, bool) {
	base := h.bases[k]
	var files, dirs, all [][]string
	kids := map[string]int{}
	for _, e := range h.tree() {
		if !hasPrefix(e.segs, base) || len(e.segs) == len(base) {
			continue
		}
		r := e.segs[len(base):]
		all = append(all, r)
		if e.dir {
			dirs = append(dirs, r)
		} else {
			files = append(files, r)
		}
		kids[strings.Join(r[:len(r)-1], "/")]++
	}
	pick := func(l [][]string) ([]string, bool) {
		if len(l) == 0 {
			return nil, false
		}
		return append([]string{}, l[h.R.Intn(len(l))]...), true
	}
	dirsR := append([][]string{{}}, dirs...) // with the handle's own root
	fresh := func(parent []string) []string {
		for i := 0; i < 8; i++ {
			c := cat(parent, h.name())
			if kindAt(h.Ref, cat(base, c...)) == '-' {
				return c
			}
		}
		return cat(parent, "n"+fmt.Sprint(h.R.Intn(1000)))
	}
	if (want == wFresh || want == wDeep) && h.R.Chance(1, 3) {
		// come back to a path that existed earlier in this history and is gone now (its directory, or an
		// ancestor of it, was removed in between): whatever an implementation remembers about paths is stale
		var revive [][]string
		keys := make([]string, 0, len(h.ever))
		for k := range h.ever {
			keys = append(keys, k)
		}
		sort.Strings(keys)
		for _, k := range keys {
			abs := h.ever[k]
			if !hasPrefix(abs, base) || len(abs) <= len(base) || kindAt(h.Ref, abs) != '-' {
				continue
			}
			parentThere := kindAt(h.Ref, abs[:len(abs)-1]) == 'd' || len(abs)-1 == len(base)
			if parentThere == (want == wFresh) {
				revive = append(revive, abs[len(base):])
			}
		}
		if r, ok := pick(revive); ok {
			h.Count["path:revived"]++
			if want == wDeep && h.R.Chance(1, 2) {
				r = append(r, h.name())
			}
			return r, true
		}
	}
	switch want {
	case wFile:
		return pick(files)
	case wDir:
		return pick(dirsR)
	case wAny:
		return pick(all)
	case wFresh:
		d, _ := pick(dirsR)
		if len(d) >= 5 {
			d = d[:2]
		}
		return fresh(d), true
	case wDeep:
		d, _ := pick(dirsR)
		if len(d) >= 4 {
			d = d[:1]
		}
		p := fresh(d)
		for i := 0; i <= h.R.Intn(2); i++ {
			p = append(p, h.name())
		}
		return p, true
	case wMissing:
		d, _ := pick(dirsR)
		p := fresh(d)
		if h.R.Chance(1, 3) {
			p = append(p, h.name())
		}
		return p, true
	case wBelowF:
		f, ok := pick(files)
		if !ok {
			return nil, false
		}
		f = append(f, h.name())
		if h.R.Chance(1, 3) {
			f = append(f, h.name())
		}
		return f, true
	case wEmptyDir, wFullDir:
		var l [][]string
		for _, d := range dirs {
			if (kids[strings.Join(d, "/")] == 0) == (want == wEmptyDir) {
				l = append(l, d)
			}
		}
		return pick(l)
	}
	return nil, false
}

// spell turns a relative segment list into a path string (one of its spellings); 6 % of the time it
// returns a climbing path or a spelling of the root instead.
func (h *Hist) spell(segs []string, special bool) string {
	if special {
		switch x := h.R.Intn(100); {
		case x < 4:
			h.Count["path:climbing"]++
			return h.R.Pick(fsdrv.Climbers)
		case x < 6:
			h.Count["path:root"]++
			return h.R.Pick(fsdrv.Roots)
		}
	}
	if len(segs) == 0 {
		return h.R.Pick([]string{"", ".", "/", "./", "//", "./."})
	}
	h.Count[fmt.Sprintf("path:depth%d", len(segs))]++
	return h.G.Spell(segs)
}

type cand struct {
	cmd   string
	k     int
	paths []string // raw path arguments
	tail  string   // further tokens (data, chunks, sizes)
}

type choice struct {
	w     int
	wants []int
}

// in-Pre flavoured and Pre-violating argument kinds per command
var goodTable = map[string][]choice{
	"write":     {{50, []int{wFresh}}, {20, []int{wFile}}, {15, []int{wDeep}}, {5, []int{wDir}}, {5, []int{wBelowF}}},
	"writer":    {{55, []int{wFresh}}, {30, []int{wFile}}, {8, []int{wDir}}, {7, []int{wBelowF}}},
	"mkdir":     {{30, []int{wFresh}}, {30, []int{wDeep}}, {20, []int{wDir}}, {10, []int{wFile}}, {10, []int{wBelowF}}},
	"remove":    {{35, []int{wFile}}, {25, []int{wEmptyDir}}, {20, []int{wFullDir}}, {15, []int{wMissing}}, {5, []int{wBelowF}}},
	"removeall": {{35, []int{wFullDir}}, {30, []int{wFile}}, {25, []int{wAny}}, {10, []int{wBelowF}}},
	"copyfile":  {{70, []int{wFile, wFresh}}, {10, []int{wDir, wFresh}}, {10, []int{wMissing, wFresh}}, {10, []int{wBelowF, wFresh}}},
	"copydir": {{45, []int{wDir, wFresh}}, {25, []int{wDir, wDeep}}, {10, []int{wFile, wFresh}}, {10, []int{wMissing, wDeep}},
		{10, []int{wDir, wBelowF}}},
	"copy": {{30, []int{wFile, wFresh}}, {30, []int{wDir, wFresh}}, {20, []int{wDir, wDeep}}, {10, []int{wMissing, wFresh}},
		{10, []int{wAny, wBelowF}}},
	"readfile": {{70, []int{wFile}}, {15, []int{wDir}}, {15, []int{wMissing}}},
	"reader":   {{80, []int{wFile}}, {20, []int{wMissing}}},
	"readdir":  {{70, []int{wDir}}, {15, []int{wFile}}, {15, []int{wMissing}}},
	"lstat":    {{40, []int{wFile}}, {40, []int{wFullDir}}, {20, []int{wMissing}}},
	"isexist":  {{50, []int{wAny}}, {30, []int{wMissing}}, {20, []int{wBelowF}}},
	"isfile":   {{50, []int{wAny}}, {30, []int{wMissing}}, {20, []int{wBelowF}}},
	"isdir":    {{50, []int{wAny}}, {30, []int{wMissing}}, {20, []int{wDir}}},
	"view":     {{100, []int{wDir}}},
}

var badTable = map[string][]choice{
	"writer":    {{100, []int{wDeep}}},
	"removeall": {{100, []int{wMissing}}},
	"copyfile":  {{40, []int{wFile, wFile}}, {30, []int{wFile, wDeep}}, {30, []int{wFile, wDir}}},
	"copydir":   {{60, []int{wDir, wDir}}, {40, []int{wDir, wFile}}},
	"copy":      {{25, []int{wFile, wFile}}, {25, []int{wFile, wDeep}}, {25, []int{wDir, wDir}}, {15, []int{wDir, wFile}}, {10, []int{wFile, wDir}}},
	"reader":    {{100, []int{wDir}}},
	"lstat":     {{100, []int{wDir}}},
	"view":      {{50, []int{wFile}}, {50, []int{wMissing}}},
	"write":     {{100, []int{wDir}}},
}

var cmdWeights = []struct {
	cmd string
	w   int
}{{"write", 16}, {"writer", 7}, {"mkdir", 9}, {"remove", 7}, {"removeall", 4}, {"copyfile", 6}, {"copydir", 7}, {"copy", 7},
	{"readfile", 5}, {"reader", 4}, {"readdir", 5}, {"lstat", 3}, {"isexist", 2}, {"isfile", 2}, {"isdir", 2}, {"view", 4}}

func (h *Hist) pickCmd() string {
	total := 0
	for _, c := range cmdWeights {
		total += c.w
	}
	x := h.R.Intn(total)
	for _, c := range cmdWeights {
		if x < c.w {
			return c.cmd
		}
		x -= c.w
	}
	return "write"
}

func (h *Hist) draw(bad bool) (cand, bool) {
	cmd := h.pickCmd()
	table := goodTable[cmd]
	if bad {
		t, ok := badTable[cmd]
		if !ok {
			return cand{}, false
		}
		table = t
	}
	total := 0
	for _, c := range table {
		total += c.w
	}
	x := h.R.Intn(total)
	var ch choice
	for _, c := range table {
		if x < c.w {
			ch = c
			break
		}
		x -= c.w
	}
	k := h.R.Intn(len(h.bases))
	c := cand{cmd: cmd, k: k}
	for i, w := range ch.wants {
		segs, ok := h.rel(k, w)
		if !ok {
			return cand{}, false
		}
		if bad && cmd == "lstat" {
			segs = nil // Lstat of the root
		}
		if cmd == "copydir" || cmd == "copy" {
			// destinations inside the source: a/b -> a/b/x and deeper
			if i == 1 && !bad && h.R.Chance(1, 5) {
				if src, ok2 := h.rel(k, wDir); ok2 {
					segs = cat(src, h.name())
					if h.R.Chance(1, 2) {
						if sub, ok3 := h.rel(k, wDir); ok3 && hasPrefix(sub, src) && len(sub) > len(src) {
							segs = cat(sub, h.name())
						}
					}
					c.paths[0] = h.spell(src, false)
					h.Count["copy:into-source"]++
				}
			}
		}
		c.paths = append(c.paths, h.spell(segs, !bad))
	}
	switch cmd {
	case "write":
		c.tail = hx.Enc(h.G.Content())
	case "writer":
		n := h.R.Intn(4)
		cs := make([]string, n)
		for i := range cs {
			cs[i] = hx.Enc(h.G.Content())
		}
		c.tail = strings.Join(cs, " ")
	case "reader":
		n := h.R.Intn(5)
		if bad && h.R.Chance(1, 2) {
			n = 0
		}
		ss := make([]string, n)
		for i := range ss {
			ss[i] = fmt.Sprint([]int{0, 1, 2, 3, 5, 8, 4096, 5000}[h.R.Intn(8)])
		}
		c.tail = strings.Join(ss, " ")
	}
	return c, true
}

// lines of a candidate on the two sides
func (c cand) line(side int) string {
	if c.cmd == "view" {
		return ""
	}
	toks := []string{c.cmd, fmt.Sprint(2*c.k + side)}
	for _, p := range c.paths {
		toks = append(toks, hp(p))
	}
	if c.tail != "" {
		toks = append(toks, c.tail)
	}
	return strings.Join(toks, " ")
}

var mutatingCmd = map[string]bool{"write": true, "writer": true, "mkdir": true, "remove": true, "removeall": true,
	"copy": true, "copyfile": true, "copydir": true}

// History builds one history; outside = it may leave the precondition.
func (h *Hist) History(outside bool) []string {
	h.Lines = h.Lines[:0]
	h.Ref = fsdrv.NewRef()
	h.bases = [][]string{{}}
	h.outside, h.left = outside, false
	h.ever = map[string][]string{}
	h.emit("reset")
	h.emit("new 0 disk")
	if h.R.Chance(1, 4) {
		// the pairing "memory CHILD VIEW against disk ROOT": the memory twin (id 1) is a view, at a base one or
		// two names deep, of an auxiliary memory filespace (id 101) that also holds a sibling of that base
		h.Count["histories:memview-vs-diskroot"]++
		base := []string{h.name()}
		if h.R.Chance(1, 2) {
			base = append(base, h.name())
		}
		pre := []string{"new 101 mem",
			"write 101 " + hp(base[0]+"x") + " " + hx.Enc([]byte("sibling")),
			"mkdir 101 " + hp(h.G.Spell(base)),
			"view 1 101 " + hp(h.G.Spell(base))}
		for _, l := range pre {
			h.emit("%s", l)
			h.Ref.Line(strings.Split(l, " "))
		}
	} else {
		h.emit("new 1 mem")
		h.Ref.Line([]string{"new", "1", "mem"})
	}
	n := 6 + h.R.Intn(30)
	for i := 0; i < n; i++ {
		var c cand
		found := false
		for try := 0; try < 25 && !found; try++ {
			bad := outside && h.R.Chance(1, 3)
			cc, ok := h.draw(bad)
			if !ok {
				continue
			}
			in := PreOf(h.Ref, h.bases[cc.k], cc.cmd, cc.paths, cc.tail)
			if !outside && !in {
				h.Count["redrawn"]++
				continue
			}
			c, found = cc, true
			if !in {
				h.left = true
				h.Count["outside:"+cc.cmd]++
			} else {
				h.Count["inside:"+cc.cmd]++
			}
		}
		if !found {
			continue
		}
		if c.cmd == "view" {
			k := len(h.bases)
			h.emit("view %d %d %s", 2*k, 2*c.k, hp(c.paths[0]))
			h.emit("view %d %d %s", 2*k+1, 2*c.k+1, hp(c.paths[0]))
			// the handle is usable only when both sides open it; the tracker knows when the memory side does
			rel, ok := fsdrv.Resolve(c.paths[0])
			if ok && kindAt(h.Ref, cat(h.bases[c.k], rel...)) == 'd' {
				h.Ref.Line([]string{"view", fmt.Sprint(2*k + 1), fmt.Sprint(2*c.k + 1), hp(c.paths[0])})
				h.bases = append(h.bases, cat(h.bases[c.k], rel...))
			}
			continue
		}
		h.emit("%s", c.line(0))
		h.emit("%s", c.line(1))
		h.Ref.Line(strings.Split(c.line(1), " "))
		if mutatingCmd[c.cmd] {
			for _, e := range h.tree() {
				h.ever[strings.Join(e.segs, "/")] = e.segs
			}
			h.emit("dump 0")
			h.emit("dump 1")
			if h.R.Chance(1, 4) {
				h.emit("hostsnap 0")
			}
		}
	}
	h.emit("dump 0")
	h.emit("dump 1")
	h.emit("hostsnap 0")
	h.Count["histories"]++
	if outside {
		h.Count["histories:outside"]++
		if h.left {
			h.Count["histories:left-pre"]++
		}
	}
	return h.Lines
}

// GenSeed / OracleSeed: the seeds of shard `shard` of the two streams for the current VERIF_SEED.
func GenSeed(shard int) uint64 { return hx.SeedFromEnv()*1000003 + uint64(shard)*7919 + 0xC02 }
func OracleSeed(shard int) uint64 {
	return (hx.SeedFromEnv()*1000003 + uint64(shard)*104729) ^ 0xC02C02
}

// Gen is `disk gen <n> <shard> <nshards>`: this shard's share of n histories, 4 of 5 inside Pre.
func Gen(w, stat *bufio.Writer, n, shard, nshards int) {
	h := NewHist(hx.NewRand(GenSeed(shard)))
	for i := shard; i < n; i += nshards {
		for _, l := range h.History(i%5 == 4) {
			w.WriteString(l)
			w.WriteByte('\n')
		}
	}
	for k, v := range h.G.Count {
		h.Count[k] += v
	}
	fsdrv.PrintCounts(stat, "genstat", h.Count)
}
