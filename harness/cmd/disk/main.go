// Command disk is the implementation side of property C02 (disk filespace obeys the same contract as the
// in-memory one) on the `fs` line protocol (gcverif/internal/fsdrv; protocol text in
// /verif/lean/Driver/FSCore.lean; Lean twin of this command: /verif/lean/Driver/Disk.lean = `m_disk`).
//
//	new <id> disk       diskfs.NewFilespace(<D>/root) where <D> is a fresh directory under /var/tmp
//	                    (removed at `reset`).  Next to the root, in <D>, stand sentinels so that any
//	                    escape from the root is visible:
//	                        <D>/hostsecret        file  "outside"
//	                        <D>/rootx/inner       file  "x"       (a sibling whose name extends `root`)
//	                        <D>/a/b               file  "y"       (a sibling tree with pool names)
//	new <id> mem        memfs.NewFilespace()  (registered by fsdrv)
//	hostsnap <k>        -> host <path>/ … <path>=<data> …   the whole directory <D> of the k-th (0,1,…) disk
//	                    filespace created in this history *except what is below <D>/root* (the root itself
//	                    is listed), sorted by path; `err` when <D> cannot be walked; `nofs` when there is no
//	                    k-th disk
//
//	disk drive [-stats <file>] [-nohash]     op lines on stdin -> result lines (real diskfs / memfs)
//	disk gen <n> <shard> <nshards>           histories for the model correspondence (see gen.go)
//	disk oracle <n> <shard> <nshards>        the property evaluated on the implementation alone (oracle.go)
//	disk judge                               the oracle on the op lines given on stdin (replays, minimisation)
package main

import (
	"bufio"
	"fmt"
	"io/ioutil"
	"os"
	"path/filepath"
	"sort"
	"strconv"
	"strings"

	"gcverif/internal/fsdrv"
	"gcverif/internal/hx"

	"github.com/goatcms/goatcore/filesystem/filespace/diskfs"
)

// ScratchBase is where the disk filespaces live (never inside /repo or /verif).
var ScratchBase = "/var/tmp"

func diskDirs(s *fsdrv.Session) []string {
	if v, ok := s.Vals["c02dirs"]; ok {
		return v.([]string)
	}
	return nil
}

func newDisk(s *fsdrv.Session, args []string) (fsdrv.FS, error) {
	if len(args) != 0 {
		return nil, fsdrv.ErrBadOp
	}
	dir, err := ioutil.TempDir(ScratchBase, "c02-")
	if err != nil {
		return nil, err
	}
	s.OnReset(func() { os.RemoveAll(dir) })
	for _, d := range []string{"root", "rootx", "a"} {
		if err = os.Mkdir(filepath.Join(dir, d), 0777); err != nil {
			return nil, err
		}
	}
	for _, f := range [][2]string{{"hostsecret", "outside"}, {"rootx/inner", "x"}, {"a/b", "y"}} {
		if err = ioutil.WriteFile(filepath.Join(dir, f[0]), []byte(f[1]), 0666); err != nil {
			return nil, err
		}
	}
	s.Vals["c02dirs"] = append(diskDirs(s), dir)
	return diskfs.NewFilespace(filepath.Join(dir, "root"))
}

// HostSnap lists <dir> without descending into <dir>/root.
func HostSnap(dir string) string {
	type item struct{ p, s string }
	var items []item
	var walk func(rel string) bool
	walk = func(rel string) bool {
		l, err := ioutil.ReadDir(filepath.Join(dir, rel))
		if err != nil {
			return false
		}
		for _, e := range l {
			p := e.Name()
			if rel != "" {
				p = rel + "/" + e.Name()
			}
			hp := hx.Enc([]byte(p))
			if e.IsDir() {
				items = append(items, item{p, hp + "/"})
				if p == "root" {
					continue
				}
				if !walk(p) {
					return false
				}
				continue
			}
			if e.Mode()&os.ModeType != 0 { // symlink, device …: never created by a filespace
				items = append(items, item{p, hp + "!"})
				continue
			}
			data, err := ioutil.ReadFile(filepath.Join(dir, p))
			if err != nil {
				return false
			}
			items = append(items, item{p, hp + "=" + hx.Enc(data)})
		}
		return true
	}
	if !walk("") {
		return "err"
	}
	sort.SliceStable(items, func(i, j int) bool { return items[i].p < items[j].p })
	out := make([]string, len(items))
	for i, it := range items {
		out[i] = it.s
	}
	return strings.TrimRight("host "+strings.Join(out, " "), " ")
}

func init() {
	fsdrv.RegisterKind("disk", newDisk)
	fsdrv.RegisterCommand("hostsnap", func(s *fsdrv.Session, args []string) string {
		if len(args) != 1 {
			return "bad-op"
		}
		k, err := strconv.Atoi(args[0])
		if err != nil || k < 0 {
			return "bad-op"
		}
		dirs := diskDirs(s)
		if k >= len(dirs) {
			return "nofs"
		}
		return HostSnap(dirs[k])
	})
}

func main() {
	w := bufio.NewWriterSize(os.Stdout, 1<<20)
	defer w.Flush()
	ew := bufio.NewWriter(os.Stderr)
	defer ew.Flush()
	usage := func() {
		fmt.Fprintln(os.Stderr, "usage: disk drive [-stats file] [-nohash] | gen <n> [shard nshards] | oracle <n> [shard nshards] | judge")
		os.Exit(2)
	}
	if len(os.Args) < 2 {
		usage()
	}
	if b := os.Getenv("C02_SCRATCH"); b != "" {
		ScratchBase = b
	}
	num := func() int {
		if len(os.Args) < 3 {
			usage()
		}
		n, _ := strconv.Atoi(os.Args[2])
		return n
	}
	switch os.Args[1] {
	case "drive":
		fsdrv.Drive(os.Stdin, w, fsdrv.ParseDriveArgs(os.Args[2:]))
	case "gen":
		n := num()
		sh, ns := fsdrv.ShardArgs(os.Args[3:])
		Gen(w, ew, n, sh, ns)
	case "oracle":
		n := num()
		sh, ns := fsdrv.ShardArgs(os.Args[3:])
		Oracle(w, n, sh, ns)
	case "judge":
		sc := bufio.NewScanner(os.Stdin)
		sc.Buffer(make([]byte, 1<<20), 1<<28)
		Judge(sc, w)
	default:
		usage()
	}
}
