package main

import (
	"bufio"
	"fmt"
	"sort"
	"strconv"
	"strings"

	"gcverif/internal/fsdrv"
	"gcverif/internal/hx"
)

// ---------------------------------------------------------------------------------------------
// The property evaluated on the implementation alone (no Lean model): `disk oracle`, `disk judge`.
//
// A history is executed line by line on the real diskfs (even ids) and the real memfs (odd ids).  The
// flat reference of fsdrv (`Ref`, the executable twin of Goat/Spec/FS.lean) follows the memory-side
// lines; it says what stands where *according to the specification*, which decides whether a call is
// inside the property's precondition `Pre` (the Go twin `PreOf` of `Goat.DiskFS.Pre`).
//
//   while every call so far was inside Pre   (clause 1 of the property)
//       result(disk) = result(mem) = result(reference)         ReadDir as a set; a Reader as the bytes
//                                                              each Read delivered (io.EOF may come with
//                                                              the last bytes or with the next, empty Read)
//       full tree walk(disk) = walk(mem) = tree(reference)     after EVERY such call
//   for every call, inside or outside         (clause 2: fail cleanly)
//       no `panic`, no `hang`, no nil filespace
//       each backend's own tree before/after the call differs only at addressed paths: below a
//       normalised argument, or a missing ancestor of one that became a directory
//       the host directory above the disk root (sentinels hostsecret, rootx/inner, a/b) is byte-identical
//
// Output: `FAIL <class> line=<k> op=<line> want=<…> got=<…>` and the history as `H <line>` lines (the
// format of fsdrv.ReportFails, so the same tooling reads it); class `value` = observable contents
// differ / panic / frame / host, `verdict` = only ok/err of a call differs.
// ---------------------------------------------------------------------------------------------

// PreOf is the property's precondition (Goat.DiskFS.Pre) of a call `cmd paths… tail` made through a
// handle whose base is `base`, evaluated on the reference tree.
func PreOf(ref *fsdrv.Ref, base []string, cmd string, paths []string, tail string) bool {
	if kindAt(ref, base) != 'd' { // the filespace's own directory exists
		return false
	}
	norm := make([][]string, len(paths))
	for i, p := range paths {
		q, ok := fsdrv.Resolve(p)
		if !ok {
			return true // a climbing path: both backends refuse, nothing else is looked at
		}
		norm[i] = q
	}
	at := func(rel []string) byte { return kindAt(ref, cat(base, rel...)) }
	parent := func(rel []string) []string { return rel[:len(rel)-1] }
	fileCopy := func(s, d []string) bool {
		return at(s) != 'f' || len(d) == 0 || (at(parent(d)) == 'd' && at(d) == '-')
	}
	dirCopy := func(s, d []string) bool { return at(s) != 'd' || at(d) == '-' }
	switch cmd {
	case "writer":
		return len(norm[0]) == 0 || at(parent(norm[0])) == 'd'
	case "removeall":
		return len(norm[0]) == 0 || at(norm[0]) != '-'
	case "reader":
		return at(norm[0]) != 'd'
	case "lstat":
		return len(base)+len(norm[0]) > 0
	case "view":
		return at(norm[0]) == 'd'
	case "copyfile":
		return fileCopy(norm[0], norm[1])
	case "copydir":
		return dirCopy(norm[0], norm[1])
	case "copy":
		return fileCopy(norm[0], norm[1]) && dirCopy(norm[0], norm[1])
	}
	return true
}

// canon: listings as sets, readers without the EOF flags
func canon(res string) string {
	res = fsdrv.Canon(res)
	if strings.HasPrefix(res, "rd ") {
		items := strings.Split(res[3:], ",")
		for i, it := range items {
			if j := strings.IndexByte(it, ':'); j >= 0 {
				items[i] = it[:j]
			}
		}
		return "rd " + strings.Join(items, ",")
	}
	return res
}

func parseTree(res string) (map[string]string, bool) {
	m := map[string]string{}
	if res == "tree" {
		return m, true
	}
	if !strings.HasPrefix(res, "tree ") {
		return nil, false
	}
	for _, it := range strings.Split(res[5:], " ") {
		switch {
		case strings.HasSuffix(it, "/"):
			m[string(hx.MustDec(it[:len(it)-1]))] = "/"
		case strings.HasSuffix(it, "!"):
			m[string(hx.MustDec(it[:len(it)-1]))] = "!"
		default:
			i := strings.IndexByte(it, '=')
			if i < 0 {
				return nil, false
			}
			m[string(hx.MustDec(it[:i]))] = "=" + it[i+1:]
		}
	}
	return m, true
}

// frame: every path whose entry changed is addressed by one of the (absolute, normalised) arguments
func frame(before, after string, args [][]string) string {
	b, ok1 := parseTree(before)
	a, ok2 := parseTree(after)
	if !ok1 || !ok2 {
		if before == after {
			return ""
		}
		return "tree walk failed: " + trunc(before) + " -> " + trunc(after)
	}
	keys := map[string]bool{}
	for k := range b {
		keys[k] = true
	}
	for k := range a {
		keys[k] = true
	}
	var bad []string
	for k := range keys {
		if a[k] == b[k] {
			continue
		}
		q := strings.Split(k, "/")
		ok := false
		for _, arg := range args {
			if hasPrefix(q, arg) { // at or below an argument
				ok = true
			} else if hasPrefix(arg, q) && b[k] == "" && a[k] == "/" { // a missing ancestor became a directory
				ok = true
			}
		}
		if !ok {
			bad = append(bad, fmt.Sprintf("%q: %s -> %s", k, trunc(b[k]), trunc(a[k])))
		}
	}
	sort.Strings(bad)
	return strings.Join(bad, "; ")
}

func trunc(s string) string {
	if len(s) > 300 {
		return s[:300] + "…"
	}
	return s
}

// Stats of a judged stream.
type Stats struct {
	Histories, Cases, Fails, Inside, Outside, After, TreeWalks, HostSnaps int
	Checked                                                             map[string]int
}

func isCall(cmd string) bool {
	switch cmd {
	case "write", "writer", "reader", "mkdir", "remove", "removeall", "readfile", "readdir", "isexist", "isfile", "isdir",
		"lstat", "copy", "copyfile", "copydir", "view":
		return true
	}
	return false
}

// callArgs splits the tokens after the id(s) into path arguments and the tail.
func callArgs(f []string) (k int, paths []string, tail string, ok bool) {
	id, err := strconv.Atoi(f[1])
	if err != nil {
		return 0, nil, "", false
	}
	rest := f[2:]
	if f[0] == "view" { // view <id> <fs> <path>
		if len(f) != 4 {
			return 0, nil, "", false
		}
		id, err = strconv.Atoi(f[2])
		if err != nil {
			return 0, nil, "", false
		}
		rest = f[3:]
	}
	np := 1
	if f[0] == "copy" || f[0] == "copyfile" || f[0] == "copydir" {
		np = 2
	}
	if len(rest) < np {
		return 0, nil, "", false
	}
	for _, t := range rest[:np] {
		b, err := hx.Dec(t)
		if err != nil {
			return 0, nil, "", false
		}
		paths = append(paths, string(b))
	}
	return id, paths, strings.Join(rest[np:], " "), true
}

// auxLine: a line of the preamble that builds the memory twin as a child view of an auxiliary memory
// filespace: `new <aux> mem`, a call on <aux>, `view 1 <aux> <path>`   (<aux> >= 100)
func auxLine(f []string) bool {
	aux := func(tok string) bool { n, err := strconv.Atoi(tok); return err == nil && n >= 100 }
	switch {
	case f[0] == "new" && len(f) == 3 && f[2] == "mem":
		return aux(f[1])
	case f[0] == "view" && len(f) == 4:
		return f[1] == "1" && aux(f[2])
	case isCall(f[0]) && len(f) >= 3:
		return aux(f[1])
	}
	return false
}

// twin: the memory-side line of a disk-side line (ids 2k -> 2k+1), "" when the line is not a call on an even id
func twin(f []string) string {
	g := append([]string{}, f...)
	bump := func(i int) bool {
		n, err := strconv.Atoi(g[i])
		if err != nil || n%2 != 0 {
			return false
		}
		g[i] = strconv.Itoa(n + 1)
		return true
	}
	if !isCall(f[0]) || len(f) < 3 {
		return ""
	}
	if !bump(1) {
		return ""
	}
	if f[0] == "view" && !bump(2) {
		return ""
	}
	return strings.Join(g, " ")
}

// JudgeHistory runs one history (lines from `reset`) and evaluates the property.
func JudgeHistory(sess *fsdrv.Session, hist []string, st *Stats) []fsdrv.Failure {
	var fails []fsdrv.Failure
	ref := fsdrv.NewRef()
	bases := map[int][]string{0: {}}
	inside := true
	host0 := ""
	treeD, treeM := "tree", "tree"
	var rootD, rootM fsdrv.FS
	fail := func(class string, k int, op, want, got string) {
		fails = append(fails, fsdrv.Failure{Class: class, Op: op, Want: trunc(want), Got: trunc(got), Line: k})
	}
	stop := false
	for k := 0; k < len(hist) && !stop; k++ {
		l := hist[k]
		f := strings.Split(l, " ")
		st.Cases++
		st.Checked[f[0]]++
		isPair := k+1 < len(hist) && twin(f) != "" && twin(f) == hist[k+1]
		if !isPair {
			res := sess.Line(f)
			switch {
			case res == "panic" || res == "hang":
				fail("value", k, l, "no panic", res)
				stop = true
			case f[0] == "reset":
				ref = fsdrv.NewRef()
				bases = map[int][]string{0: {}}
				inside, host0, treeD, treeM = true, "", "tree", "tree"
				rootD, rootM = nil, nil
			case f[0] == "new" && len(f) == 3 && f[1] == "0" && f[2] == "disk" && res == "ok":
				rootD, _ = sess.FS(0)
				if d := diskDirs(sess); len(d) > 0 {
					host0 = HostSnap(d[len(d)-1])
					st.HostSnaps++
				}
			case f[0] == "new" && len(f) == 3 && f[1] == "1" && f[2] == "mem" && res == "ok":
				rootM, _ = sess.FS(1)
				ref.Line(f)
			case auxLine(f):
				// the preamble of the pairing "memory child view against disk root": an auxiliary memory filespace
				// (id >= 100), calls on it, and `view 1 <aux> <base>` that makes the memory twin a view
				ref.Line(f)
				if f[0] == "view" && res == "ok" {
					rootM, _ = sess.FS(1)
				}
			case f[0] == "hostsnap":
				if host0 != "" && res != host0 {
					fail("value", k, l, host0, res)
					stop = true
				}
			case isCall(f[0]):
				// a call that is not made on both sides: the two trees are no longer comparable
				inside = false
			}
			continue
		}
		// ---- a call made on both sides
		st.Cases++
		lm := hist[k+1]
		fm := strings.Split(lm, " ")
		id, paths, tail, ok := callArgs(f)
		if !ok || rootD == nil || rootM == nil {
			sess.Line(f)
			sess.Line(fm)
			k++
			continue
		}
		base, known := bases[id/2]
		inPre := inside && known && PreOf(ref, base, f[0], paths, tail)
		var args [][]string
		for _, p := range paths {
			if q, ok := fsdrv.Resolve(p); ok && known {
				args = append(args, cat(base, q...))
			}
		}
		rd := sess.Line(f)
		rm := sess.Line(fm)
		k++
		var afterD, afterM string
		walk := func() {
			afterD = sess.Exec(func() string { return fsdrv.Dump(rootD) })
			afterM = sess.Exec(func() string { return fsdrv.Dump(rootM) })
			st.TreeWalks += 2
		}
		for _, r := range []string{rd, rm} {
			if r == "panic" || r == "hang" || r == "nil" {
				fail("value", k-1, l, "no panic / hang / nil filespace", "disk="+rd+" mem="+rm)
				stop = true
			}
		}
		if stop {
			break
		}
		walk()
		if d := diskDirs(sess); len(d) > 0 {
			st.HostSnaps++
			if hs := HostSnap(d[len(d)-1]); hs != host0 {
				fail("value", k-1, l, "host outside the root unchanged: "+host0, hs)
				stop = true
			}
		}
		if !known {
			// a handle that is not open on both sides (a view that failed on one): nothing to compare, and
			// the base of the side that did open it is not tracked
			inside = false
			treeD, treeM = afterD, afterM
			continue
		}
		if inPre {
			st.Inside++
			rr := ref.Line(fm)
			cd, cm, cr := canon(rd), canon(rm), canon(rr)
			if cd != cm || cm != cr {
				class := "value"
				okerr := func(s string) bool { return s == "ok" || s == "err" }
				if okerr(cd) && okerr(cm) && okerr(cr) {
					class = "verdict"
				}
				fail(class, k-1, l, "inside Pre: disk = mem = spec; mem="+cm+" spec="+cr, "disk="+cd)
			}
			if f[0] == "view" && rd == "ok" && rm == "ok" {
				if n, err := strconv.Atoi(f[1]); err == nil {
					q, _ := fsdrv.Resolve(paths[0])
					bases[n/2] = cat(base, q...)
				}
			}
			rt := ref.Line([]string{"dump", "1"})
			if afterD != afterM || afterM != rt {
				fail("value", k-1, l, "inside Pre: tree(disk) = tree(mem) = tree(spec); mem="+afterM+" spec="+rt, "disk="+afterD)
				stop = true // the sides have diverged, the rest says nothing new
			}
		} else {
			if inside {
				st.Outside++
			} else {
				st.After++
			}
			inside = false
			if f[0] == "view" {
				if n, err := strconv.Atoi(f[1]); err == nil {
					delete(bases, n/2)
					if rd == "ok" && rm == "ok" {
						q, _ := fsdrv.Resolve(paths[0])
						bases[n/2] = cat(base, q...)
					}
				}
			}
			if msg := frame(treeD, afterD, args); msg != "" {
				fail("value", k-1, l, "disk: no change outside the addressed paths", msg)
				stop = true
			}
			if msg := frame(treeM, afterM, args); msg != "" {
				fail("value", k-1, l, "mem: no change outside the addressed paths", msg)
				stop = true
			}
		}
		treeD, treeM = afterD, afterM
	}
	return fails
}

func report(w *bufio.Writer, hist []string, fails []fsdrv.Failure) {
	last := 0
	for _, f := range fails {
		fmt.Fprintf(w, "FAIL %s line=%d op=%s want=%s got=%s\n", f.Class, f.Line, f.Op, f.Want, f.Got)
		if f.Line > last {
			last = f.Line
		}
	}
	if last+1 < len(hist) && twin(strings.Split(hist[last], " ")) == hist[last+1] {
		last++
	}
	for _, h := range hist[:last+1] {
		fmt.Fprintf(w, "H %s\n", h)
	}
}

func (st *Stats) print(w *bufio.Writer, tag string) {
	var cs []string
	for k, v := range st.Checked {
		cs = append(cs, fmt.Sprintf("%s=%d", k, v))
	}
	sort.Strings(cs)
	fmt.Fprintf(w, "%s histories=%d cases=%d fails=%d inside=%d outside=%d after=%d treewalks=%d hostsnaps=%d %s\n", tag,
		st.Histories, st.Cases, st.Fails, st.Inside, st.Outside, st.After, st.TreeWalks, st.HostSnaps, strings.Join(cs, " "))
}

// Oracle is `disk oracle <n> <shard> <nshards>`: this shard's share of n generated histories (every
// third one may leave the precondition).
func Oracle(w *bufio.Writer, n, shard, nshards int) {
	h := NewHist(hx.NewRand(OracleSeed(shard)))
	sess := fsdrv.NewSession()
	st := &Stats{Checked: map[string]int{}}
	for i := shard; i < n; i += nshards {
		hist := append([]string{}, h.History(i%3 == 2)...)
		st.Histories++
		fails := JudgeHistory(sess, hist, st)
		if len(fails) > 0 {
			st.Fails++
			if st.Fails <= 3 {
				report(w, hist, fails)
			}
		}
	}
	sess.Reset()
	st.print(w, "oracle")
}

// Judge is `disk judge`: the same evaluation on the op lines on stdin (one or more histories).
func Judge(in *bufio.Scanner, w *bufio.Writer) {
	var hists [][]string
	for in.Scan() {
		l := in.Text()
		if l == "" || strings.HasPrefix(l, "#") {
			continue
		}
		if l == "reset" || len(hists) == 0 {
			hists = append(hists, nil)
		}
		hists[len(hists)-1] = append(hists[len(hists)-1], l)
	}
	sess := fsdrv.NewSession()
	st := &Stats{Checked: map[string]int{}}
	for _, hist := range hists {
		st.Histories++
		fails := JudgeHistory(sess, hist, st)
		if len(fails) > 0 {
			st.Fails++
			report(w, hist, fails)
		}
	}
	sess.Reset()
	st.print(w, "judge")
}
