package main

// Family `hist` (property C05): histories with SEVERAL OPEN HANDLES over one base filespace — readers opened on
// different files (and through different encrypted filespaces) before the earlier ones are drained, whole-file
// writes and stream writers in between, chunks of several writers interleaved, handles closed in any order; file
// sizes from classes that matter to buffers, pools and block boundaries (0, tiny, 15/16/17, around 512, around
// 1 KiB, around 4 KiB, 64 KiB+1).  Line format and answers: lean/Driver/Encrypt.lean; model:
// lean/Goat/Model/EncHandles.lean (a reader is a snapshot taken at open).
//
//	drive   the real encryptfs with the real AES-GCM ciphers (runHist)
//	gen     genHistSweep (every ordered pair of size classes, "second reader opened before the first is read") and
//	        genHist (random histories)
//	oracle  class `handles`: the same random histories judged by a plaintext-level bookkeeping (specHist) that
//	        knows no cipher: everything a reader delivers is the content its file had when the reader was opened

import (
	"bufio"
	"bytes"
	"fmt"
	"hash/fnv"
	"io"
	"io/ioutil"
	"strconv"
	"strings"

	"gcverif/internal/hx"

	"github.com/goatcms/goatcore/filesystem"
)

func pattern(n, seed int) []byte {
	b := make([]byte, n)
	for i := range b {
		b[i] = byte((i*i + seed*i + 7*seed + i/255) % 256)
	}
	return b
}

func digest(b []byte) string {
	h := fnv.New32a()
	h.Write(b)
	return fmt.Sprintf("%d/%08x", len(b), h.Sum32())
}

func histFile(i int) string { return fmt.Sprintf("x%d.bin", i) }

const (
	hReader = iota + 1
	hWriter
	hDead
	hClosed
)

type hhandle struct {
	state int
	file  int
	r     filesystem.Reader
	w     filesystem.Writer
}

// hrunner executes the steps of one history on real filespaces.  It keeps the same well-formedness discipline as
// the model (hstep = none): unknown filespace, handle number used twice, operation on a handle that is not open in
// the right role, access to a file that has an open writer.
type hrunner struct {
	fss     []FS
	handles map[int]*hhandle
	onData  func(h int, b []byte, all bool) // what a reader delivered (oracle)
}

func (x *hrunner) busy(file int) bool {
	for _, h := range x.handles {
		if h.state == hWriter && h.file == file {
			return true
		}
	}
	return false
}

func atoiAll(f []string) ([]int, bool) {
	res := make([]int, len(f))
	for i, s := range f {
		if s == "" || strings.TrimLeft(s, "0123456789") != "" || len(s) > 9 {
			return nil, false
		}
		res[i], _ = strconv.Atoi(s)
	}
	return res, true
}

// step returns the answer token; ok=false: the history is not well formed.
func (x *hrunner) step(tok string) (res string, ok bool) {
	f := strings.Split(tok, ":")
	a, good := atoiAll(f[1:])
	if !good {
		return "", false
	}
	want := map[string]int{"wf": 4, "rf": 2, "or": 3, "rd": 2, "ra": 1, "cr": 1, "ow": 3, "wr": 3, "cw": 1}
	if n, known := want[f[0]]; !known || n != len(a) {
		return "", false
	}
	word := func(err error) string {
		if err != nil {
			return "err"
		}
		return "ok"
	}
	switch f[0] {
	case "wf", "rf", "or", "ow":
		if a[0] >= len(x.fss) || x.busy(a[1]) {
			return "", false
		}
		fs, name := x.fss[a[0]], histFile(a[1])
		switch f[0] {
		case "wf":
			return word(fs.WriteFile(name, pattern(a[2], a[3]), filesystem.DefaultUnixFileMode)), true
		case "rf":
			d, err := fs.ReadFile(name)
			if err != nil {
				return "err", true
			}
			return digest(d), true
		case "or":
			if x.handles[a[2]] != nil {
				return "", false
			}
			r, err := fs.Reader(name)
			if err != nil {
				x.handles[a[2]] = &hhandle{state: hDead}
				return "err", true
			}
			x.handles[a[2]] = &hhandle{state: hReader, file: a[1], r: r}
			return "ok", true
		default:
			if x.handles[a[2]] != nil {
				return "", false
			}
			w, err := fs.Writer(name)
			if err != nil {
				x.handles[a[2]] = &hhandle{state: hDead}
				return "err", true
			}
			x.handles[a[2]] = &hhandle{state: hWriter, file: a[1], w: w}
			return "ok", true
		}
	}
	h := x.handles[a[0]]
	if h == nil {
		return "", false
	}
	if h.state == hDead {
		return "dead", true
	}
	switch f[0] {
	case "rd", "ra", "cr":
		if h.state != hReader {
			return "", false
		}
	default:
		if h.state != hWriter {
			return "", false
		}
	}
	switch f[0] {
	case "rd":
		buf := make([]byte, a[1])
		k, err := h.r.Read(buf)
		if err != nil && err != io.EOF {
			return "err", true
		}
		if x.onData != nil {
			x.onData(a[0], buf[:k], false)
		}
		return fmt.Sprintf("%s/%d", digest(buf[:k]), b2i(err == io.EOF)), true
	case "ra":
		d, err := ioutil.ReadAll(h.r)
		if err != nil {
			return "err", true
		}
		if x.onData != nil {
			x.onData(a[0], d, true)
		}
		return digest(d), true
	case "cr":
		h.state = hClosed
		return word(h.r.Close()), true
	case "wr":
		// the caller's buffer is overwritten as soon as Write has returned (io.Writer: must not retain p)
		p := pattern(a[1], a[2])
		n, err := h.w.Write(p)
		for i := range p {
			p[i] ^= 0xa5
		}
		if err == nil && n != a[1] {
			return "short", true
		}
		return word(err), true
	default:
		h.state = hClosed
		return word(h.w.Close()), true
	}
}

// run executes the steps; "bad-op" when the history is not well formed; a panic ends the answer list.
func (x *hrunner) run(steps []string) string {
	var out []string
	for _, tok := range steps {
		var (
			res string
			ok  bool
		)
		if p, _ := hx.Guard(func() { res, ok = x.step(tok) }); p {
			out = append(out, "panic")
			break
		}
		if !ok {
			return "bad-op"
		}
		out = append(out, res)
	}
	return "h=" + strings.Join(out, ",")
}

type hsetting struct {
	hostOnly     bool
	secret, salt []byte
}

func parseHSettings(s string) ([]hsetting, bool) {
	var res []hsetting
	for _, e := range strings.Split(s, ",") {
		f := strings.Split(e, ":")
		if len(f) != 3 || (f[0] != "0" && f[0] != "1") {
			return nil, false
		}
		sec, err1 := hx.Dec(f[1])
		salt, err2 := hx.Dec(f[2])
		if err1 != nil || err2 != nil {
			return nil, false
		}
		res = append(res, hsetting{f[0] == "1", sec, salt})
	}
	return res, true
}

// runHist: one base, one encrypted filespace per setting (all with the same process-wide cipher), the steps.
func runHist(kind, baseKind string, sets []hsetting, steps []string, onData func(int, []byte, bool)) string {
	base, cleanup, err := newBase(baseKind)
	if err != nil {
		return "infra-error " + err.Error()
	}
	defer cleanup()
	x := &hrunner{handles: map[int]*hhandle{}, onData: onData}
	for _, s := range sets {
		x.fss = append(x.fss, newEnc(base, s.hostOnly, s.secret, s.salt, realCipher(kind)))
	}
	return x.run(steps)
}

func doHist(f []string) string {
	if (f[1] != "raw" && f[1] != "tagged") || (f[2] != "mem" && f[2] != "disk") {
		return "bad-op"
	}
	sets, ok := parseHSettings(f[3])
	if !ok {
		return "bad-op"
	}
	return runHist(f[1], f[2], sets, strings.Split(f[4], ","), nil)
}

// ---------------------------------------------------------------------------------------------- generator

// histSizes: the classes of the systematic part.
var histSizes = []int{0, 1, 16, 600, 1024, 4096, 65537}

// randHistSize: 0, tiny, AES block edges, around 512 (first growth of a read buffer), around 1 KiB, around 4 KiB,
// 64 KiB + 1 and its neighbours, anything up to 3000.
func randHistSize(r *hx.Rand) int {
	switch r.Intn(16) {
	case 0:
		return 0
	case 1, 2:
		return 1 + r.Intn(40)
	case 3:
		return 15 + r.Intn(3)
	case 4:
		return 480 + r.Intn(64)
	case 5, 6:
		return 960 + r.Intn(130)
	case 7:
		return 1024
	case 8, 9:
		return 4064 + r.Intn(64)
	case 10:
		return 4096
	case 11:
		if r.Chance(1, 2) {
			return 65537
		}
		return 65500 + r.Intn(80)
	case 12:
		return 2000 + r.Intn(7000)
	}
	return r.Intn(3000)
}

type gReader struct{ h, size int }
type gWriter struct{ h, file, fs int }

// genHistSteps builds one random history.  class[i] = key class of filespace i (equal class = may read each
// other's files); the generator prefers reads that must succeed but also reads through another key, reads of
// files that do not exist and of files that were never written.
func genHistSteps(r *hx.Rand, class []int) []string {
	var (
		steps   []string
		readers []gReader
		writers []gWriter
		owner   = map[int]int{} // file -> filespace that wrote it last
		size    = map[int]int{}
		nextH   = 1
		nfiles  = 2 + r.Intn(3)
	)
	add := func(format string, a ...interface{}) { steps = append(steps, fmt.Sprintf(format, a...)) }
	busy := func(file int) bool {
		for _, w := range writers {
			if w.file == file {
				return true
			}
		}
		return false
	}
	freeFile := func() int {
		for try := 0; try < 8; try++ {
			if f := r.Intn(nfiles); !busy(f) {
				return f
			}
		}
		return -1
	}
	readerFs := func(file int) int {
		o, ok := owner[file]
		if !ok || r.Chance(1, 8) {
			return r.Intn(len(class))
		}
		// a filespace of the same key class
		var same []int
		for i, c := range class {
			if c == class[o] {
				same = append(same, i)
			}
		}
		return same[r.Intn(len(same))]
	}
	bufSize := func(n int) int {
		pool := []int{0, 1, 16, 100, 512, 1000, 1024, 4096, n, n + 5, 1 + n/2, 1 + n/3}
		return pool[r.Intn(len(pool))]
	}
	// some content to begin with
	for f := 0; f < nfiles; f++ {
		if r.Chance(1, 6) {
			continue
		}
		fs, n := r.Intn(len(class)), randHistSize(r)
		add("wf:%d:%d:%d:%d", fs, f, n, r.Intn(256))
		owner[f], size[f] = fs, n
	}
	if len(steps) == 0 { // never an empty history
		n := randHistSize(r)
		add("wf:0:0:%d:%d", n, r.Intn(256))
		owner[0], size[0] = 0, n
	}
	for k := 6 + r.Intn(18); k > 0; k-- {
		switch c := r.Intn(22); {
		case c < 5: // open a reader
			if f := freeFile(); f >= 0 && len(readers) < 5 {
				add("or:%d:%d:%d", readerFs(f), f, nextH)
				readers = append(readers, gReader{nextH, size[f]})
				nextH++
			}
		case c < 9: // one Read
			if len(readers) > 0 {
				rd := readers[r.Intn(len(readers))]
				add("rd:%d:%d", rd.h, bufSize(rd.size))
			}
		case c < 11: // drain
			if len(readers) > 0 {
				add("ra:%d", readers[r.Intn(len(readers))].h)
			}
		case c < 13: // close a reader
			if len(readers) > 0 {
				i := r.Intn(len(readers))
				add("cr:%d", readers[i].h)
				readers = append(readers[:i], readers[i+1:]...)
			}
		case c < 15: // whole-file write (also over a file that open readers were opened on)
			if f := freeFile(); f >= 0 {
				fs, n := r.Intn(len(class)), randHistSize(r)
				add("wf:%d:%d:%d:%d", fs, f, n, r.Intn(256))
				owner[f], size[f] = fs, n
			}
		case c < 16:
			if f := freeFile(); f >= 0 {
				add("rf:%d:%d", readerFs(f), f)
			}
		case c < 18: // open a writer
			if f := freeFile(); f >= 0 && len(writers) < 3 {
				fs := r.Intn(len(class))
				add("ow:%d:%d:%d", fs, f, nextH)
				writers = append(writers, gWriter{nextH, f, fs})
				nextH++
				size[f] = 0
			}
		case c < 20: // one Write
			if len(writers) > 0 {
				w := writers[r.Intn(len(writers))]
				n := randHistSize(r)
				if r.Chance(1, 2) {
					n = r.Intn(64)
				}
				add("wr:%d:%d:%d", w.h, n, r.Intn(256))
				size[w.file] += n
			}
		default: // close a writer
			if len(writers) > 0 {
				i := r.Intn(len(writers))
				add("cw:%d", writers[i].h)
				owner[writers[i].file] = writers[i].fs
				writers = append(writers[:i], writers[i+1:]...)
			}
		}
	}
	// finish: writers and readers in any order; most readers are drained first
	for len(readers)+len(writers) > 0 {
		if i := r.Intn(len(readers) + len(writers)); i < len(readers) {
			if !r.Chance(1, 5) {
				add("ra:%d", readers[i].h)
			}
			add("cr:%d", readers[i].h)
			readers = append(readers[:i], readers[i+1:]...)
		} else {
			i -= len(readers)
			add("cw:%d", writers[i].h)
			owner[writers[i].file] = writers[i].fs
			writers = append(writers[:i], writers[i+1:]...)
		}
	}
	for f := 0; f < nfiles; f++ {
		if o, ok := owner[f]; ok {
			add("rf:%d:%d", o, f)
		}
	}
	return steps
}

func showHSettings(sets []hsetting) string {
	s := make([]string, len(sets))
	for i, x := range sets {
		s[i] = fmt.Sprintf("%d:%s:%s", b2i(x.hostOnly), hx.Enc(x.secret), hx.Enc(x.salt))
	}
	return strings.Join(s, ",")
}

func randHistKindBase(r *hx.Rand) (string, string) {
	base := "mem"
	if r.Chance(1, 7) {
		base = "disk"
	}
	return r.Pick([]string{"raw", "tagged"}), base
}

// genHist: settings from the colliding pool (equal concatenations read each other's files: the model decides).
func genHist(w *bufio.Writer, r *hx.Rand) {
	kind, base := randHistKindBase(r)
	var sets []hsetting
	for k := []int{1, 1, 2, 2, 3}[r.Intn(5)]; k > 0; k-- {
		h, sec, salt := randSetting(r)
		if len(sets) > 0 && r.Chance(1, 4) {
			sets = append(sets, sets[0])
			continue
		}
		sets = append(sets, hsetting{h == "1", sec, salt})
	}
	class := make([]int, len(sets))
	for i := range sets {
		class[i] = i
		for j := 0; j < i; j++ {
			if bytes.Equal(append(append([]byte{}, sets[i].secret...), sets[i].salt...), append(append([]byte{}, sets[j].secret...), sets[j].salt...)) {
				class[i] = class[j]
				break
			}
		}
	}
	fmt.Fprintf(w, "hist %s %s %s %s\n", kind, base, showHSettings(sets), strings.Join(genHistSteps(r, class), ","))
}

// genHistSweep: for EVERY ordered pair of size classes and both ciphers: two files, a reader on the first, then
// (before anything was read from it) a reader on the second — on another file of the same filespace, or through a
// second filespace with another secret —, the first is read in two pieces around the drain of the second; and the
// same with a whole-file overwrite of the first file in between.  Then two writers whose chunks alternate.
func genHistSweep(w *bufio.Writer) {
	one := "0:736563726574:73616c74"
	two := one + ",0:6f74686572:73616c74"
	for _, kind := range []string{"raw", "tagged"} {
		for i, a := range histSizes {
			for j, b := range histSizes {
				base := "mem"
				if (i+j)%5 == 4 {
					base = "disk"
				}
				fmt.Fprintf(w, "hist %s %s %s wf:0:0:%d:1,wf:0:1:%d:2,or:0:0:1,or:0:1:2,rd:1:%d,ra:2,ra:1,cr:2,cr:1,rf:0:0,rf:0:1\n",
					kind, base, one, a, b, 1+a/2)
				fmt.Fprintf(w, "hist %s %s %s wf:0:0:%d:1,wf:1:1:%d:2,or:0:0:1,or:1:1:2,or:0:1:3,ra:1,ra:2,cr:1,cr:2\n",
					kind, base, two, a, b)
				fmt.Fprintf(w, "hist %s %s %s wf:0:0:%d:1,or:0:0:1,wf:0:0:%d:2,or:0:0:2,rd:1:16,rf:0:0,ra:1,ra:2,cr:1,cr:2\n",
					kind, base, one, a, b)
				fmt.Fprintf(w, "hist %s %s %s ow:0:0:1,ow:0:1:2,wr:1:%d:1,wr:2:%d:2,wr:1:7:3,wr:2:%d:4,cw:%d,cw:%d,rf:0:0,rf:0:1\n",
					kind, base, one, a, b, a, 1+(i+j)%2, 2-(i+j)%2)
			}
		}
	}
}

// ---------------------------------------------------------------------------------------------- oracle

// specHist is the property at the level of plaintexts: no cipher, no stored bytes.  It follows a history and
// judges what the implementation answered and delivered.
//
//	a write (WriteFile, or Writer…Close) by filespace i makes (content, key class of i) the content of the file;
//	ReadFile / Reader through a filespace of the same key class answers that content / succeeds, through another
//	key class (or on a missing file) it is an error;
//	everything a reader delivers, over all its Reads, is a prefix of the content the file had WHEN THE READER WAS
//	OPENED, and after a read-to-the-end it is that whole content — whatever was opened, read, written or closed in
//	between.
//
// How many bytes a single Read delivers and when it reports EOF is not judged here (io.Reader leaves it open).
type specFile struct {
	data  []byte
	class int
}

type specReader struct {
	snap      []byte
	delivered []byte
	drained   bool
}

func specHist(class []int, steps, answers []string, delivered map[int][][]byte) string {
	files := map[int]*specFile{}
	readers := map[int]*specReader{}
	dead := map[int]bool{}
	type wr struct {
		file, fs int
		buf      []byte
	}
	writers := map[int]*wr{}
	seen := map[int]int{}
	for i, tok := range steps {
		if i >= len(answers) {
			return fmt.Sprintf("step %d (%s): no answer (the history stopped after %d steps)", i, tok, len(answers))
		}
		ans := answers[i]
		if ans == "panic" {
			return fmt.Sprintf("step %d (%s): panic", i, tok)
		}
		f := strings.Split(tok, ":")
		a, _ := atoiAll(f[1:])
		switch f[0] {
		case "wf":
			if ans != "ok" {
				return fmt.Sprintf("step %d (%s): WriteFile answered %s", i, tok, ans)
			}
			files[a[1]] = &specFile{pattern(a[2], a[3]), class[a[0]]}
		case "rf":
			sf := files[a[1]]
			switch {
			case sf == nil || sf.class != class[a[0]]:
				if ans != "err" {
					return fmt.Sprintf("step %d (%s): ReadFile of a missing file / through another secret answered %s, not an error", i, tok, ans)
				}
			case ans != digest(sf.data):
				return fmt.Sprintf("step %d (%s): ReadFile answered %s, the file holds %s", i, tok, ans, digest(sf.data))
			}
		case "or":
			sf := files[a[1]]
			if sf == nil || sf.class != class[a[0]] {
				if ans != "err" {
					return fmt.Sprintf("step %d (%s): Reader on a missing file / through another secret answered %s, not an error", i, tok, ans)
				}
				dead[a[2]] = true
				continue
			}
			if ans != "ok" {
				return fmt.Sprintf("step %d (%s): Reader answered %s", i, tok, ans)
			}
			readers[a[2]] = &specReader{snap: sf.data} // contents are never modified in place: a new write is a new slice
		case "rd", "ra":
			if dead[a[0]] {
				continue
			}
			rd := readers[a[0]]
			if ans == "err" {
				return fmt.Sprintf("step %d (%s): reading answered an error", i, tok)
			}
			if seen[a[0]] >= len(delivered[a[0]]) {
				return fmt.Sprintf("step %d (%s): answered %s where a reader must deliver data", i, tok, ans)
			}
			got := delivered[a[0]][seen[a[0]]]
			seen[a[0]]++
			rd.delivered = append(rd.delivered, got...)
			if !bytes.HasPrefix(rd.snap, rd.delivered) {
				return fmt.Sprintf("step %d (%s): the reader delivered bytes that are not the content its file had when it was "+
					"opened (file content at open %s; delivered so far %s, this read %s)", i, tok, digest(rd.snap), digest(rd.delivered), digest(got))
			}
			if f[0] == "ra" {
				rd.drained = true
			}
			if rd.drained && len(rd.delivered) != len(rd.snap) {
				return fmt.Sprintf("step %d (%s): after reading to the end the reader has delivered %d of the %d bytes its file "+
					"had when it was opened", i, tok, len(rd.delivered), len(rd.snap))
			}
		case "cr":
			if !dead[a[0]] && ans != "ok" {
				return fmt.Sprintf("step %d (%s): Close of a reader answered %s", i, tok, ans)
			}
		case "ow":
			if ans != "ok" {
				return fmt.Sprintf("step %d (%s): Writer answered %s", i, tok, ans)
			}
			writers[a[2]] = &wr{file: a[1], fs: a[0]}
		case "wr":
			if ans != "ok" {
				return fmt.Sprintf("step %d (%s): Write answered %s", i, tok, ans)
			}
			writers[a[0]].buf = append(writers[a[0]].buf, pattern(a[1], a[2])...)
		case "cw":
			if ans != "ok" {
				return fmt.Sprintf("step %d (%s): Close of a writer answered %s", i, tok, ans)
			}
			w := writers[a[0]]
			files[w.file] = &specFile{append([]byte{}, w.buf...), class[w.fs]}
		}
	}
	return ""
}

// handleHistories: random histories (the generator of the `hist` family) on the real code, judged by specHist.
// Filespace i has the secret "key-<class>": different classes have different key material.
func (o *orc) handleHistories() {
	n := 400
	if o.tier == "thorough" {
		n = 6000
	}
	for c := 0; c < n; c++ {
		kind, base := randHistKindBase(o.r)
		nfs := []int{1, 1, 2, 3}[o.r.Intn(4)]
		class := make([]int, nfs)
		var sets []hsetting
		hostOnly := o.r.Chance(1, 4)
		for i := range class {
			class[i] = o.r.Intn(2)
			if i == 0 {
				class[i] = 0
			}
			sets = append(sets, hsetting{hostOnly, []byte(fmt.Sprintf("key-%d", class[i])), []byte("salt")})
		}
		steps := genHistSteps(o.r, class)
		line := fmt.Sprintf("hist %s %s %s %s", kind, base, showHSettings(sets), strings.Join(steps, ","))
		o.at(line)
		delivered := map[int][][]byte{}
		res := runHist(kind, base, sets, steps, func(h int, b []byte, all bool) {
			delivered[h] = append(delivered[h], append([]byte{}, b...))
		})
		opened, maxOpen, cur := 0, 0, 0
		for _, s := range steps {
			switch s[:2] {
			case "or", "ow":
				opened++
				cur++
			case "cr", "cw":
				cur--
			}
			if cur > maxOpen {
				maxOpen = cur
			}
		}
		o.count(fmt.Sprintf("handles:%s:%s:open-at-once-%d", kind, base, minInt(maxOpen, 4)))
		if !strings.HasPrefix(res, "h=") {
			o.fail("handles", fmt.Sprintf("%s: %s", res, line))
			continue
		}
		if why := specHist(class, steps, strings.Split(res[2:], ","), delivered); why != "" {
			o.fail("handles", fmt.Sprintf("%s: %s", why, line))
		}
	}
}

func minInt(a, b int) int {
	if a < b {
		return a
	}
	return b
}
