// Command enc is the implementation-side driver, generator and oracle of the `enc` line protocol
// (property C05, encrypted filespace).  The protocol is described in lean/Driver/Encrypt.lean.
//
//	enc drive            ops on stdin -> one result line per op on stdout (same format as m_enc)
//	enc gen <n>          systematic truncation/corruption sweeps followed by n random op lines (VERIF_SEED)
//	enc oracle <quick|thorough>   the property's clauses evaluated on the real AES-GCM code alone
//	enc hostid           prints what idutil.HostID() returns
package main

import (
	"bufio"
	"bytes"
	"crypto/aes"
	"crypto/cipher"
	"errors"
	"fmt"
	"io"
	"io/ioutil"
	"os"
	"strconv"
	"strings"
	"sync"
	"time"

	"gcverif/internal/hx"

	"github.com/goatcms/goatcore/filesystem"
	"github.com/goatcms/goatcore/filesystem/filespace/diskfs"
	"github.com/goatcms/goatcore/filesystem/filespace/encryptfs"
	"github.com/goatcms/goatcore/filesystem/filespace/encryptfs/cipherfs"
	"github.com/goatcms/goatcore/filesystem/filespace/encryptfs/cipherfs/aesgcm256cfs"
	"github.com/goatcms/goatcore/filesystem/filespace/encryptfs/cipherfs/extcfs"
	"github.com/goatcms/goatcore/filesystem/filespace/memfs"
	"github.com/goatcms/goatcore/varutil/idutil"
)

const fileName = "f.bin"
const caseTimeout = 20 * time.Second

// ---------------------------------------------------------------------------------------------- helpers

// every temporary directory is registered so that main can remove what a blocked case left behind
var (
	tempMu   sync.Mutex
	tempDirs = map[string]bool{}
)

func removeTemp(dir string) {
	os.RemoveAll(dir)
	tempMu.Lock()
	delete(tempDirs, dir)
	tempMu.Unlock()
}

func removeAllTemp() {
	tempMu.Lock()
	defer tempMu.Unlock()
	for d := range tempDirs {
		os.RemoveAll(d)
	}
}

func newBase(kind string) (FS, func(), error) {
	switch kind {
	case "mem":
		fs, err := memfs.NewFilespace()
		return fs, func() {}, err
	case "disk":
		dir, err := ioutil.TempDir("/var/tmp", "c05-")
		if err != nil {
			return nil, nil, err
		}
		tempMu.Lock()
		tempDirs[dir] = true
		tempMu.Unlock()
		fs, err := diskfs.NewFilespace(dir)
		return fs, func() { removeTemp(dir) }, err
	}
	return nil, nil, errors.New("unknown base " + kind)
}

func realCipher(kind string) cipherfs.Cipher {
	if kind == "raw" {
		return aesgcm256cfs.NewCipher()
	}
	return extcfs.NewDefaultCipher()
}

// spare returns a copy of b with spare capacity (cap > len), as a slice cut out of a larger read buffer has.
func spare(b []byte) []byte {
	out := make([]byte, len(b), len(b)+64)
	copy(out, b)
	return out
}

// scribble overwrites a caller-side buffer in its whole capacity: the content is inverted, the spare part filled.
func scribble(b []byte) {
	full := b[:cap(b)]
	for i := range full {
		if i < len(b) {
			full[i] ^= 0xff
		} else {
			full[i] = 0xa5
		}
	}
}

// newEnc builds an encrypted filespace the way a caller may: Secret and Salt are slices with spare capacity,
// and the caller wipes/reuses both buffers right after the constructor returned.  The settings handed in are
// the caller's; an existing filespace must not depend on what happens to them later (snapshot principle).
func newEnc(base FS, hostOnly bool, secret, salt []byte, c cipherfs.Cipher) FS {
	sec, sal := spare(secret), spare(salt)
	fs, err := encryptfs.NewEncryptFS(base, encryptfs.Settings{Salt: sal, Secret: sec, HostOnly: hostOnly, Cipher: c})
	if err != nil {
		panic(err)
	}
	scribble(sec)
	scribble(sal)
	return fs
}

// sharedMatrix runs several filespaces side by side whose settings are cut out of SHARED backing arrays: every
// one gets the very same Secret slice (with spare capacity) and a salt that is a sub-slice of one common array
// (so each salt's capacity runs over the following salts).  Filespace i is built, then writes its own file,
// before filespace i+1 is built.  With mutate, both arrays are scribbled over afterwards.  Answer: for every
// reader i a word over {s,o,e,p}: file j read back the same / other data / error / panic.
func sharedMatrix(c cipherfs.Cipher, base FS, hostOnly bool, secret []byte, salts [][]byte, mutate bool, wp, rp string) string {
	secBuf := spare(secret)
	saltArr := spare(bytes.Join(salts, nil))
	var (
		fss  []FS
		data [][]byte
		off  int
	)
	for i, salt := range salts {
		sl := saltArr[off : off+len(salt)] // cap reaches to the end of the array
		off += len(salt)
		fs, err := encryptfs.NewEncryptFS(base, encryptfs.Settings{Salt: sl, Secret: secBuf, HostOnly: hostOnly, Cipher: c})
		if err != nil {
			return "infra-error " + err.Error()
		}
		fss = append(fss, fs)
		d := []byte(fmt.Sprintf("data written by filespace number %d", i))
		data = append(data, d)
		var werr error
		if p, _ := hx.Guard(func() { werr = writeVia(fs, fmt.Sprintf("f%d.bin", i), wp, [][]byte{d}) }); p {
			return "m=wpanic"
		}
		if werr != nil {
			return "m=werr"
		}
	}
	if mutate {
		scribble(secBuf)
		scribble(saltArr)
	}
	rows := make([]string, len(fss))
	for i, fs := range fss {
		row := make([]byte, len(fss))
		for j := range fss {
			var (
				parts []part
				err   error
			)
			pan, _ := hx.Guard(func() { parts, err = readVia(fs, fmt.Sprintf("f%d.bin", j), rp, nil) })
			switch {
			case pan:
				row[j] = 'p'
			case err != nil:
				row[j] = 'e'
			case bytes.Equal(content(parts), data[j]):
				row[j] = 's'
			default:
				row[j] = 'o'
			}
		}
		rows[i] = string(row)
	}
	return "m=" + strings.Join(rows, ",")
}

func decList(s string) [][]byte {
	if s == "_" {
		return nil
	}
	var res [][]byte
	for _, x := range strings.Split(s, ",") {
		res = append(res, hx.MustDec(x))
	}
	return res
}

func encList(l [][]byte) string {
	if len(l) == 0 {
		return "_"
	}
	s := make([]string, len(l))
	for i, x := range l {
		s[i] = hx.Enc(x)
	}
	return strings.Join(s, ",")
}

func decSizes(s string) []int {
	if s == "_" {
		return nil
	}
	var res []int
	for _, x := range strings.Split(s, ",") {
		n, err := strconv.Atoi(x)
		if err != nil {
			fmt.Fprintln(os.Stderr, "bad size", x)
			os.Exit(3)
		}
		res = append(res, n)
	}
	return res
}

func encSizes(l []int) string {
	if len(l) == 0 {
		return "_"
	}
	s := make([]string, len(l))
	for i, x := range l {
		s[i] = strconv.Itoa(x)
	}
	return strings.Join(s, ",")
}

func tamper(stored []byte, t string) []byte {
	f := strings.Split(t, ":")
	out := append([]byte{}, stored...)
	switch f[0] {
	case "none":
	case "trunc":
		n, _ := strconv.Atoi(f[1])
		if n < len(out) {
			out = out[:n]
		}
	case "flip":
		i, _ := strconv.Atoi(f[1])
		x := hx.MustDec(f[2])
		if i < len(out) && len(x) == 1 {
			out[i] ^= x[0]
		}
	case "set":
		out = hx.MustDec(f[1])
	}
	return out
}

// writeVia writes the chunks through fs: one WriteFile of their concatenation, or Writer/Write*/Close.
func writeVia(fs FS, path string, wp string, chunks [][]byte) error {
	if wp == "whole" {
		return fs.WriteFile(path, bytes.Join(chunks, nil), filesystem.DefaultUnixFileMode)
	}
	w, err := fs.Writer(path)
	if err != nil {
		return err
	}
	// like io.Copy, the caller owns ONE scratch buffer: every chunk is written from it and the buffer is
	// overwritten as soon as Write has returned (io.Writer: "implementations must not retain p"), so a
	// writer that keeps the slice instead of its bytes stores garbage
	scratch := make([]byte, 0, 64)
	for _, c := range chunks {
		scratch = append(scratch[:0], c...)
		if _, err = w.Write(scratch); err != nil {
			w.Close()
			return err
		}
		for i := range scratch {
			scratch[i] ^= 0xa5
		}
	}
	return w.Close()
}

type part struct {
	data []byte
	eof  bool
}

// serve performs one Read per buffer size and then reads everything that is left.
func serve(r io.Reader, sizes []int) ([]part, error) {
	var parts []part
	for _, n := range sizes {
		buf := make([]byte, n)
		k, err := r.Read(buf)
		if err != nil && err != io.EOF {
			return nil, err
		}
		parts = append(parts, part{append([]byte{}, buf[:k]...), err == io.EOF})
	}
	rest, err := ioutil.ReadAll(r)
	if err != nil {
		return nil, err
	}
	return append(parts, part{rest, true}), nil
}

func readVia(fs FS, path string, rp string, sizes []int) ([]part, error) {
	if rp == "whole" {
		d, err := fs.ReadFile(path)
		if err != nil {
			return nil, err
		}
		return []part{{d, true}}, nil
	}
	r, err := fs.Reader(path)
	if err != nil {
		return nil, err
	}
	defer r.Close()
	return serve(r, sizes)
}

func showParts(parts []part) string {
	if len(parts) == 0 {
		return "_"
	}
	s := make([]string, len(parts))
	for i, p := range parts {
		e := 0
		if p.eof {
			e = 1
		}
		s[i] = fmt.Sprintf("%s/%d", hx.Enc(p.data), e)
	}
	return strings.Join(s, ",")
}

func content(parts []part) []byte {
	var b []byte
	for _, p := range parts {
		b = append(b, p.data...)
	}
	return b
}

func b2i(b bool) int {
	if b {
		return 1
	}
	return 0
}

// withWatchdog runs f; "hang" when it does not return in time (a leaked lock blocks for ever).
func withWatchdog(f func() string) string {
	ch := make(chan string, 1)
	go func() {
		var res string
		if p, v := hx.Guard(func() { res = f() }); p {
			res = fmt.Sprintf("panic-outside-case %v", v)
		}
		ch <- res
	}()
	select {
	case r := <-ch:
		return r
	case <-time.After(caseTimeout):
		return "hang"
	}
}

// ---------------------------------------------------------------------------------------------- drive

func toyCipherOf(spec string, entropy []byte) cipherfs.Cipher {
	toy := &toyCipher{entropy: entropy}
	if spec == "toy" {
		return toy
	}
	n, err := strconv.ParseUint(strings.TrimPrefix(spec, "ext:"), 10, 32)
	if err != nil {
		fmt.Fprintln(os.Stderr, "bad cipher", spec)
		os.Exit(3)
	}
	m := extcfs.CipherMap{0: aesgcm256cfs.NewCipher()}
	m[extcfs.CipherKey(n)] = toy
	c, err := extcfs.NewCipher(extcfs.CipherKey(n), m)
	if err != nil {
		panic(err)
	}
	return c
}

func readResult(spy *spyFS, fs FS, rp string, sizes []int) string {
	var (
		parts []part
		err   error
	)
	if p, _ := hx.Guard(func() { parts, err = readVia(fs, fileName, rp, sizes) }); p {
		r, _ := spy.leaked()
		return fmt.Sprintf("r=panic parts=_ leak=%d", b2i(r > 0))
	}
	r, _ := spy.leaked()
	if err != nil {
		return fmt.Sprintf("r=err parts=_ leak=%d", b2i(r > 0))
	}
	return fmt.Sprintf("r=ok parts=%s leak=%d", showParts(parts), b2i(r > 0))
}

func doFs(f []string) string {
	c := toyCipherOf(f[1], hx.MustDec(f[7]))
	base, cleanup, err := newBase(f[2])
	if err != nil {
		return "infra-error " + err.Error()
	}
	defer cleanup()
	spy := newSpy(base)
	fs1 := newEnc(spy, f[3] == "1", hx.MustDec(f[4]), hx.MustDec(f[5]), c)
	fs2 := newEnc(spy, f[10] == "1", hx.MustDec(f[11]), hx.MustDec(f[12]), c)
	var werr error
	if p, _ := hx.Guard(func() { werr = writeVia(fs1, fileName, f[6], decList(f[8])) }); p {
		return "w=panic"
	}
	if werr != nil {
		return "w=err"
	}
	stored, err := base.ReadFile(fileName)
	if err != nil {
		return "w=ok stored=?"
	}
	if f[9] != "none" {
		if err = base.WriteFile(fileName, tamper(stored, f[9]), filesystem.DefaultUnixFileMode); err != nil {
			return "infra-error " + err.Error()
		}
	}
	return fmt.Sprintf("w=ok stored=%s %s", hx.Enc(stored), readResult(spy, fs2, f[13], decSizes(f[14])))
}

var errBad = errors.New("stream failure")

// srcReader is the filesystem.Reader handed to DecryptReader in `aes` lines.
type srcReader struct {
	data   []byte
	bad    bool
	closed bool
}

func (r *srcReader) Read(p []byte) (int, error) {
	if len(r.data) == 0 {
		if r.bad {
			return 0, errBad
		}
		return 0, io.EOF
	}
	n := copy(p, r.data)
	r.data = r.data[n:]
	return n, nil
}
func (r *srcReader) Close() error { r.closed = true; return nil }

func doAes(f []string) string {
	c := realCipher(f[1])
	km, stored, sizes := hx.MustDec(f[4]), hx.MustDec(f[5]), decSizes(f[7])
	var (
		parts []part
		err   error
		leak  bool
	)
	pan, _ := hx.Guard(func() {
		if f[2] == "whole" {
			var d []byte
			if d, err = c.Decrypt(km, stored); err == nil {
				parts = []part{{d, true}}
			}
			return
		}
		src := &srcReader{data: append([]byte{}, stored...), bad: f[3] == "1"}
		defer func() { leak = !src.closed }()
		var r filesystem.Reader
		if r, err = c.DecryptReader(km, src); err != nil {
			return
		}
		parts, err = serve(r, sizes)
		r.Close()
	})
	switch {
	case pan:
		return fmt.Sprintf("r=panic parts=_ leak=%d", b2i(leak))
	case err != nil:
		return fmt.Sprintf("r=err parts=_ leak=%d", b2i(leak))
	}
	return fmt.Sprintf("r=ok parts=%s leak=%d", showParts(parts), b2i(leak))
}

func doXkey(f []string) string {
	c := realCipher(f[1])
	base, cleanup, err := newBase(f[2])
	if err != nil {
		return "infra-error " + err.Error()
	}
	defer cleanup()
	fs1 := newEnc(base, f[3] == "1", hx.MustDec(f[4]), hx.MustDec(f[5]), c)
	fs2 := newEnc(base, f[6] == "1", hx.MustDec(f[7]), hx.MustDec(f[8]), c)
	pt := hx.MustDec(f[11])
	var (
		parts []part
		werr  error
		rerr  error
	)
	if p, _ := hx.Guard(func() {
		if werr = writeVia(fs1, fileName, f[9], [][]byte{pt}); werr == nil {
			parts, rerr = readVia(fs2, fileName, f[10], nil)
		}
	}); p {
		return "r=panic"
	}
	switch {
	case werr != nil:
		return "r=werr"
	case rerr != nil:
		return "r=err"
	case bytes.Equal(content(parts), pt):
		return "r=same"
	}
	return "r=other"
}

func doShared(f []string) string {
	base, cleanup, err := newBase(f[2])
	if err != nil {
		return "infra-error " + err.Error()
	}
	defer cleanup()
	return sharedMatrix(realCipher(f[1]), base, f[3] == "1", hx.MustDec(f[4]), decList(f[5]), f[6] == "1", f[7], f[8])
}

// nsTree is the content every `ns` line starts from (written through the encrypted filespace).
var nsTree = [][2]string{{"a/x.txt", "X-content-0123456789"}, {"a/b/y.txt", "Y"}, {"top.txt", "T-content"}}

func sameInfos(a []os.FileInfo, b interface{}) bool {
	bb, ok := b.([]os.FileInfo)
	if !ok || len(a) != len(bb) {
		return false
	}
	for i := range a {
		if a[i] != bb[i] {
			return false
		}
	}
	return true
}

func doNs(f []string) string {
	base, _, _ := newBase("mem")
	spy := newSpy(base)
	fs := newEnc(spy, false, []byte{1}, []byte{2}, realCipher("tagged"))
	for _, kv := range nsTree {
		if err := fs.WriteFile(kv[0], []byte(kv[1]), filesystem.DefaultUnixFileMode); err != nil {
			return "infra-error " + err.Error()
		}
	}
	spy.reset()
	arg := func(i int) string {
		if i < len(f) {
			return string(hx.MustDec(f[i]))
		}
		return ""
	}
	mode := func() os.FileMode {
		n, _ := strconv.ParseUint(f[3], 10, 32)
		return os.FileMode(n)
	}
	same := false
	pan, _ := hx.Guard(func() {
		switch f[1] {
		case "copy":
			same = fs.Copy(arg(2), arg(3)) == spy.lastErr
		case "copydirectory":
			same = fs.CopyDirectory(arg(2), arg(3)) == spy.lastErr
		case "copyfile":
			same = fs.CopyFile(arg(2), arg(3)) == spy.lastErr
		case "readdir":
			v, err := fs.ReadDir(arg(2))
			same = err == spy.lastErr && (err != nil || sameInfos(v, spy.lastVal))
		case "isexist":
			same = fs.IsExist(arg(2)) == spy.lastVal.(bool)
		case "isfile":
			same = fs.IsFile(arg(2)) == spy.lastVal.(bool)
		case "isdir":
			same = fs.IsDir(arg(2)) == spy.lastVal.(bool)
		case "mkdirall":
			same = fs.MkdirAll(arg(2), mode()) == spy.lastErr
		case "remove":
			same = fs.Remove(arg(2)) == spy.lastErr
		case "removeall":
			same = fs.RemoveAll(arg(2)) == spy.lastErr
		case "lstat":
			v, err := fs.Lstat(arg(2))
			same = err == spy.lastErr && (err != nil || v == spy.lastVal.(os.FileInfo))
		case "filespace":
			child, err := fs.Filespace(arg(2))
			same = err == spy.lastErr
			if err == nil {
				// the child keeps cipher and key material: what it writes the parent reads
				data := []byte("through the child filespace")
				if e := child.WriteFile("z.bin", data, filesystem.DefaultUnixFileMode); e == nil {
					back, e2 := fs.ReadFile(strings.TrimSuffix(arg(2), "/") + "/z.bin")
					same = same && e2 == nil && bytes.Equal(back, data)
				}
			}
		case "readfile":
			_, err := fs.ReadFile(arg(2))
			same = spy.lastErr == nil || err == spy.lastErr
		case "writefile":
			same = fs.WriteFile(arg(2), []byte("new content"), mode()) == spy.lastErr
		case "reader":
			r, err := fs.Reader(arg(2))
			same = spy.lastErr == nil || err == spy.lastErr
			if err == nil {
				r.Close()
			}
		case "writer":
			w, err := fs.Writer(arg(2))
			same = spy.lastErr == nil || err == spy.lastErr
			if err == nil {
				w.Close()
			}
		default:
			fmt.Fprintln(os.Stderr, "bad ns op", f[1])
			os.Exit(3)
		}
	})
	if pan {
		return "panic"
	}
	calls := spy.calls
	if f[1] == "filespace" && len(calls) > 1 {
		calls = calls[:1] // the probe through the child is not part of the answer
	}
	return fmt.Sprintf("calls=%s same=%d", strings.Join(calls, ";"), b2i(same))
}

func step(line string) string {
	f := strings.Split(line, " ")
	switch {
	case f[0] == "fs" && len(f) == 15:
		return withWatchdog(func() string { return doFs(f) })
	case f[0] == "aes" && len(f) == 8:
		return withWatchdog(func() string { return doAes(f) })
	case f[0] == "xkey" && len(f) == 12:
		return withWatchdog(func() string { return doXkey(f) })
	case f[0] == "shared" && len(f) == 9:
		return withWatchdog(func() string { return doShared(f) })
	case f[0] == "ns" && len(f) >= 3:
		return withWatchdog(func() string { return doNs(f) })
	case f[0] == "hist" && len(f) == 5:
		return withWatchdog(func() string { return doHist(f) })
	}
	return "bad-op"
}

func drive(w *bufio.Writer) {
	sc := bufio.NewScanner(os.Stdin)
	sc.Buffer(make([]byte, 1<<20), 1<<28)
	for sc.Scan() {
		line := strings.TrimRight(sc.Text(), "\r\n")
		if line == "" || strings.HasPrefix(line, "#") {
			continue
		}
		fmt.Fprintln(w, step(line))
		w.Flush()
	}
}

// ---------------------------------------------------------------------------------------------- gen

var secretPool = []string{"", "s", "st", "t", "secret", "secre", "\x00", "s\x00"}
var saltPool = []string{"", "t", "salt", "tsalt", "\x00", "alt"}

func randBytes(r *hx.Rand, n int) []byte {
	b := make([]byte, n)
	for i := range b {
		b[i] = byte(r.U64())
	}
	return b
}

func randPlain(r *hx.Rand) []byte {
	switch r.Intn(12) {
	case 0:
		return []byte{}
	case 1:
		return randBytes(r, 1)
	case 2:
		return randBytes(r, 15)
	case 3:
		return randBytes(r, 16)
	case 4:
		return randBytes(r, 17)
	case 5:
		return bytes.Repeat([]byte{0}, 1+r.Intn(40))
	case 6:
		return bytes.Repeat([]byte{0xff}, 1+r.Intn(40))
	case 7:
		return randBytes(r, 256+r.Intn(300))
	case 8:
		if r.Chance(1, 8) {
			return randBytes(r, 4096)
		}
		return randBytes(r, 64)
	}
	return randBytes(r, r.Intn(48))
}

func randChunks(r *hx.Rand, pt []byte) [][]byte {
	var res [][]byte
	if r.Chance(1, 10) {
		if len(pt) == 0 {
			return nil // Writer, Close without any Write
		}
	}
	rest := pt
	for k := r.Intn(4); k > 0 && len(rest) > 0; k-- {
		n := r.Intn(len(rest) + 1)
		res = append(res, rest[:n])
		rest = rest[n:]
		if r.Chance(1, 6) {
			res = append(res, []byte{})
		}
	}
	return append(res, rest)
}

func randSizes(r *hx.Rand, n int) []int {
	var res []int
	pool := []int{0, 1, 2, 3, 5, 16, n, n + 5, 1 + n/2}
	for k := r.Intn(5); k > 0; k-- {
		res = append(res, pool[r.Intn(len(pool))])
	}
	return res
}

func randSetting(r *hx.Rand) (string, []byte, []byte) {
	sec, salt := []byte(r.Pick(secretPool)), []byte(r.Pick(saltPool))
	if r.Chance(1, 6) {
		sec = randBytes(r, 1+r.Intn(8))
	}
	if r.Chance(1, 6) {
		salt = randBytes(r, 1+r.Intn(8))
	}
	return strconv.Itoa(r.Intn(2)), sec, salt
}

func randTamper(r *hx.Rand, storedLen int, hdr []byte) string {
	switch r.Intn(20) {
	case 0, 1, 2, 3:
		return fmt.Sprintf("trunc:%d", r.Intn(storedLen+2))
	case 4, 5:
		return fmt.Sprintf("trunc:%d", r.Intn(18))
	case 6, 7, 8, 9:
		return fmt.Sprintf("flip:%d:%02x", r.Intn(storedLen+1), 1+r.Intn(255))
	case 10:
		return fmt.Sprintf("flip:%d:%02x", r.Intn(5), 1+r.Intn(255))
	case 11:
		return "set:" + hx.Enc(randBytes(r, r.Intn(40)))
	case 12:
		// a plausible header followed by junk of every small length
		return "set:" + hx.Enc(append(append([]byte{}, hdr...), randBytes(r, r.Intn(20))...))
	}
	return "none"
}

func tagLE(n uint32) []byte { return []byte{byte(n), byte(n >> 8), byte(n >> 16), byte(n >> 24)} }

var cipherSpecs = []string{"toy", "toy", "toy", "ext:7", "ext:7", "ext:7", "ext:0", "ext:16909060", "ext:4294967295", "ext:256"}

func specHeader(spec string) []byte {
	if spec == "toy" {
		return nil
	}
	n, _ := strconv.ParseUint(strings.TrimPrefix(spec, "ext:"), 10, 32)
	return tagLE(uint32(n))
}

func genFs(w *bufio.Writer, r *hx.Rand) {
	spec := r.Pick(cipherSpecs)
	base := "mem"
	if r.Chance(1, 7) {
		base = "disk"
	}
	h1, sec1, salt1 := randSetting(r)
	h2, sec2, salt2 := h1, sec1, salt1
	if r.Chance(3, 10) {
		h2, sec2, salt2 = randSetting(r)
	}
	pt := randPlain(r)
	wp, rp := r.Pick([]string{"whole", "stream"}), r.Pick([]string{"whole", "stream"})
	chunks := [][]byte{pt}
	if wp == "stream" {
		chunks = randChunks(r, pt)
	}
	ent := randBytes(r, toyNonceSize+r.Intn(5))
	if r.Chance(1, 25) {
		ent = randBytes(r, r.Intn(toyNonceSize))
	}
	hdr := specHeader(spec)
	storedLen := len(hdr) + toyNonceSize + len(pt) + toyOverhead
	fmt.Fprintf(w, "fs %s %s %s %s %s %s %s %s %s %s %s %s %s %s\n", spec, base, h1, hx.Enc(sec1), hx.Enc(salt1), wp,
		hx.Enc(ent), encList(chunks), randTamper(r, storedLen, hdr), h2, hx.Enc(sec2), hx.Enc(salt2), rp,
		encSizes(randSizes(r, len(pt))))
}

func gcmFor(km []byte) cipher.AEAD {
	block, err := aes.NewCipher(sha3_256(km))
	if err != nil {
		panic(err)
	}
	g, err := cipher.NewGCM(block)
	if err != nil {
		panic(err)
	}
	return g
}

// openAnswer is what AES-GCM answers for the nonce/ciphertext split of `stored` after `hdrLen` bytes.
func openAnswer(km, stored []byte, hdrLen int) string {
	if len(stored) < hdrLen+12 {
		return "none"
	}
	p, err := gcmFor(km).Open(nil, stored[hdrLen:hdrLen+12], stored[hdrLen+12:], nil)
	if err != nil {
		return "none"
	}
	return hx.Enc(p)
}

func aesLine(w *bufio.Writer, kind, rp string, bad bool, km, stored []byte, sizes []int) {
	hdrLen := 0
	if kind == "tagged" {
		hdrLen = 4
	}
	fmt.Fprintf(w, "aes %s %s %d %s %s %s %s\n", kind, rp, b2i(bad), hx.Enc(km), hx.Enc(stored),
		openAnswer(km, stored, hdrLen), encSizes(sizes))
}

func sealStored(r *hx.Rand, kind string, km, pt []byte) []byte {
	nonce := randBytes(r, 12)
	var stored []byte
	if kind == "tagged" {
		stored = tagLE(0)
	}
	stored = append(stored, nonce...)
	return gcmFor(km).Seal(stored, nonce, pt, nil)
}

func genAes(w *bufio.Writer, r *hx.Rand) {
	kind, rp := r.Pick([]string{"raw", "tagged"}), r.Pick([]string{"whole", "stream"})
	km := append([]byte(r.Pick(secretPool)), []byte(r.Pick(saltPool))...)
	pt := randPlain(r)
	if len(pt) > 600 {
		pt = pt[:600]
	}
	stored := sealStored(r, kind, km, pt)
	hdr := []byte(nil)
	if kind == "tagged" {
		hdr = tagLE(0)
	}
	stored = tamper(stored, randTamper(r, len(stored), hdr))
	km2 := km
	if r.Chance(1, 6) {
		km2 = append([]byte(r.Pick(secretPool)), []byte(r.Pick(saltPool))...)
	}
	aesLine(w, kind, rp, rp == "stream" && r.Chance(1, 8), km2, stored, randSizes(r, len(pt)))
}

func genXkey(w *bufio.Writer, r *hx.Rand) {
	h1, sec1, salt1 := randSetting(r)
	h2, sec2, salt2 := randSetting(r)
	if r.Chance(1, 5) {
		h2, sec2, salt2 = h1, sec1, salt1
	}
	base := "mem"
	if r.Chance(1, 6) {
		base = "disk"
	}
	pt := randPlain(r)
	if len(pt) > 600 {
		pt = pt[:600]
	}
	fmt.Fprintf(w, "xkey %s %s %s %s %s %s %s %s %s %s %s\n", r.Pick([]string{"raw", "tagged"}), base, h1, hx.Enc(sec1),
		hx.Enc(salt1), h2, hx.Enc(sec2), hx.Enc(salt2), r.Pick([]string{"whole", "stream"}),
		r.Pick([]string{"whole", "stream"}), hx.Enc(pt))
}

func genShared(w *bufio.Writer, r *hx.Rand) {
	secret := []byte(r.Pick(secretPool))
	if r.Chance(1, 4) {
		secret = randBytes(r, 1+r.Intn(12))
	}
	var salts [][]byte
	for k := 2 + r.Intn(3); k > 0; k-- {
		salt := []byte(r.Pick(saltPool))
		if r.Chance(1, 3) {
			salt = randBytes(r, 1+r.Intn(6))
		}
		salts = append(salts, salt)
	}
	base := "mem"
	if r.Chance(1, 6) {
		base = "disk"
	}
	fmt.Fprintf(w, "shared %s %s %d %s %s %d %s %s\n", r.Pick([]string{"raw", "tagged"}), base, r.Intn(2), hx.Enc(secret),
		encList(salts), r.Intn(2), r.Pick([]string{"whole", "stream"}), r.Pick([]string{"whole", "stream"}))
}

var nsPaths = []string{"a", "a/x.txt", "a/b", "a/b/y.txt", "top.txt", "nope", "nope/deeper", "a/../top.txt", "", "/", "a/",
	"/a/b/", "c/d", "a/x.txt/under", "../out"}
var nsOps = []string{"copy", "copydirectory", "copyfile", "readdir", "isexist", "isfile", "isdir", "mkdirall", "remove",
	"removeall", "lstat", "filespace", "readfile", "writefile", "reader", "writer"}

func genNs(w *bufio.Writer, r *hx.Rand, op string) {
	p := hx.Enc([]byte(r.Pick(nsPaths)))
	switch op {
	case "copy", "copydirectory", "copyfile":
		fmt.Fprintf(w, "ns %s %s %s\n", op, p, hx.Enc([]byte(r.Pick(nsPaths))))
	case "mkdirall", "writefile":
		fmt.Fprintf(w, "ns %s %s %d\n", op, p, []int{0777, 0644, 0600, 0}[r.Intn(4)])
	default:
		fmt.Fprintf(w, "ns %s %s\n", op, p)
	}
}

// sweeps: EVERY truncation length and EVERY position (two masks) of a small stored file, for the toy
// through the real filespace and for the real ciphers.
func genSweeps(w *bufio.Writer, r *hx.Rand) {
	pt := []byte("hello")
	ent := randBytes(r, toyNonceSize)
	for _, spec := range []string{"toy", "ext:7"} {
		L := len(specHeader(spec)) + toyNonceSize + len(pt) + toyOverhead
		for _, rp := range []string{"whole", "stream"} {
			line := func(t string) {
				fmt.Fprintf(w, "fs %s mem 0 73 74 whole %s %s %s 0 73 74 %s 2\n", spec, hx.Enc(ent), hx.Enc(pt), t, rp)
			}
			for n := 0; n <= L; n++ {
				line(fmt.Sprintf("trunc:%d", n))
			}
			for i := 0; i < L; i++ {
				line(fmt.Sprintf("flip:%d:01", i))
				line(fmt.Sprintf("flip:%d:80", i))
			}
		}
	}
	km := []byte("st")
	for _, kind := range []string{"raw", "tagged"} {
		stored := sealStored(r, kind, km, []byte("abc"))
		for _, rp := range []string{"whole", "stream"} {
			for n := 0; n <= len(stored); n++ {
				aesLine(w, kind, rp, false, km, stored[:n], []int{2})
			}
			for i := 0; i < len(stored); i++ {
				aesLine(w, kind, rp, false, km, tamper(stored, fmt.Sprintf("flip:%d:01", i)), nil)
			}
			for n := 0; n <= 8; n++ {
				aesLine(w, kind, "stream", true, km, stored[:n], nil)
			}
		}
	}
	for _, op := range nsOps {
		for k := 0; k < 4; k++ {
			genNs(w, r, op)
		}
	}
	// filespaces side by side on shared buffers: salts of equal and of different lengths, with and without
	// later mutation of the caller's buffers, both ciphers, both bases, all path pairs
	for _, salts := range []string{"7361,7362", "7361,7362,7363", "73616c74,74", "74,73616c74", "-,74,7474", "7361,7361"} {
		for _, kind := range []string{"raw", "tagged"} {
			for _, mut := range []int{0, 1} {
				for i, base := range []string{"mem", "disk"} {
					wp, rp := []string{"whole", "stream"}[(i+mut)%2], []string{"whole", "stream"}[i]
					fmt.Fprintf(w, "shared %s %s %d 736563726574 %s %d %s %s\n", kind, base, mut, salts, mut, wp, rp)
				}
			}
		}
	}
}

func gen(w *bufio.Writer, n int) {
	r := hx.NewRand(hx.SeedFromEnv())
	genSweeps(w, r)
	genHistSweep(w)
	for i := 0; i < n; i++ {
		switch k := r.Intn(22); {
		case k >= 20:
			genHist(w, r)
		case k < 11:
			genFs(w, r)
		case k < 16:
			genAes(w, r)
		case k < 17:
			genXkey(w, r)
		case k < 18:
			genShared(w, r)
		default:
			genNs(w, r, r.Pick(nsOps))
		}
	}
}

func main() {
	w := bufio.NewWriterSize(os.Stdout, 1<<16)
	defer w.Flush()
	defer removeAllTemp()
	if !sha3SelfTest() {
		fmt.Fprintln(os.Stderr, "sha3 self-test failed")
		os.Exit(3)
	}
	if len(os.Args) < 2 {
		fmt.Fprintln(os.Stderr, "usage: enc drive | gen <n> | oracle <quick|thorough> | hostid")
		os.Exit(2)
	}
	switch os.Args[1] {
	case "drive":
		drive(w)
	case "gen":
		n, _ := strconv.Atoi(os.Args[2])
		gen(w, n)
	case "oracle":
		tier := "quick"
		if len(os.Args) > 2 {
			tier = os.Args[2]
		}
		oracle(w, tier)
	case "hostid":
		fmt.Fprintf(w, "hostid=%s\n", hx.Enc([]byte(idutil.HostID())))
	default:
		os.Exit(2)
	}
}
