package main

// The property's own clauses evaluated on the real code (real AES-GCM, real SHA3, real crypto/rand), without
// any model; expected answers are known by construction.
//
//   rt        sizes {0,1,15,16,17,4 KiB,1 MiB} x write path x read path x cipher x base: read == written; stored
//             length = header+12+n+16; a plaintext >= 16 B (and its first/last 16 bytes) is not a substring of
//             the raw file; a second write of the same data stores different bytes
//   tamper    EVERY truncation length and EVERY single-byte corruption (all 255 other values on memfs, and on diskfs in the thorough tier; one mask per position on diskfs in quick) of the
//             stored bytes of the small files, a sample for the large ones: the read must fail (no data, no
//             panic, no hang) and afterwards the file can be written and read again (no leaked lock)
//   wrongkey  all ordered pairs of a settings matrix: another secret/salt must fail, unless the concatenations
//             are equal (class of the known finding KF-C05-1, counted, must then read the data)
//   shared    several filespaces side by side whose Secret/Salt slices share backing arrays with spare capacity,
//             buffers scribbled over afterwards: each reads its own file and refuses the others'
//   handles   random histories with several open readers/writers at once (hist.go: genHistSteps), sizes from classes
//             0 … 64 KiB+1, judged by a plaintext-level bookkeeping (specHist): everything a reader delivers is the
//             content its file had when the reader was opened, whatever was opened/read/written meanwhile
//   ns        random sequences of name-space operations on the encrypted filespace and on a plain twin
//
// Output: `FAIL <class> <detail>` per failed case, `NOTE …` lines, one summary line `oracle cases=… fails=… …`.

import (
	"bufio"
	"bytes"
	"errors"
	"fmt"
	"io"
	"os"
	"sort"
	"strings"
	"sync"
	"sync/atomic"
	"time"

	"gcverif/internal/hx"

	"github.com/goatcms/goatcore/filesystem"
	"github.com/goatcms/goatcore/varutil/idutil"
)

type orc struct {
	w       *bufio.Writer
	r       *hx.Rand
	tier    string
	cases   int
	fails   int
	classes map[string]int
	failed  map[string]int
	current atomic.Value // description of the case in progress (for the watchdog)
	ticks   int64        // progress counter: bumped whenever a new case starts
}

// at marks the start of a case.
func (o *orc) at(desc string) {
	o.current.Store(desc)
	atomic.AddInt64(&o.ticks, 1)
}

// stallLimit: a single case (at most a 1 MiB file) takes milliseconds; no progress for this long means blocked.
const stallLimit = 15 * time.Second

func (o *orc) count(class string) { o.cases++; o.classes[class]++ }

func (o *orc) fail(class, detail string) {
	o.fails++
	o.failed[class]++
	if o.failed[class] <= 5 {
		fmt.Fprintf(o.w, "FAIL %s %s\n", class, detail)
		o.w.Flush()
	}
}

// batch runs f under a generous watchdog: a leaked lock blocks for ever.  The batch is given up when no new
// case was started for stallLimit (or after `limit` altogether).
func (o *orc) batch(name string, limit time.Duration, f func()) {
	done := make(chan struct{})
	go func() {
		defer close(done)
		if p, v := hx.Guard(f); p {
			o.fail("panic", fmt.Sprintf("%s: %v during %v", name, v, o.current.Load()))
		}
	}()
	start, last, lastTick := time.Now(), time.Now(), atomic.LoadInt64(&o.ticks)
	for {
		select {
		case <-done:
			return
		case <-time.After(100 * time.Millisecond):
		}
		if t := atomic.LoadInt64(&o.ticks); t != lastTick {
			lastTick, last = t, time.Now()
		}
		if time.Since(last) > stallLimit || time.Since(start) > limit {
			o.fail("hang", fmt.Sprintf("%s: blocked during %v (a lock or handle was left behind)", name, o.current.Load()))
			return
		}
	}
}

func hdrLen(kind string) int {
	if kind == "tagged" {
		return 4
	}
	return 0
}

func (o *orc) chunksOf(pt []byte) [][]byte {
	var res [][]byte
	rest := pt
	for k := 0; k < 3 && len(rest) > 0; k++ {
		n := o.r.Intn(len(rest) + 1)
		res = append(res, rest[:n])
		rest = rest[n:]
	}
	return append(res, rest)
}

// ---------------------------------------------------------------------------------------------- rt

func (o *orc) roundTrips() {
	sizes := []int{0, 1, 15, 16, 17, 4096, 1 << 20}
	i := 0
	for _, base := range []string{"mem", "disk"} {
		for _, kind := range []string{"raw", "tagged"} {
			for _, wp := range []string{"whole", "stream"} {
				for _, rp := range []string{"whole", "stream"} {
					for _, n := range sizes {
						i++
						o.oneRoundTrip(base, kind, wp, rp, n, i%2 == 0)
					}
				}
			}
		}
	}
}

func (o *orc) oneRoundTrip(base, kind, wp, rp string, n int, hostOnly bool) {
	desc := fmt.Sprintf("base=%s cipher=%s write=%s read=%s size=%d hostonly=%v", base, kind, wp, rp, n, hostOnly)
	o.at(desc)
	o.count("rt")
	b, cleanup, err := newBase(base)
	if err != nil {
		o.fail("infra", err.Error())
		return
	}
	defer cleanup()
	secret, salt := []byte("secret"), []byte("salt")
	fsW := newEnc(b, hostOnly, secret, salt, realCipher(kind))
	fsR := newEnc(b, hostOnly, secret, salt, realCipher(kind))
	pt := randBytes(o.r, n)
	chunks := [][]byte{pt}
	if wp == "stream" {
		chunks = o.chunksOf(pt)
	}
	if err = writeVia(fsW, fileName, wp, chunks); err != nil {
		o.fail("rt", desc+": write failed: "+err.Error())
		return
	}
	raw, err := b.ReadFile(fileName)
	if err != nil {
		o.fail("rt", desc+": raw file unreadable")
		return
	}
	if len(raw) != hdrLen(kind)+12+n+16 {
		o.fail("length", fmt.Sprintf("%s: stored %d bytes, expected %d", desc, len(raw), hdrLen(kind)+12+n+16))
	}
	if n >= 16 && (bytes.Contains(raw, pt) || bytes.Contains(raw, pt[:16]) || bytes.Contains(raw, pt[n-16:])) {
		o.fail("secrecy", desc+": the plaintext (or its first/last 16 bytes) is a substring of the stored file")
	}
	parts, err := readVia(fsR, fileName, rp, randSizes(o.r, n))
	if err != nil {
		o.fail("rt", desc+": read failed: "+err.Error())
	} else if !bytes.Equal(content(parts), pt) {
		o.fail("rt", desc+": read back different data")
	}
	if rp == "stream" {
		// an ordinary consumer: fixed buffer, stops at the first EOF (an early EOF or a dropped tail shows here)
		for _, bs := range []int{1, 7, n - 1, n, n + 1, 4096} {
			if bs < 1 || (n > 5000 && bs < 4096 && bs != n-1) {
				continue
			}
			got, err := readUntilEOF(fsR, fileName, bs)
			if err != nil {
				o.fail("rt", fmt.Sprintf("%s: stream read with a %d-byte buffer failed: %v", desc, bs, err))
			} else if !bytes.Equal(got, pt) {
				o.fail("rt", fmt.Sprintf("%s: stream read with a %d-byte buffer, stopping at EOF, delivered %d of %d bytes", desc,
					bs, len(got), len(pt)))
			}
			o.count("rt-consumer")
		}
	}
	if err = writeVia(fsW, fileName, wp, chunks); err != nil {
		o.fail("rt", desc+": second write failed: "+err.Error())
		return
	}
	raw2, _ := b.ReadFile(fileName)
	if bytes.Equal(raw, raw2) {
		o.fail("fresh", desc+": two writes of the same data stored identical bytes")
	}
	o.classes["rt:"+wp+">"+rp]++
}

// readUntilEOF reads like io.Copy does: one buffer, until the reader reports EOF (or 1<<22 reads).
func readUntilEOF(fs FS, path string, bufSize int) ([]byte, error) {
	r, err := fs.Reader(path)
	if err != nil {
		return nil, err
	}
	defer r.Close()
	var out []byte
	buf := make([]byte, bufSize)
	for i := 0; i < 1<<22; i++ {
		n, err := r.Read(buf)
		out = append(out, buf[:n]...)
		if err == io.EOF {
			return out, nil
		}
		if err != nil {
			return nil, err
		}
	}
	return nil, errors.New("no EOF after 4M reads")
}

// ---------------------------------------------------------------------------------------------- tamper

// expectReject stores `bad` below the encrypted filespace and demands an error from the read; then the file
// must be writable and readable again.  Returns the fresh raw bytes.
func (o *orc) expectReject(b FS, fs FS, desc string, rp string, bad []byte, pt []byte, what string) []byte {
	o.at(desc + " " + what)
	o.count("tamper")
	if err := b.WriteFile(fileName, bad, filesystem.DefaultUnixFileMode); err != nil {
		o.fail("infra", err.Error())
		return nil
	}
	var (
		parts []part
		err   error
	)
	if p, v := hx.Guard(func() { parts, err = readVia(fs, fileName, rp, []int{3}) }); p {
		o.fail("tamper-panic", fmt.Sprintf("%s %s: panic %v", desc, what, v))
	} else if err == nil {
		o.fail("tamper-accepted", fmt.Sprintf("%s %s: read returned %d bytes instead of an error", desc, what,
			len(content(parts))))
	}
	// the file can still be written again (blocks for ever if the failed read left the file locked)
	if err = fs.WriteFile(fileName, pt, filesystem.DefaultUnixFileMode); err != nil {
		o.fail("relock", fmt.Sprintf("%s %s: rewrite after the error failed: %v", desc, what, err))
		return nil
	}
	raw, err := b.ReadFile(fileName)
	if err != nil {
		o.fail("relock", desc+" "+what+": raw unreadable after rewrite")
		return nil
	}
	if o.cases%16 == 0 {
		back, err := fs.ReadFile(fileName)
		if err != nil || !bytes.Equal(back, pt) {
			o.fail("relock", desc+" "+what+": rewrite after the error does not read back")
		}
	}
	return raw
}

func (o *orc) tamperSmall() {
	for _, base := range []string{"mem", "disk"} {
		for _, kind := range []string{"raw", "tagged"} {
			for _, rp := range []string{"whole", "stream"} {
				for _, n := range []int{0, 1, 15, 16, 17} {
					if base == "disk" && o.tier == "quick" && n != 0 && n != 17 {
						continue
					}
					base, kind, rp, n := base, kind, rp, n
					desc := fmt.Sprintf("base=%s cipher=%s read=%s size=%d", base, kind, rp, n)
					o.batch(desc, 300*time.Second, func() { o.tamperFile(base, kind, rp, n, desc, true) })
				}
			}
		}
	}
}

func (o *orc) tamperFile(base, kind, rp string, n int, desc string, exhaustive bool) {
	b, cleanup, err := newBase(base)
	if err != nil {
		o.fail("infra", err.Error())
		return
	}
	defer cleanup()
	fs := newEnc(b, false, []byte("secret"), []byte("salt"), realCipher(kind))
	pt := randBytes(o.r, n)
	wp := "whole"
	if o.r.Chance(1, 2) {
		wp = "stream"
	}
	if err = writeVia(fs, fileName, wp, [][]byte{pt}); err != nil {
		o.fail("rt", desc+": write failed")
		return
	}
	raw, _ := b.ReadFile(fileName)
	L := len(raw)
	var truncs []int
	var flips [][2]int // position, mask
	if exhaustive {
		for k := 0; k < L; k++ {
			truncs = append(truncs, k)
		}
		masks := []int{}
		switch {
		case base == "mem":
			for m := 1; m < 256; m++ {
				masks = append(masks, m)
			}
		case o.tier == "quick":
			masks = []int{0x01}
		default:
			for m := 1; m < 256; m++ {
				masks = append(masks, m)
			}
		}
		for i := 0; i < L; i++ {
			for _, m := range masks {
				flips = append(flips, [2]int{i, m})
			}
		}
	} else {
		for _, k := range []int{0, 1, 3, 4, 5, 11, 12, 15, 16, 17, 27, 28, 31, 32, 33, L / 2, L - 17, L - 16, L - 1} {
			if k >= 0 && k < L {
				truncs = append(truncs, k)
			}
		}
		for i := 0; i < 40 && i < L; i++ {
			flips = append(flips, [2]int{i, 1 + o.r.Intn(255)})
		}
		for i := L - 20; i < L; i++ {
			if i >= 40 {
				flips = append(flips, [2]int{i, 1 + o.r.Intn(255)})
			}
		}
		for k := 0; k < 30; k++ {
			flips = append(flips, [2]int{o.r.Intn(L), 1 + o.r.Intn(255)})
		}
	}
	for _, k := range truncs {
		if len(raw) < k { // raw is rewritten each time with the same length
			continue
		}
		if raw = o.expectReject(b, fs, desc, rp, raw[:k], pt, fmt.Sprintf("truncated-to=%d", k)); raw == nil {
			return
		}
	}
	o.classes["tamper:trunc"] += len(truncs)
	for _, pm := range flips {
		bad := append([]byte{}, raw...)
		bad[pm[0]] ^= byte(pm[1])
		if raw = o.expectReject(b, fs, desc, rp, bad, pt, fmt.Sprintf("byte=%d xor=%02x", pm[0], pm[1])); raw == nil {
			return
		}
	}
	o.classes["tamper:flip"] += len(flips)
	// appended garbage and a foreign file are "modified" too
	if raw = o.expectReject(b, fs, desc, rp, append(append([]byte{}, raw...), 0), pt, "one-byte-appended"); raw == nil {
		return
	}
	o.expectReject(b, fs, desc, rp, randBytes(o.r, L), pt, "random-bytes-of-same-length")
}

func (o *orc) tamperLarge() {
	sizes := []int{4096}
	if o.tier != "quick" {
		sizes = append(sizes, 1<<20)
	}
	for _, base := range []string{"mem", "disk"} {
		for _, kind := range []string{"raw", "tagged"} {
			for _, rp := range []string{"whole", "stream"} {
				for _, n := range sizes {
					base, kind, rp, n := base, kind, rp, n
					desc := fmt.Sprintf("base=%s cipher=%s read=%s size=%d", base, kind, rp, n)
					o.batch(desc, 300*time.Second, func() { o.tamperFile(base, kind, rp, n, desc, false) })
				}
			}
		}
	}
}

// ---------------------------------------------------------------------------------------------- wrongkey

type setting struct {
	host         bool
	secret, salt string
}

func (s setting) material() string {
	hostPart := ""
	if s.host {
		hostPart = idutil.HostID()
	}
	return s.secret + hostPart + s.salt
}

func (o *orc) wrongKeys() {
	var all []setting
	for _, sec := range []string{"", "s", "st", "secret"} {
		for _, salt := range []string{"", "t", "salt"} {
			for _, h := range []bool{false, true} {
				all = append(all, setting{h, sec, salt})
			}
		}
	}
	kinds, paths, bases := []string{"raw", "tagged"}, []string{"whole", "stream"}, []string{"mem", "mem", "mem", "disk"}
	i := 0
	for _, a := range all {
		for _, bset := range all {
			i++
			kind, wp, rp, base := kinds[i%2], paths[(i/2)%2], paths[(i/4)%2], bases[(i/8)%4]
			if base == "disk" && o.tier == "quick" && i%5 != 0 {
				base = "mem"
			}
			desc := fmt.Sprintf("writer=(%q,%q,host=%v) reader=(%q,%q,host=%v) cipher=%s %s>%s base=%s", a.secret, a.salt,
				a.host, bset.secret, bset.salt, bset.host, kind, wp, rp, base)
			o.at(desc)
			o.count("wrongkey")
			b, cleanup, err := newBase(base)
			if err != nil {
				o.fail("infra", err.Error())
				continue
			}
			fs1 := newEnc(b, a.host, []byte(a.secret), []byte(a.salt), realCipher(kind))
			fs2 := newEnc(b, bset.host, []byte(bset.secret), []byte(bset.salt), realCipher(kind))
			pt := randBytes(o.r, 1+o.r.Intn(40))
			var parts []part
			var rerr error
			if p, v := hx.Guard(func() {
				if err = writeVia(fs1, fileName, wp, [][]byte{pt}); err == nil {
					parts, rerr = readVia(fs2, fileName, rp, nil)
				}
			}); p {
				o.fail("wrongkey-panic", fmt.Sprintf("%s: %v", desc, v))
			} else if err != nil {
				o.fail("rt", desc+": write failed")
			} else {
				got := rerr == nil && bytes.Equal(content(parts), pt)
				sameSecretSalt := a.secret == bset.secret && a.salt == bset.salt
				switch {
				case sameSecretSalt && a.host == bset.host:
					if !got {
						o.fail("rt", desc+": same settings do not read back")
					}
					o.classes["wrongkey:same-settings"]++
				case sameSecretSalt:
					// only the host binding differs: the property makes no demand; recorded
					o.classes[fmt.Sprintf("wrongkey:host-binding-only:reads=%v", got)]++
				case a.material() == bset.material():
					// the class of KF-C05-1: different secret/salt, equal concatenation
					if got {
						o.classes["wrongkey:kf-class-accepted"]++
					} else {
						o.classes["wrongkey:kf-class-rejected"]++
					}
				default:
					if rerr == nil {
						o.fail("wrongkey-accepted", desc+": another secret/salt was answered with data")
					}
					o.classes["wrongkey:rejected"]++
				}
			}
			cleanup()
		}
	}
}

// ---------------------------------------------------------------------------------------------- side by side

// sideBySide: several encrypted filespaces with DIFFERENT key material used at the same time in one process
// (the ciphers are process-wide singletons): every filespace must read back what it wrote and must refuse what
// a filespace with another secret wrote, on every round — whatever the other goroutines are doing.  The
// property quantifies over settings, not schedules; this batch only makes sure that "the same secret" and
// "another secret" mean the same thing when filespaces work concurrently.  Verdicts are collected per
// goroutine and reported afterwards (the orc is not shared while the goroutines run).
func (o *orc) sideBySide() {
	rounds := 150
	if o.tier != "quick" {
		rounds = 1500
	}
	for _, kind := range []string{"raw", "tagged"} {
		for _, wp := range []string{"whole", "stream"} {
			desc := fmt.Sprintf("side by side: 6 filespaces, 6 secrets, cipher=%s write=%s", kind, wp)
			o.at(desc)
			o.count("sidebyside")
			b, cleanup, err := newBase("mem")
			if err != nil {
				o.fail("infra", err.Error())
				continue
			}
			const n = 6
			fss := make([]FS, n)
			for i := range fss {
				fss[i] = newEnc(b, false, []byte(fmt.Sprintf("secret-%d", i)), []byte("salt"), realCipher(kind))
			}
			var wg sync.WaitGroup
			verdicts := make([]string, n)
			for i := 0; i < n; i++ {
				wg.Add(1)
				go func(i int) {
					defer wg.Done()
					if p, v := hx.Guard(func() {
						mine, other := fmt.Sprintf("f%d", i), fmt.Sprintf("f%d", (i+1)%n)
						for r := 0; r < rounds && verdicts[i] == ""; r++ {
							pt := []byte(fmt.Sprintf("plaintext of %d in round %d ................", i, r))
							if err := writeVia(fss[i], mine, wp, [][]byte{pt}); err != nil {
								verdicts[i] = fmt.Sprintf("rt round %d: write failed: %v", r, err)
								return
							}
							parts, rerr := readVia(fss[i], mine, "whole", nil)
							if rerr != nil || !bytes.Equal(content(parts), pt) {
								verdicts[i] = fmt.Sprintf("rt round %d: the filespace that wrote the file does not read it back (err=%v)", r, rerr)
								return
							}
							// the neighbour's file (another secret), if it exists already, must be refused
							if b.IsFile(other) {
								if _, xerr := readVia(fss[i], other, "whole", nil); xerr == nil {
									verdicts[i] = fmt.Sprintf("wrongkey-accepted round %d: a filespace with another secret read the file", r)
									return
								}
							}
							atomic.AddInt64(&o.ticks, 1)
						}
					}); p {
						verdicts[i] = fmt.Sprintf("panic %v", v)
					}
				}(i)
			}
			wg.Wait()
			for i, v := range verdicts {
				if v != "" {
					cls := strings.SplitN(v, " ", 2)[0]
					o.fail(cls, fmt.Sprintf("%s: filespace %d: %s", desc, i, v))
				}
			}
			o.classes["sidebyside:rounds"] += rounds * n
			cleanup()
		}
	}
}

// ---------------------------------------------------------------------------------------------- shared buffers

// Several filespaces side by side, their Secret and Salt slices cut out of shared backing arrays with spare
// capacity (see sharedMatrix): each must still read its own file and refuse every file written under another
// salt — also after the caller scribbled over the buffers.
func (o *orc) sharedBuffers() {
	saltSets := [][]string{{"sa", "sb"}, {"sa", "sb", "sc"}, {"salt", "t"}, {"t", "salt"}, {"", "t", "tt"}, {"one", "one"},
		{"aaaa", "bbbb", "cccc", "dddd"}}
	i := 0
	for _, set := range saltSets {
		for _, kind := range []string{"raw", "tagged"} {
			for _, mutate := range []bool{false, true} {
				for _, base := range []string{"mem", "disk"} {
					i++
					wp, rp := []string{"whole", "stream"}[i%2], []string{"whole", "stream"}[(i/2)%2]
					secret := []string{"secret", "", "s", "a-longer-secret-than-the-others"}[i%4]
					desc := fmt.Sprintf("shared buffers: secret=%q salts=%q cipher=%s base=%s %s>%s mutate-after=%v", secret, set, kind,
						base, wp, rp, mutate)
					o.at(desc)
					o.count("shared")
					b, cleanup, err := newBase(base)
					if err != nil {
						o.fail("infra", err.Error())
						continue
					}
					var salts [][]byte
					for _, x := range set {
						salts = append(salts, []byte(x))
					}
					m := sharedMatrix(realCipher(kind), b, i%3 == 0, []byte(secret), salts, mutate, wp, rp)
					cleanup()
					rows := strings.Split(strings.TrimPrefix(m, "m="), ",")
					if len(rows) != len(set) {
						o.fail("shared", desc+": "+m)
						continue
					}
					for x, row := range rows {
						for y := range row {
							want := byte('e')
							if set[x] == set[y] {
								want = 's'
							}
							if row[y] == want {
								continue
							}
							if x == y {
								o.fail("shared-own", fmt.Sprintf("%s: filespace %d no longer reads its own file (%c); matrix %s", desc, x, row[y], m))
							} else {
								o.fail("shared-other", fmt.Sprintf("%s: filespace %d (salt %q) answered file %d (salt %q) with %c; matrix %s",
									desc, x, set[x], y, set[y], row[y], m))
							}
						}
					}
				}
			}
		}
	}
}

// ---------------------------------------------------------------------------------------------- ns

var oraclePaths = []string{"a", "a/x.txt", "a/b", "a/b/y.txt", "top.txt", "nope", "c/d", "c", "a/b/z", "e.bin"}

func canonErr(err error) string {
	if err != nil {
		return "err"
	}
	return "ok"
}

func listing(infos []os.FileInfo, err error) string {
	if err != nil {
		return "err"
	}
	var s []string
	for _, i := range infos {
		s = append(s, fmt.Sprintf("%s:%v", i.Name(), i.IsDir()))
	}
	sort.Strings(s)
	return "list " + strings.Join(s, ",")
}

func dump(fs FS, dir string, out *[]string) {
	infos, err := fs.ReadDir(dir)
	if err != nil {
		*out = append(*out, dir+" !readdir")
		return
	}
	sort.Slice(infos, func(i, j int) bool { return infos[i].Name() < infos[j].Name() })
	for _, i := range infos {
		p := strings.TrimPrefix(dir+"/"+i.Name(), "/")
		if i.IsDir() {
			*out = append(*out, p+"/")
			dump(fs, p, out)
		} else {
			d, err := fs.ReadFile(p)
			if err != nil {
				*out = append(*out, p+" !read")
			} else {
				*out = append(*out, p+"="+hx.Enc(d))
			}
		}
	}
}

func nsApply(fs FS, r *hx.Rand, op int, p1, p2 string, data []byte) string {
	switch op {
	case 0:
		return canonErr(fs.MkdirAll(p1, filesystem.DefaultUnixDirMode))
	case 1:
		return canonErr(fs.WriteFile(p1, data, filesystem.DefaultUnixFileMode))
	case 2:
		d, err := fs.ReadFile(p1)
		if err != nil {
			return "err"
		}
		return "data " + hx.Enc(d)
	case 3:
		return canonErr(fs.Remove(p1))
	case 4:
		return canonErr(fs.RemoveAll(p1))
	case 5:
		return canonErr(fs.Copy(p1, p2))
	case 6:
		return canonErr(fs.CopyFile(p1, p2))
	case 7:
		return canonErr(fs.CopyDirectory(p1, p2))
	case 8:
		return listing(fs.ReadDir(p1))
	case 9:
		return fmt.Sprintf("%v %v %v", fs.IsExist(p1), fs.IsFile(p1), fs.IsDir(p1))
	case 10:
		i, err := fs.Lstat(p1)
		if err != nil {
			return "err"
		}
		return fmt.Sprintf("stat %s %v", i.Name(), i.IsDir())
	case 11:
		child, err := fs.Filespace(p1)
		if err != nil {
			return "err"
		}
		e1 := child.WriteFile("in-child.bin", data, filesystem.DefaultUnixFileMode)
		d, e2 := child.ReadFile("in-child.bin")
		return fmt.Sprintf("child %s %s %s", canonErr(e1), canonErr(e2), hx.Enc(d))
	case 12:
		return canonErr(writeVia(fs, p1, "stream", [][]byte{data[:len(data)/2], data[len(data)/2:]}))
	default:
		parts, err := readVia(fs, p1, "stream", []int{2})
		if err != nil {
			return "err"
		}
		return "data " + hx.Enc(content(parts))
	}
}

func (o *orc) nsSequences() {
	nseq := 60
	if o.tier != "quick" {
		nseq = 2000
	}
	for s := 0; s < nseq; s++ {
		base := "mem"
		if s%4 == 3 {
			base = "disk"
		}
		kind := []string{"raw", "tagged"}[s%2]
		o.batch(fmt.Sprintf("ns sequence %d", s), 120*time.Second, func() {
			b1, c1, err1 := newBase(base)
			b2, c2, err2 := newBase(base)
			if err1 != nil || err2 != nil {
				o.fail("infra", "cannot create base")
				return
			}
			defer c1()
			defer c2()
			enc := newEnc(b1, false, []byte("k"), []byte("s"), realCipher(kind))
			var trace []string
			for k := 0; k < 30; k++ {
				op := o.r.Intn(14)
				if o.r.Chance(1, 3) {
					op = o.r.Intn(2) // keep the tree populated
				}
				p1, p2 := o.r.Pick(oraclePaths), o.r.Pick(oraclePaths)
				if op >= 5 && op <= 7 && (p1 == p2 || strings.HasPrefix(p1, p2+"/") || strings.HasPrefix(p2, p1+"/")) {
					// a copy onto itself / into itself is a matter of the base (diskfs truncates the file to nothing:
					// C02), and an emptied ciphertext is then rightly unreadable; not part of this comparison
					op = 9
				}
				// (diskfs.Writer does not create parent directories, memfs does: a matter of the base, C02 — and
				// the same on both twins, so it does not disturb the comparison)
				data := randBytes(o.r, o.r.Intn(40))
				line := fmt.Sprintf("op%d(%s,%s)", op, p1, p2)
				o.at(line)
				o.count("ns")
				var ra, rb string
				pa, _ := hx.Guard(func() { ra = nsApply(enc, o.r, op, p1, p2, data) })
				pb, _ := hx.Guard(func() { rb = nsApply(b2, o.r, op, p1, p2, data) })
				if pa {
					ra = "panic"
				}
				if pb {
					rb = "panic"
				}
				trace = append(trace, line)
				if ra != rb {
					o.fail("ns", fmt.Sprintf("base=%s cipher=%s after %s: encrypted filespace answered %q, plain twin %q", base,
						kind, strings.Join(trace, " "), ra, rb))
					return
				}
				o.classes[fmt.Sprintf("ns:op%d:%s", op, strings.SplitN(ra, " ", 2)[0])]++
			}
			var da, db []string
			dump(enc, "", &da)
			dump(b2, "", &db)
			if strings.Join(da, "\n") != strings.Join(db, "\n") {
				o.fail("ns", fmt.Sprintf("base=%s cipher=%s after %s: trees differ:\n%s\n--- plain twin:\n%s", base, kind,
					strings.Join(trace, " "), strings.Join(da, "\n"), strings.Join(db, "\n")))
			}
		})
	}
}

// ---------------------------------------------------------------------------------------------- main

func oracle(w *bufio.Writer, tier string) {
	o := &orc{w: w, r: hx.NewRand(hx.SeedFromEnv() ^ 0x5eed), tier: tier, classes: map[string]int{}, failed: map[string]int{}}
	o.current.Store("start")
	fmt.Fprintf(w, "NOTE hostid=%s\n", hx.Enc([]byte(idutil.HostID())))
	o.batch("round trips", 600*time.Second, o.roundTrips)
	o.tamperSmall()
	o.tamperLarge()
	o.batch("wrong keys", 600*time.Second, o.wrongKeys)
	o.batch("shared buffers", 600*time.Second, o.sharedBuffers)
	o.batch("side by side", 600*time.Second, o.sideBySide)
	o.batch("open handles", 600*time.Second, o.handleHistories)
	o.nsSequences()
	keys := make([]string, 0, len(o.classes))
	for k := range o.classes {
		keys = append(keys, k)
	}
	sort.Strings(keys)
	var sb strings.Builder
	for _, k := range keys {
		fmt.Fprintf(&sb, " %s=%d", strings.ReplaceAll(k, " ", "_"), o.classes[k])
	}
	fkeys := make([]string, 0, len(o.failed))
	for k := range o.failed {
		fkeys = append(fkeys, k)
	}
	sort.Strings(fkeys)
	for _, k := range fkeys {
		fmt.Fprintf(&sb, " failed:%s=%d", k, o.failed[k])
	}
	fmt.Fprintf(w, "oracle cases=%d fails=%d%s\n", o.cases, o.fails, sb.String())
}
