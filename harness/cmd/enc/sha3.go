package main

// An independent SHA3-256 (Keccak-f[1600], rate 136, domain byte 0x06), used to recompute the key the real
// cipher derives (hash256 in aesgcm256cfs is unexported).  Validated against two fixed vectors at start-up.

import (
	"encoding/binary"
	"encoding/hex"
	"math/bits"
)

var keccakRC = [24]uint64{
	0x0000000000000001, 0x0000000000008082, 0x800000000000808A, 0x8000000080008000,
	0x000000000000808B, 0x0000000080000001, 0x8000000080008081, 0x8000000000008009,
	0x000000000000008A, 0x0000000000000088, 0x0000000080008009, 0x000000008000000A,
	0x000000008000808B, 0x800000000000008B, 0x8000000000008089, 0x8000000000008003,
	0x8000000000008002, 0x8000000000000080, 0x000000000000800A, 0x800000008000000A,
	0x8000000080008081, 0x8000000000008080, 0x0000000080000001, 0x8000000080008008,
}

var keccakRot = [24]int{1, 3, 6, 10, 15, 21, 28, 36, 45, 55, 2, 14, 27, 41, 56, 8, 25, 43, 62, 18, 39, 61, 20, 44}
var keccakPil = [24]int{10, 7, 11, 17, 18, 3, 5, 16, 8, 21, 24, 4, 15, 23, 19, 13, 12, 2, 20, 14, 22, 9, 6, 1}

func keccakF(a *[25]uint64) {
	var bc [5]uint64
	for round := 0; round < 24; round++ {
		for i := 0; i < 5; i++ {
			bc[i] = a[i] ^ a[i+5] ^ a[i+10] ^ a[i+15] ^ a[i+20]
		}
		for i := 0; i < 5; i++ {
			t := bc[(i+4)%5] ^ bits.RotateLeft64(bc[(i+1)%5], 1)
			for j := 0; j < 25; j += 5 {
				a[j+i] ^= t
			}
		}
		t := a[1]
		for i := 0; i < 24; i++ {
			j := keccakPil[i]
			b := a[j]
			a[j] = bits.RotateLeft64(t, keccakRot[i])
			t = b
		}
		for j := 0; j < 25; j += 5 {
			for i := 0; i < 5; i++ {
				bc[i] = a[j+i]
			}
			for i := 0; i < 5; i++ {
				a[j+i] ^= (^bc[(i+1)%5]) & bc[(i+2)%5]
			}
		}
		a[0] ^= keccakRC[round]
	}
}

func sha3_256(in []byte) []byte {
	const rate = 136
	var st [25]uint64
	buf := append(append([]byte{}, in...), 0x06)
	for len(buf)%rate != 0 {
		buf = append(buf, 0)
	}
	buf[len(buf)-1] |= 0x80
	for off := 0; off < len(buf); off += rate {
		for i := 0; i < rate/8; i++ {
			st[i] ^= binary.LittleEndian.Uint64(buf[off+8*i:])
		}
		keccakF(&st)
	}
	out := make([]byte, 32)
	for i := 0; i < 4; i++ {
		binary.LittleEndian.PutUint64(out[8*i:], st[i])
	}
	return out
}

func sha3SelfTest() bool {
	return hex.EncodeToString(sha3_256(nil)) == "a7ffc6f8bf1ed76651c14756a061d662f580ff4de43b49fa82d80a4b80f8434a" &&
		hex.EncodeToString(sha3_256([]byte("x"))) == "741efa311f97686956946758e0d95f70f11ff2da4f2feb7c54314f44134ac49f" &&
		hex.EncodeToString(sha3_256(make([]byte, 200))) == hex.EncodeToString(sha3_256(make([]byte, 200)))
}
