package main

// spyFS wraps a base filespace: it records every call the encrypted filespace makes on it (method and
// arguments, hex encoded), remembers what the base answered, and counts reader/writer handles that were
// opened and not closed.

import (
	"fmt"
	"os"
	"sync"

	"gcverif/internal/hx"

	"github.com/goatcms/goatcore/filesystem"
)

// FS is an alias: filesystem.Filespace has a method named Filespace, so it cannot be embedded by its own name.
type FS = filesystem.Filespace

type spyFS struct {
	FS
	mu      sync.Mutex
	calls   []string
	lastErr error
	lastVal interface{}
	openR   int
	openW   int
}

func newSpy(base FS) *spyFS { return &spyFS{FS: base} }

func (s *spyFS) note(call string, val interface{}, err error) {
	s.mu.Lock()
	s.calls = append(s.calls, call)
	s.lastVal, s.lastErr = val, err
	s.mu.Unlock()
}

func (s *spyFS) reset() {
	s.mu.Lock()
	s.calls, s.lastErr, s.lastVal = nil, nil, nil
	s.mu.Unlock()
}

func (s *spyFS) leaked() (r, w int) {
	s.mu.Lock()
	defer s.mu.Unlock()
	return s.openR, s.openW
}

func h(p string) string { return hx.Enc([]byte(p)) }

func (s *spyFS) Copy(a, b string) error {
	err := s.FS.Copy(a, b)
	s.note(fmt.Sprintf("Copy(%s,%s)", h(a), h(b)), nil, err)
	return err
}
func (s *spyFS) CopyDirectory(a, b string) error {
	err := s.FS.CopyDirectory(a, b)
	s.note(fmt.Sprintf("CopyDirectory(%s,%s)", h(a), h(b)), nil, err)
	return err
}
func (s *spyFS) CopyFile(a, b string) error {
	err := s.FS.CopyFile(a, b)
	s.note(fmt.Sprintf("CopyFile(%s,%s)", h(a), h(b)), nil, err)
	return err
}
func (s *spyFS) ReadDir(p string) ([]os.FileInfo, error) {
	v, err := s.FS.ReadDir(p)
	s.note(fmt.Sprintf("ReadDir(%s)", h(p)), v, err)
	return v, err
}
func (s *spyFS) IsExist(p string) bool {
	v := s.FS.IsExist(p)
	s.note(fmt.Sprintf("IsExist(%s)", h(p)), v, nil)
	return v
}
func (s *spyFS) IsFile(p string) bool {
	v := s.FS.IsFile(p)
	s.note(fmt.Sprintf("IsFile(%s)", h(p)), v, nil)
	return v
}
func (s *spyFS) IsDir(p string) bool {
	v := s.FS.IsDir(p)
	s.note(fmt.Sprintf("IsDir(%s)", h(p)), v, nil)
	return v
}
func (s *spyFS) MkdirAll(p string, m os.FileMode) error {
	err := s.FS.MkdirAll(p, m)
	s.note(fmt.Sprintf("MkdirAll(%s,%d)", h(p), uint32(m)), nil, err)
	return err
}
func (s *spyFS) ReadFile(p string) ([]byte, error) {
	v, err := s.FS.ReadFile(p)
	s.note(fmt.Sprintf("ReadFile(%s)", h(p)), nil, err)
	return v, err
}
func (s *spyFS) WriteFile(p string, d []byte, m os.FileMode) error {
	err := s.FS.WriteFile(p, d, m)
	s.note(fmt.Sprintf("WriteFile(%s,%d)", h(p), uint32(m)), nil, err)
	return err
}
func (s *spyFS) Filespace(p string) (filesystem.Filespace, error) {
	v, err := s.FS.Filespace(p)
	s.note(fmt.Sprintf("Filespace(%s)", h(p)), nil, err)
	return v, err
}
func (s *spyFS) Remove(p string) error {
	err := s.FS.Remove(p)
	s.note(fmt.Sprintf("Remove(%s)", h(p)), nil, err)
	return err
}
func (s *spyFS) RemoveAll(p string) error {
	err := s.FS.RemoveAll(p)
	s.note(fmt.Sprintf("RemoveAll(%s)", h(p)), nil, err)
	return err
}
func (s *spyFS) Lstat(p string) (os.FileInfo, error) {
	v, err := s.FS.Lstat(p)
	s.note(fmt.Sprintf("Lstat(%s)", h(p)), v, err)
	return v, err
}

type spyReader struct {
	filesystem.Reader
	s      *spyFS
	closed bool
}

func (r *spyReader) Close() error {
	r.s.mu.Lock()
	if !r.closed {
		r.closed = true
		r.s.openR--
	}
	r.s.mu.Unlock()
	return r.Reader.Close()
}

type spyWriter struct {
	filesystem.Writer
	s      *spyFS
	closed bool
}

func (w *spyWriter) Close() error {
	w.s.mu.Lock()
	if !w.closed {
		w.closed = true
		w.s.openW--
	}
	w.s.mu.Unlock()
	return w.Writer.Close()
}

func (s *spyFS) Reader(p string) (filesystem.Reader, error) {
	v, err := s.FS.Reader(p)
	s.note(fmt.Sprintf("Reader(%s)", h(p)), nil, err)
	if err != nil {
		return nil, err
	}
	s.mu.Lock()
	s.openR++
	s.mu.Unlock()
	return &spyReader{Reader: v, s: s}, nil
}
func (s *spyFS) Writer(p string) (filesystem.Writer, error) {
	v, err := s.FS.Writer(p)
	s.note(fmt.Sprintf("Writer(%s)", h(p)), nil, err)
	if err != nil {
		return nil, err
	}
	s.mu.Lock()
	s.openW++
	s.mu.Unlock()
	return &spyWriter{Writer: v, s: s}, nil
}
