package main

// The transparent test AEAD of lean/Goat/Model/Encrypt.lean (`toyAEAD`, `ck`, `toyTag`) and a
// cipherfs.Cipher built on it with the identity as key hash.  It is injected into the REAL encryptfs /
// extcfs through their public interfaces, so that the bytes they store are a deterministic function of the
// op line and can be compared with the model byte for byte.

import (
	"bytes"
	"errors"
	"io"
	"io/ioutil"

	"github.com/goatcms/goatcore/filesystem"
)

const toyNonceSize = 12
const toyOverhead = 4

func ck(l []byte) byte {
	acc := byte(7)
	for _, b := range l {
		acc = acc*31 + b + 1
	}
	return acc
}

func toyTag(k, n, p []byte) []byte { return []byte{ck(k), ck(n), ck(p), byte(len(p))} }

func toySeal(k, n, p []byte) []byte {
	return append(append([]byte{}, p...), toyTag(k, n, p)...)
}

func toyOpen(k, n, c []byte) ([]byte, bool) {
	if len(c) < toyOverhead {
		return nil, false
	}
	p := c[:len(c)-toyOverhead]
	if !bytes.Equal(c[len(c)-toyOverhead:], toyTag(k, n, p)) {
		return nil, false
	}
	return append([]byte{}, p...), true
}

// toyCipher: nonce ‖ seal, the nonce taken from `entropy` (what the random source delivers for this case).
type toyCipher struct {
	entropy []byte
}

func (c *toyCipher) Encrypt(key []byte, data []byte) ([]byte, error) {
	if len(c.entropy) < toyNonceSize {
		return nil, errors.New("toy: random source exhausted")
	}
	nonce := append([]byte{}, c.entropy[:toyNonceSize]...)
	return append(nonce, toySeal(key, nonce, data)...), nil
}

func (c *toyCipher) Decrypt(key []byte, data []byte) ([]byte, error) {
	if len(data) < toyNonceSize {
		return nil, errors.New("toy: too short")
	}
	p, ok := toyOpen(key, data[:toyNonceSize], data[toyNonceSize:])
	if !ok {
		return nil, errors.New("toy: authentication failed")
	}
	return p, nil
}

type toyReader struct{ data []byte }

func (r *toyReader) Read(p []byte) (int, error) {
	n := copy(p, r.data)
	r.data = r.data[n:]
	if len(r.data) == 0 {
		return n, io.EOF
	}
	return n, nil
}
func (r *toyReader) Close() error { r.data = nil; return nil }

func (c *toyCipher) DecryptReader(key []byte, stream filesystem.Reader) (filesystem.Reader, error) {
	buf, err := ioutil.ReadAll(stream)
	if err != nil {
		stream.Close()
		return nil, err
	}
	if err = stream.Close(); err != nil {
		return nil, err
	}
	if buf, err = c.Decrypt(key, buf); err != nil {
		return nil, err
	}
	return &toyReader{data: buf}, nil
}

type toyWriter struct {
	c      *toyCipher
	key    []byte
	data   []byte
	stream filesystem.Writer
}

func (w *toyWriter) Write(p []byte) (int, error) { w.data = append(w.data, p...); return len(p), nil }
func (w *toyWriter) Close() error {
	data, err := w.c.Encrypt(w.key, w.data)
	if err != nil {
		return err
	}
	if _, err = w.stream.Write(data); err != nil {
		return err
	}
	return w.stream.Close()
}

func (c *toyCipher) EncryptWriter(key []byte, stream filesystem.Writer) (filesystem.Writer, error) {
	return &toyWriter{c: c, key: key, stream: stream}, nil
}
