// Command envscript is the implementation-side driver, generator and oracle of the `script`
// line protocol (property C18): the real start-up script builders of the container engine
// (dcmd.InitSequence) and of the SSH sandbox (sshsb.(*SSHSandbox).initSequence, through the
// verif-tagged export), the real envs.Environments, and the REAL /bin/sh.
//
//	envscript gen <n>                      n random abstract op lines (cases, names, raw scripts)
//	envscript enum <vlen> <nlen> <batch>   exhaustive op lines: every value of length <= vlen over
//	                                       {$ ` " ' \ nl ) a E O F} (batch values per case, both sandbox
//	                                       kinds) and every name of length <= nlen over the name alphabet
//	envscript drive -resolved F -oracle F  abstract ops on stdin -> result lines on stdout (same format
//	                                       as m_envscript), resolved ops (tag and variable order recovered
//	                                       from the Go output) to -resolved, property failures to -oracle
//
// Abstract op lines (byte strings in hex, `-` = empty, `_` = empty list):
//
//	selfcheck
//	name <k>
//	case <container|ssh|sshold> <entry> <k>=<v>,…      (no tag: the builder draws it at random)
//	raw <script> <entry> <name>,…
//
// `sshold` is not code of /repo: it is the harness's copy of the pre-da68e47 template and only
// serves to validate the model's unquoted-here-document semantics against the real shell.
package main

import (
	"bufio"
	"bytes"
	"context"
	"flag"
	"fmt"
	"io"
	"os"
	"os/exec"
	"path/filepath"
	"regexp"
	"runtime"
	"sort"
	"strconv"
	"strings"
	"sync"
	"sync/atomic"
	"time"

	"gcverif/internal/hx"

	"github.com/goatcms/goatcore/app/modules/commonm/commservices"
	"github.com/goatcms/goatcore/app/modules/commonm/commservices/envs"
	"github.com/goatcms/goatcore/app/modules/ocm/ocservices/dcmd"
	"github.com/goatcms/goatcore/app/modules/pipelinem/pipservices/sandboxes/sshsb"
	"github.com/goatcms/goatcore/varutil"
)

const (
	header      = "\nset -e\nset +x\n"
	dumpCmd     = "env -0"
	presetName  = "PRESET"
	presetValue = "preset"
)

var (
	valueAlphabet = []byte{'$', '`', '"', '\'', '\\', '\n', ')', 'a', 'E', 'O', 'F'}
	nameAlphabet  = []byte{'A', 'z', '_', '0', ' ', ';', '=', '$', '\n', 0xC3, '-'}
	tripLetters   = []byte{'a', 'E', 'O', 'F'}
	tagRe         = regexp.MustCompile(`<<['"]?(EOF[A-Z]*)['"]?\n`)
	tagShape      = regexp.MustCompile(`^EOF[A-Z]{10}$`)
	reserved      = map[string]bool{"PATH": true, "OPTIND": true}
)

type kv struct{ k, v []byte }

// ---------------------------------------------------------------------------------- parsing

func parseEnvs(s string) []kv {
	if s == "_" {
		return nil
	}
	var res []kv
	for _, item := range strings.Split(s, ",") {
		i := strings.IndexByte(item, '=')
		res = append(res, kv{hx.MustDec(item[:i]), hx.MustDec(item[i+1:])})
	}
	return res
}

func showEnvs(l []kv) string {
	if len(l) == 0 {
		return "_"
	}
	items := make([]string, len(l))
	for i, e := range l {
		items[i] = hx.Enc(e.k) + "=" + hx.Enc(e.v)
	}
	return strings.Join(items, ",")
}

func parseNames(s string) [][]byte {
	if s == "_" {
		return nil
	}
	var res [][]byte
	for _, item := range strings.Split(s, ",") {
		res = append(res, hx.MustDec(item))
	}
	return res
}

// ---------------------------------------------------------------------------------- the real shell

// worker owns a scratch directory under /var/tmp:
//
//	bin/     `trip` and one symlink to it for every word over {a,E,O,F} up to length 5: if the shell
//	         ever runs such a word as a command, the name lands in ../tripped
//	cwd/     working directory of the shell, holds exactly one file `canary`
type worker struct {
	dir string
}

func newWorker(root string, i int) *worker {
	w := &worker{dir: filepath.Join(root, fmt.Sprintf("w%d", i))}
	must(os.MkdirAll(filepath.Join(w.dir, "bin"), 0o755))
	must(os.MkdirAll(filepath.Join(w.dir, "cwd"), 0o755))
	trip := filepath.Join(w.dir, "bin", "trip")
	must(os.WriteFile(trip, []byte("#!/bin/sh\necho \"$0\" >> "+filepath.Join(w.dir, "tripped")+"\n"), 0o755))
	var rec func(cur []byte, n int)
	rec = func(cur []byte, n int) {
		if len(cur) > 0 {
			must(os.Symlink("trip", filepath.Join(w.dir, "bin", string(cur))))
		}
		if n == 0 {
			return
		}
		for _, c := range tripLetters {
			rec(append(append([]byte{}, cur...), c), n-1)
		}
	}
	rec(nil, 5)
	w.resetCanary()
	return w
}

func (w *worker) resetCanary() {
	cwd := filepath.Join(w.dir, "cwd")
	must(os.RemoveAll(cwd))
	must(os.MkdirAll(cwd, 0o755))
	must(os.WriteFile(filepath.Join(cwd, "canary"), []byte("canary\n"), 0o644))
	os.Remove(filepath.Join(w.dir, "tripped"))
}

// intact reports whether no command ran: the canary file is unchanged, nothing else appeared in the
// working directory, no trip word was executed.
func (w *worker) intact() (ok bool, what string) {
	cwd := filepath.Join(w.dir, "cwd")
	ents, err := os.ReadDir(cwd)
	if err != nil || len(ents) != 1 || ents[0].Name() != "canary" {
		names := []string{}
		for _, e := range ents {
			names = append(names, e.Name())
		}
		return false, "dir:" + hx.Enc([]byte(strings.Join(names, "+")))
	}
	if b, err := os.ReadFile(filepath.Join(cwd, "canary")); err != nil || string(b) != "canary\n" {
		return false, "canary-modified"
	}
	if b, err := os.ReadFile(filepath.Join(w.dir, "tripped")); err == nil {
		f := strings.Fields(string(b))
		if len(f) > 0 {
			return false, "ran:" + hx.Enc([]byte(filepath.Base(f[0])))
		}
		return false, "ran"
	}
	return true, ""
}

type shResult struct {
	rc     int
	env    map[string][]byte
	stderr []byte
	intact bool
	what   string
}

// runShell feeds stdin to the real /bin/sh started with a minimal environment.
func (w *worker) runShell(stdin []byte) shResult {
	ctx, cancel := context.WithTimeout(context.Background(), 20*time.Second)
	defer cancel()
	cmd := exec.CommandContext(ctx, "/bin/sh")
	cmd.Env = []string{"PATH=" + filepath.Join(w.dir, "bin") + ":/usr/bin:/bin", presetName + "=" + presetValue}
	cmd.Dir = filepath.Join(w.dir, "cwd")
	cmd.Stdin = bytes.NewReader(stdin)
	var out, errb bytes.Buffer
	cmd.Stdout, cmd.Stderr = &out, &errb
	err := cmd.Run()
	res := shResult{env: map[string][]byte{}, stderr: errb.Bytes()}
	if err != nil {
		res.rc = -1
		if ee, ok := err.(*exec.ExitError); ok {
			res.rc = ee.ExitCode()
		}
	}
	for _, item := range bytes.Split(out.Bytes(), []byte{0}) {
		if i := bytes.IndexByte(item, '='); i > 0 {
			res.env[string(item[:i])] = item[i+1:]
		}
	}
	res.intact, res.what = w.intact()
	if !res.intact {
		w.resetCanary()
	}
	return res
}

// varsLine renders what the entrypoint found in its environment, in the format of m_envscript.
func varsLine(res shResult, names [][]byte) string {
	if res.rc != 0 || len(res.stderr) != 0 || !res.intact {
		e := res.stderr
		if len(e) > 60 {
			e = e[:60]
		}
		what := res.what
		if what == "" {
			what = "ok"
		}
		return fmt.Sprintf("fail rc=%d canary=%s stderr=%s", res.rc, what, hx.Enc(e))
	}
	seen := map[string]bool{}
	var items []string
	for _, n := range append([][]byte{[]byte(presetName)}, names...) {
		if seen[string(n)] {
			continue
		}
		seen[string(n)] = true
		if v, ok := res.env[string(n)]; ok {
			items = append(items, hx.Enc(n)+"="+hx.Enc(v))
		} else {
			items = append(items, hx.Enc(n)+"=!")
		}
	}
	sort.Strings(items)
	var extra []string
	for n := range res.env {
		if !seen[n] && n != "PATH" && n != "PWD" && n != "OLDPWD" && n != "_" && n != "SHLVL" {
			extra = append(extra, "extra:"+hx.Enc([]byte(n)))
		}
	}
	sort.Strings(extra)
	return "vars " + strings.Join(append(items, extra...), ",")
}

// ---------------------------------------------------------------------------------- the real builders

// dashLine is the defect class of known finding KF-C18-1 (dash 0.5.12, parser.c checkend): in a
// here-document line that starts with a non-empty prefix of the delimiter, a first mismatching byte
// >= 0x80 is lost.  Same function as Goat.EnvScript.dashLine.
func dashLine(tag string, l []byte) []byte {
	i := 0
	for i < len(tag) && i < len(l) && l[i] == tag[i] {
		i++
	}
	if i >= 1 && i < len(l) && l[i] >= 0x80 {
		return append(append([]byte{}, l[:i]...), l[i+1:]...)
	}
	return l
}

func dashValue(tag string, v []byte) []byte {
	lines := bytes.Split(v, []byte{'\n'})
	for i := range lines {
		lines[i] = dashLine(tag, lines[i])
	}
	return bytes.Join(lines, []byte{'\n'})
}

func stripNL(v []byte) []byte { return bytes.TrimRight(v, "\n") }

// refBlock is the harness's own copy of one loop iteration of the builders; it is used to
// recover the order in which Go's map iteration emitted the variables, and for `sshold`.
func refBlock(k, v []byte, tag string, quoted bool) string {
	q := ""
	if quoted {
		q = "'"
	}
	return string(k) + "=$(cat <<" + q + tag + q + "\n" + string(v) + "\n" + tag + "\n)\nexport " + string(k) + "\n"
}

// build runs the real builder; ok=false when a Set was refused or the builder failed/panicked.
func build(kind string, entry []byte, list []kv) (script []byte, status string) {
	var (
		e   commservices.Environments
		rd  io.Reader
		err error
	)
	if kind == "sshold" {
		tag := "EOF" + varutil.RandString(10, varutil.UpperAlphaBytes)
		s := header
		// same nondeterministic order as a Go map would give
		m := map[string][]byte{}
		for _, x := range list {
			m[string(x.k)] = x.v
		}
		for k, v := range m {
			s += refBlock([]byte(k), v, tag, false)
		}
		return []byte(s + string(entry) + "\n"), ""
	}
	p, _ := hx.Guard(func() {
		e = envs.NewEnvironments()
		if (len(list)+len(entry))%2 == 1 {
			// An Environments instance lives as long as its scope and serves several sandboxes: in half of the
			// cases an earlier script was built from it while the variables still had other values; the
			// script built afterwards must carry the values configured last (no new name is added below).
			for i, x := range list {
				e.Set(string(x.k), "stale-"+strconv.Itoa(i)+"-$(echo stale)")
			}
			if kind == "container" {
				if r0, e0 := dcmd.InitSequence(e); e0 == nil {
					io.Copy(io.Discard, r0)
				}
			} else {
				if r0, e0 := sshsb.VerifInitSequence("stale-entrypoint", e); e0 == nil {
					io.Copy(io.Discard, r0)
				}
			}
			_ = e.All()
		}
		for i, x := range list {
			if i%2 == 0 {
				err = e.Set(string(x.k), string(x.v))
			} else {
				err = e.SetAll(map[string]string{string(x.k): string(x.v)})
			}
			if err != nil {
				return
			}
		}
		switch kind {
		case "container":
			rd, err = dcmd.InitSequence(e)
		case "ssh":
			rd, err = sshsb.VerifInitSequence(string(entry), e)
		default:
			err = fmt.Errorf("kind")
		}
		if err == nil {
			// Two start-up scripts are built before the first one is read (two sandboxes of one pipeline
			// overlap between building the script and the shell reading it): a builder whose result
			// shares storage with the next build delivers the other sandbox's values.
			decoy := envs.NewEnvironments()
			decoy.Set("DECOY_ONE", "decoy-value-1-$(echo decoy)")
			decoy.Set("DECOY_TWO", strings.Repeat("decoy-two ", 40))
			if kind == "container" {
				dcmd.InitSequence(decoy)
			} else {
				sshsb.VerifInitSequence("decoy-entrypoint", decoy)
			}
			script, err = io.ReadAll(rd)
		}
	})
	if p {
		return nil, "panic"
	}
	if err != nil {
		return nil, "err"
	}
	return script, ""
}

// recoverTagOrder finds the random tag and the order of the variables in a builder output.
func recoverTagOrder(script []byte, list []kv, quoted bool) (tag string, order []kv, recovered bool) {
	if m := tagRe.FindSubmatch(script); m != nil {
		tag = string(m[1])
	}
	remaining := append([]kv{}, list...)
	pos := len(header)
	recovered = bytes.HasPrefix(script, []byte(header))
	for recovered && len(remaining) > 0 {
		found := -1
		for i, x := range remaining {
			if pos <= len(script) && bytes.HasPrefix(script[pos:], append(append([]byte{}, x.k...), '=')) {
				found = i
				break
			}
		}
		if found < 0 {
			recovered = false
			break
		}
		x := remaining[found]
		order = append(order, x)
		remaining = append(remaining[:found], remaining[found+1:]...)
		pos += len(refBlock(x.k, x.v, tag, quoted))
	}
	sort.Slice(remaining, func(i, j int) bool { return bytes.Compare(remaining[i].k, remaining[j].k) < 0 })
	return tag, append(order, remaining...), recovered
}

// ---------------------------------------------------------------------------------- drive

type result struct {
	out      []string // result lines
	resolved string   // op line for the model driver
	oracle   []string // property failures (FAIL …) and accounting (INFO …)
}

func identSpec(k []byte) bool {
	// the property's own notion of a plain identifier: a letter, then letters or underscores
	if len(k) == 0 {
		return false
	}
	for i, b := range k {
		alpha := (b >= 'a' && b <= 'z') || (b >= 'A' && b <= 'Z')
		if !(alpha || (i > 0 && b == '_')) {
			return false
		}
	}
	return true
}

func doName(k []byte) result {
	var e1, e2 error
	var in1, in2 bool
	p, _ := hx.Guard(func() {
		a := envs.NewEnvironments()
		e1 = a.Set(string(k), "v")
		_, in1 = a.All()[string(k)]
		b := envs.NewEnvironments()
		e2 = b.SetAll(map[string]string{"OK": "1", string(k): "v"})
		_, in2 = b.All()[string(k)]
	})
	line := "name " + hx.Enc(k)
	r := result{resolved: line}
	switch {
	case p:
		r.out = []string{"panic"}
	case e1 == nil && e2 == nil && in1 && in2:
		r.out = []string{"ok"}
	case e1 != nil && e2 != nil && !in1 && !in2:
		r.out = []string{"err"}
	default:
		r.out = []string{fmt.Sprintf("mixed set=%v setall=%v stored=%v/%v", e1 == nil, e2 == nil, in1, in2)}
	}
	want := "err"
	if identSpec(k) {
		want = "ok"
	}
	if r.out[0] != want {
		r.oracle = append(r.oracle, fmt.Sprintf("FAIL name %s want=%s got=%s", line, want, r.out[0]))
	}
	return r
}

var (
	casesBuilt int64
	tagMu      sync.Mutex
	tagSeen    = map[string]string{}
)

func doCase(w *worker, kind string, entry []byte, list []kv) result {
	script, status := build(kind, entry, list)
	if status != "" {
		line := fmt.Sprintf("case %s %s - %s", kind, hx.Enc(entry), showEnvs(list))
		return result{out: []string{"script " + status, "vars " + status}, resolved: line,
			oracle: []string{fmt.Sprintf("FAIL build %s the builder or Set answered %s for valid names", line, status)}}
	}
	tag, order, recovered := recoverTagOrder(script, list, kind != "sshold")
	line := fmt.Sprintf("case %s %s %s %s", kind, hx.Enc(entry), hx.Enc([]byte(tag)), showEnvs(order))
	r := result{resolved: line}
	stdin := script
	if kind == "container" {
		stdin = append(append([]byte{}, script...), entry...)
	}
	res := w.runShell(stdin)
	names := make([][]byte, len(list))
	for i, x := range list {
		names[i] = x.k
	}
	got := varsLine(res, names)
	r.out = []string{"script " + hx.Enc(script), got}
	if !recovered {
		r.oracle = append(r.oracle, "INFO order-unrecovered")
	}
	if kind == "sshold" {
		return r
	}
	// the property itself, on the implementation alone
	// The here-document tag is the only thing between a value and the shell: it has to be fresh for every
	// script (26^10 possibilities - a repeat within one process means the generator restarts or is shared).
	// Pools and caches behind the builders are emptied now and then (two GC cycles drop a sync.Pool).
	if n := atomic.AddInt64(&casesBuilt, 1); n%61 == 0 {
		runtime.GC()
		runtime.GC()
	}
	if len(list) > 0 && tagShape.MatchString(tag) {
		tagMu.Lock()
		first, dup := tagSeen[tag]
		if !dup {
			tagSeen[tag] = line
		}
		tagMu.Unlock()
		if dup {
			r.oracle = append(r.oracle, fmt.Sprintf("FAIL tagfresh %s the here-document tag %s was already used by an earlier script of this process (%s): a value holding that line would end the document early", line, tag, first))
		}
	}
	if len(list) > 0 && !tagShape.MatchString(tag) {
		r.oracle = append(r.oracle, fmt.Sprintf("FAIL tagshape %s the here-document tag %q is not EOF + 10 random capitals", line, tag))
	}
	inScope := true
	for _, x := range list {
		if bytes.IndexByte(x.v, 0) >= 0 || reserved[string(x.k)] || !identSpec(x.k) {
			inScope = false
		}
	}
	if inScope {
		want := shResult{env: map[string][]byte{presetName: []byte(presetValue)}, intact: true}
		for _, x := range list {
			want.env[string(x.k)] = stripNL(x.v)
		}
		// what dash 0.5.12 is known to deliver instead (KF-C18-1), to keep that class apart
		quirk := shResult{env: map[string][]byte{presetName: []byte(presetValue)}, intact: true}
		for _, x := range list {
			quirk.env[string(x.k)] = stripNL(dashValue(tag, x.v))
		}
		exp, expDash := varsLine(want, names), varsLine(quirk, names)
		switch {
		case got == exp:
			if exp != expDash {
				r.oracle = append(r.oracle, "INFO dash-class-delivered-exactly")
			}
		case got == expDash:
			r.oracle = append(r.oracle, fmt.Sprintf("KNOWN KF-C18-1 %s want=%s got=%s", line, exp, got))
		default:
			r.oracle = append(r.oracle, fmt.Sprintf("FAIL deliver %s want=%s got=%s", line, exp, got))
		}
	} else {
		r.oracle = append(r.oracle, "INFO out-of-scope")
	}
	return r
}

func doRaw(w *worker, line string, script, entry []byte, names [][]byte) result {
	res := w.runShell(append(append([]byte{}, script...), entry...))
	return result{out: []string{varsLine(res, names)}, resolved: line}
}

func drive(resolvedPath, oraclePath, workRoot string, workers int) {
	sc := bufio.NewScanner(os.Stdin)
	sc.Buffer(make([]byte, 1<<20), 1<<28)
	var lines []string
	for sc.Scan() {
		l := sc.Text()
		if l == "" || strings.HasPrefix(l, "#") {
			continue
		}
		lines = append(lines, l)
	}
	root, err := os.MkdirTemp(workRoot, "c18-sh-")
	must(err)
	defer os.RemoveAll(root)
	results := make([]result, len(lines))
	idx := make(chan int, 256)
	var wg sync.WaitGroup
	for i := 0; i < workers; i++ {
		wg.Add(1)
		go func(i int) {
			defer wg.Done()
			w := newWorker(root, i)
			for j := range idx {
				results[j] = handle(w, lines[j])
			}
		}(i)
	}
	for j := range lines {
		idx <- j
	}
	close(idx)
	wg.Wait()
	if len(results) > 0 {
		results[0].oracle = append(results[0].oracle, tagBurst(workers)...)
	}
	out := bufio.NewWriterSize(os.Stdout, 1<<20)
	defer out.Flush()
	rf, err := os.Create(resolvedPath)
	must(err)
	defer rf.Close()
	rw := bufio.NewWriterSize(rf, 1<<20)
	defer rw.Flush()
	of, err := os.Create(oraclePath)
	must(err)
	defer of.Close()
	ow := bufio.NewWriter(of)
	defer ow.Flush()
	for _, r := range results {
		for _, l := range r.out {
			fmt.Fprintln(out, l)
		}
		fmt.Fprintln(rw, r.resolved)
		for _, l := range r.oracle {
			fmt.Fprintln(ow, l)
		}
	}
}

// tagBurst: sandboxes of one pipeline start at the same time - many goroutines build start-up scripts at once.
// No build may panic and no two scripts may carry the same here-document tag (defect 27, §4: the shared random
// source of varutil.RandString was read without a lock).
func tagBurst(workers int) (fails []string) {
	const per = 1500
	const caseLine = "case container 656e76202d300a 41=31"
	tags := make([][]string, workers)
	panics := make([]int, workers)
	var wg sync.WaitGroup
	for i := 0; i < workers; i++ {
		wg.Add(1)
		go func(i int) {
			defer wg.Done()
			for k := 0; k < per; k++ {
				var script []byte
				p, _ := hx.Guard(func() {
					e := envs.NewEnvironments()
					e.Set("A", "1")
					var rd io.Reader
					var err error
					if k%2 == 0 {
						rd, err = dcmd.InitSequence(e)
					} else {
						rd, err = sshsb.VerifInitSequence("env -0", e)
					}
					if err == nil {
						script, _ = io.ReadAll(rd)
					}
				})
				if p {
					panics[i]++
					continue
				}
				if m := tagRe.FindSubmatch(script); m != nil {
					tags[i] = append(tags[i], string(m[1]))
				}
			}
		}(i)
	}
	wg.Wait()
	seen := map[string]bool{}
	dups, np, n := 0, 0, 0
	first := ""
	for i := range tags {
		np += panics[i]
		for _, t := range tags[i] {
			n++
			if seen[t] {
				dups++
				if first == "" {
					first = t
				}
			}
			seen[t] = true
		}
	}
	if np > 0 {
		fails = append(fails, fmt.Sprintf("FAIL tagfresh %s %d of %d start-up scripts built by %d goroutines at the same time panicked in the builder", caseLine, np, workers*per, workers))
	}
	if dups > 0 {
		fails = append(fails, fmt.Sprintf("FAIL tagfresh %s %d of %d start-up scripts built by %d goroutines at the same time carry a here-document tag another one carries too (e.g. %s)", caseLine, dups, n, workers, first))
	}
	fails = append(fails, fmt.Sprintf("INFO tagburst scripts=%d goroutines=%d panics=%d duplicate_tags=%d", workers*per, workers, np, dups))
	return fails
}

func handle(w *worker, line string) (r result) {
	f := strings.Split(line, " ")
	switch {
	case f[0] == "selfcheck" && len(f) == 1:
		// the shell under test must be there and the scratch area must work
		res := w.runShell([]byte("trip\nE\necho x > made\n"))
		ok := !res.intact
		res2 := w.runShell([]byte(dumpCmd + "\n"))
		ok = ok && res2.intact && res2.rc == 0 && string(res2.env[presetName]) == presetValue
		if ok {
			return result{out: []string{"selfcheck ok"}, resolved: line}
		}
		return result{out: []string{"selfcheck bad [shell-or-canary]"}, resolved: line}
	case f[0] == "name" && len(f) == 2:
		return doName(hx.MustDec(f[1]))
	case f[0] == "case" && len(f) == 4:
		return doCase(w, f[1], hx.MustDec(f[2]), parseEnvs(f[3]))
	case f[0] == "raw" && len(f) == 4:
		return doRaw(w, line, hx.MustDec(f[1]), hx.MustDec(f[2]), parseNames(f[3]))
	}
	return result{out: []string{"bad-op"}, resolved: line}
}

// ---------------------------------------------------------------------------------- generators

func batchKey(i int) []byte {
	// V, then three lower-case letters: valid names, none reserved, none a trip word
	return []byte{'V', byte('a' + i/676%26), byte('a' + i/26%26), byte('a' + i%26)}
}

func enumerate(alpha []byte, maxLen int, f func([]byte)) {
	var rec func(cur []byte, n int)
	rec = func(cur []byte, n int) {
		if n == 0 {
			f(append([]byte{}, cur...))
			return
		}
		for _, a := range alpha {
			rec(append(cur, a), n-1)
		}
	}
	for l := 0; l <= maxLen; l++ {
		rec(nil, l)
	}
}

func enum(w *bufio.Writer, vlen, nlen, batch int) {
	// every value goes through BOTH builders
	for _, kind := range []string{"container", "ssh"} {
		var cur []kv
		entry := dumpCmd
		if kind == "container" {
			entry += "\n"
		}
		flush := func() {
			if len(cur) > 0 {
				fmt.Fprintf(w, "case %s %s %s\n", kind, hx.Enc([]byte(entry)), showEnvs(cur))
			}
			cur = nil
		}
		enumerate(valueAlphabet, vlen, func(v []byte) {
			cur = append(cur, kv{batchKey(len(cur)), v})
			if len(cur) == batch {
				flush()
			}
		})
		flush()
	}
	enumerate(nameAlphabet, nlen, func(k []byte) { fmt.Fprintf(w, "name %s\n", hx.Enc(k)) })
}

var (
	keyPool = []string{"A", "B", "AB", "a_b", "X", "HOME", "IFS", "EOF", "E", "cat", "export", "set", presetName, "PWD",
		"LANG", "LC_ALL", "TERM", "ENV", "Z_", "a__b", "PS", "trip", "OLDPWD", "TMPDIR", "CDPATH", "MAILPATH", "LINENO"}
	snippets = []string{"$X", "${X}", "$PRESET", "${PRESET}", "$(trip)", "`trip`", "$(echo pwn > pwned)", "; trip ;", "\ntrip\n",
		"| trip", "&& trip", "> pwned", "\\", "\\\n", "'", "\"", "'\"'\"'", "EOF", "\nEOF\n", "EOFAAAAAAAAAA", ")", "\n)\n", "$(",
		"`", "$((1+1))", "~", "*", "#", "!", " ", "\t", "\r", "\n", "\n\n", "export A=1", "\nexport B\n", "A=1", "$A", "$B", "\x01",
		"\x81", "\x82", "\x88", "\xff", "\xc3\xa9", "<<", "$'", "$\"", "\\$", "\\`", "\\\\", "a", "trip", "${X:-`trip`}", "$0", "$$", "$?"}
	nameParts = []string{"A", "z", "_", "0", " ", ";", "=", "$", "\n", "\xc3\xa9", "-", "B", "x", "9", "\t", "\x00", "(", "`", "'", "A B", "A;x", "EOF"}
	// values inside the modelled part of the unquoted semantics
	oldSnips = []string{"a", " ", "$PRESET", "$A", "$B", "$UNSET", "\\$", "\\\\", "\\`", "$ ", "\\a", "\\\"", "\"", "'", ")", "x y", "\n", "$A_", "$Ab", "\\$A", "$", "EOF"}
)

func randValue(r *hx.Rand) []byte {
	var v []byte
	switch r.Intn(10) {
	case 0, 1, 2: // longer strings over the shell-significant alphabet
		n := 6 + r.Intn(30)
		for i := 0; i < n; i++ {
			v = append(v, valueAlphabet[r.Intn(len(valueAlphabet))])
		}
	case 3, 4, 5, 6: // snippets glued together
		n := 1 + r.Intn(5)
		for i := 0; i < n; i++ {
			v = append(v, r.Pick(snippets)...)
		}
	case 7: // arbitrary non-NUL bytes
		n := r.Intn(40)
		for i := 0; i < n; i++ {
			v = append(v, byte(1+r.Intn(255)))
		}
	case 8: // short, with trailing newlines
		v = append([]byte(r.Pick(snippets)), bytes.Repeat([]byte{'\n'}, r.Intn(4))...)
	default:
		n := r.Intn(6)
		for i := 0; i < n; i++ {
			v = append(v, valueAlphabet[r.Intn(len(valueAlphabet))])
		}
		if r.Chance(1, 12) {
			v = append(v, 0, 'x') // NUL: outside the property's precondition
		}
	}
	return v
}

func gen(w *bufio.Writer, n int) {
	r := hx.NewRand(hx.SeedFromEnv())
	for i := 0; i < n; i++ {
		switch c := r.Intn(20); {
		case c < 13: // builder case, 0–6 variables (0 rarely)
			nv := 1 + r.Intn(6)
			if r.Chance(1, 40) {
				nv = 0
			}
			used := map[string]bool{}
			var list []kv
			for len(list) < nv {
				k := r.Pick(keyPool)
				if used[k] {
					continue
				}
				used[k] = true
				list = append(list, kv{[]byte(k), randValue(r)})
			}
			kind := []string{"container", "ssh"}[r.Intn(2)]
			entry := dumpCmd
			if kind == "container" {
				entry += "\n"
			}
			fmt.Fprintf(w, "case %s %s %s\n", kind, hx.Enc([]byte(entry)), showEnvs(list))
		case c < 15: // name
			var k []byte
			m := 1 + r.Intn(5)
			for j := 0; j < m; j++ {
				k = append(k, r.Pick(nameParts)...)
			}
			fmt.Fprintf(w, "name %s\n", hx.Enc(k))
		case c < 17: // unquoted reference template: validates the model's unquoted semantics on dash
			var list []kv
			for _, k := range []string{"A", "B", "X"}[:1+r.Intn(3)] {
				var v []byte
				m := r.Intn(5)
				for j := 0; j < m; j++ {
					if r.Chance(1, 15) {
						v = append(v, r.Pick(snippets)...)
					} else {
						v = append(v, r.Pick(oldSnips)...)
					}
				}
				list = append(list, kv{[]byte(k), v})
			}
			fmt.Fprintf(w, "case sshold %s %s\n", hx.Enc([]byte(dumpCmd)), showEnvs(list))
		default: // raw near-miss scripts: the mini-shell may only claim `vars` where dash agrees
			fmt.Fprintf(w, "raw %s %s %s\n", hx.Enc(rawScript(r)), hx.Enc([]byte(dumpCmd+"\n")), "41,42,58")
		}
	}
}

// rawScript assembles lines of and around the fragment in random order.
func rawScript(r *hx.Rand) []byte {
	tag := "EOFQWERTYUIOP"
	pieces := []string{
		"\n", "set -e\n", "set +x\n", "export A\n", "export B\n", "export X\n",
		refBlock([]byte("A"), []byte("1"), tag, true), refBlock([]byte("B"), []byte("$A b"), tag, false),
		"A=$(cat <<'" + tag + "'\nv\n" + tag + "\n)\n", "X=$(cat <<" + tag + "\n$PRESET\\$\n" + tag + "\n)\n",
		"B=$(cat <<'T'\nq\nT\n)\n", "A=$(cat <<'" + tag + "'\nv\n" + tag + "\n)\nexport A\n",
	}
	odd := []string{"A=2\n", "export A=3\n", "unset A\n", "A=$(cat <<\"T\"\nq\nT\n)\n", "A=$(echo hi)\n", ": \n", "# c\n",
		"export A B\n", " export A\n", "A=$(cat <<'T' )\nq\nT\n)\n", "A=$(cat <<'T'\nq\nT\n) \n", "set -x\n", "true\n"}
	var s []byte
	n := 1 + r.Intn(6)
	for i := 0; i < n; i++ {
		if r.Chance(1, 14) {
			s = append(s, r.Pick(odd)...)
		} else {
			s = append(s, r.Pick(pieces)...)
		}
	}
	return s
}

func must(err error) {
	if err != nil {
		fmt.Fprintln(os.Stderr, "envscript:", err)
		os.Exit(3)
	}
}

func main() {
	if len(os.Args) < 2 {
		fmt.Fprintln(os.Stderr, "usage: envscript gen <n> | enum <vlen> <nlen> <batch> | drive -resolved F -oracle F")
		os.Exit(2)
	}
	w := bufio.NewWriterSize(os.Stdout, 1<<20)
	switch os.Args[1] {
	case "gen":
		n, _ := strconv.Atoi(os.Args[2])
		gen(w, n)
		w.Flush()
	case "enum":
		vlen, _ := strconv.Atoi(os.Args[2])
		nlen, _ := strconv.Atoi(os.Args[3])
		batch, _ := strconv.Atoi(os.Args[4])
		enum(w, vlen, nlen, batch)
		w.Flush()
	case "drive":
		fs := flag.NewFlagSet("drive", flag.ExitOnError)
		resolved := fs.String("resolved", "", "file receiving the op lines for the model driver")
		oracle := fs.String("oracle", "", "file receiving FAIL/INFO lines of the property oracle")
		work := fs.String("work", "/var/tmp", "parent of the scratch directory")
		workers := fs.Int("workers", runtime.NumCPU(), "parallel shells")
		fs.Parse(os.Args[2:])
		drive(*resolved, *oracle, *work, *workers)
	default:
		os.Exit(2)
	}
}
