package main

import (
	"fmt"

	"github.com/goatcms/goatcore/filesystem"
	"github.com/goatcms/goatcore/filesystem/filespace/memfs"
)

// FS is the interface under test.  (filesystem.Filespace has a method named Filespace, so a
// struct cannot embed it under its own name; use this alias.)
type FS = filesystem.Filespace

// newFS is the backend factory of the `new <id> <kind> [<arg>…]` line.
//
// EXTENSION POINT (C02–C07): add a case per kind.  `args` are the remaining tokens of the line
// (hex byte strings or ids of already bound filespaces, resolved with s.fs(id)); anything that
// must be released when the history ends (temp directories of a disk backend…) is registered with
// s.onReset(func()).  Existing kinds and op syntax must not change.  The Lean side has the same
// switch in /verif/lean/Driver/FS.lean (`newFS`).
//
//	mem                      memfs.NewFilespace()
//	(planned) disk           diskfs in a fresh directory under /var/tmp, removed on reset
//	(planned) enc <fs> …     encrypted wrapper over filespace <fs>
//	(planned) cache <fs>     write-back cache over <fs>
//	(planned) ro <fs>        read-only mask
//	(planned) sub <fs> <p>   sub-path view
func newFS(s *session, kind string, args []string) (FS, error) {
	switch kind {
	case "mem":
		if len(args) != 0 {
			return nil, errBadOp
		}
		return memfs.NewFilespace()
	}
	return nil, errBadOp
}

var errBadOp = fmt.Errorf("bad-op")
