package main

import (
	"bufio"
	"encoding/json"
	"fmt"
	"hash/fnv"
	"io"
	"os"
	"path"
	"sort"
	"strconv"
	"strings"
	"time"

	"gcverif/internal/hx"

	"github.com/goatcms/goatcore/varutil"
)

// watchdog: an interface call that does not return within this time is reported as `hang`
// (generous: "wait for what must happen", never used to assert that something did not happen).
const watchdog = 20 * time.Second

// kept is a buffer remembered by the alias probes: the very slice / listing object the filespace
// was given or returned.
type kept struct {
	isList  bool
	bytes   []byte
	listing []os.FileInfo
}

type session struct {
	fss     map[int]FS
	slots   map[int]*kept
	last    *kept
	hung    bool
	cleanup []func()
	timer   *time.Timer
}

func newSession() *session {
	return &session{fss: map[int]FS{}, slots: map[int]*kept{}}
}

func (s *session) onReset(f func()) { s.cleanup = append(s.cleanup, f) }

func (s *session) reset() {
	for _, f := range s.cleanup {
		f()
	}
	*s = *newSession()
}

// exec runs one interface call under recover and the watchdog.
func (s *session) exec(f func() string) string {
	if s.hung {
		return "hang"
	}
	ch := make(chan string, 1)
	go func() {
		var res string
		if p, _ := hx.Guard(func() { res = f() }); p {
			res = "panic"
		}
		ch <- res
	}()
	if s.timer == nil {
		s.timer = time.NewTimer(watchdog)
	} else {
		if !s.timer.Stop() {
			select {
			case <-s.timer.C:
			default:
			}
		}
		s.timer.Reset(watchdog)
	}
	select {
	case r := <-ch:
		return r
	case <-s.timer.C:
		s.hung = true // locks may be held for ever: the rest of the history answers `hang`
		return "hang"
	}
}

func okErr(err error) string {
	if err != nil {
		return "err"
	}
	return "ok"
}

func tf(b bool) string {
	if b {
		return "t"
	}
	return "f"
}

func showListing(l []os.FileInfo) string {
	if len(l) == 0 {
		return "list"
	}
	items := make([]string, len(l))
	for i, e := range l {
		if e == nil {
			items[i] = "nil"
			continue
		}
		k := "f"
		if e.IsDir() {
			k = "d"
		}
		items[i] = hx.Enc([]byte(e.Name())) + ":" + k
	}
	return "list " + strings.Join(items, ",")
}

// A tree deeper or larger than this cannot come from a history of at most a few hundred lines; the
// walk stops there and marks the entry `!` (a cyclic structure would otherwise be walked for ever).
const (
	dumpMaxDepth = 48
	dumpMaxItems = 100000
)

// dump walks the whole filespace through the public interface only.
func dump(fs FS) string {
	type item struct{ p, s string }
	var items []item
	var walk func(dir string, depth int) bool
	walk = func(dir string, depth int) bool {
		if depth > dumpMaxDepth || len(items) > dumpMaxItems {
			return false
		}
		l, err := fs.ReadDir(dir)
		if err != nil {
			return false
		}
		for _, e := range l {
			p := e.Name()
			if dir != "" {
				p = dir + "/" + e.Name()
			}
			hp := hx.Enc([]byte(p))
			isDir := e.IsDir()
			if !fs.IsExist(p) || fs.IsDir(p) != isDir || fs.IsFile(p) == isDir {
				items = append(items, item{p, hp + "!"})
				continue
			}
			if isDir {
				items = append(items, item{p, hp + "/"})
				if !walk(p, depth+1) {
					items = append(items, item{p, hp + "!"})
				}
				continue
			}
			data, err := fs.ReadFile(p)
			if err != nil {
				items = append(items, item{p, hp + "!"})
				continue
			}
			items = append(items, item{p, hp + "=" + hx.Enc(data)})
		}
		return true
	}
	if !walk("", 0) {
		return "err"
	}
	sort.SliceStable(items, func(i, j int) bool { return items[i].p < items[j].p })
	if len(items) == 0 {
		return "tree"
	}
	out := make([]string, len(items))
	for i, it := range items {
		out[i] = it.s
	}
	return "tree " + strings.Join(out, " ")
}

func dec(s string) (string, bool) {
	b, err := hx.Dec(s)
	return string(b), err == nil
}

// call runs one of the 16 interface methods.  handedIn/handedOut: the buffer the alias probes may keep.
func (s *session) call(fs FS, cmd string, a []string) (res string, buf *kept, ok bool) {
	p1 := func(f func(p string) string) (string, *kept, bool) {
		if len(a) != 1 {
			return "", nil, false
		}
		p, good := dec(a[0])
		if !good {
			return "", nil, false
		}
		return s.exec(func() string { return f(p) }), nil, true
	}
	p2 := func(f func(x, y string) error) (string, *kept, bool) {
		if len(a) != 2 {
			return "", nil, false
		}
		x, g1 := dec(a[0])
		y, g2 := dec(a[1])
		if !g1 || !g2 {
			return "", nil, false
		}
		return s.exec(func() string { return okErr(f(x, y)) }), nil, true
	}
	switch cmd {
	case "write":
		if len(a) != 2 {
			return "", nil, false
		}
		p, g1 := dec(a[0])
		data, err := hx.Dec(a[1])
		if !g1 || err != nil {
			return "", nil, false
		}
		res = s.exec(func() string { return okErr(fs.WriteFile(p, data, 0644)) })
		return res, &kept{bytes: data}, true
	case "writer":
		if len(a) < 1 {
			return "", nil, false
		}
		p, g1 := dec(a[0])
		if !g1 {
			return "", nil, false
		}
		chunks := make([][]byte, 0, len(a)-1)
		for _, h := range a[1:] {
			c, err := hx.Dec(h)
			if err != nil {
				return "", nil, false
			}
			chunks = append(chunks, c)
		}
		res = s.exec(func() string {
			w, err := fs.Writer(p)
			if err != nil {
				return "err"
			}
			bad := false
			for _, c := range chunks {
				n, err := w.Write(c)
				if err != nil || n != len(c) {
					bad = true
				}
			}
			if err := w.Close(); err != nil {
				bad = true
			}
			if bad {
				return "err"
			}
			return "ok"
		})
		if len(chunks) > 0 {
			buf = &kept{bytes: chunks[len(chunks)-1]}
		}
		return res, buf, true
	case "reader":
		if len(a) < 1 {
			return "", nil, false
		}
		p, g1 := dec(a[0])
		if !g1 {
			return "", nil, false
		}
		sizes := make([]int, 0, len(a)-1)
		for _, t := range a[1:] {
			n, err := strconv.Atoi(t)
			if err != nil || n < 0 || n > 1<<24 {
				return "", nil, false
			}
			sizes = append(sizes, n)
		}
		var lastBuf []byte
		res = s.exec(func() string {
			rd, err := fs.Reader(p)
			if err != nil {
				return "err"
			}
			items := make([]string, 0, len(sizes))
			bad := false
			for _, sz := range sizes {
				b := make([]byte, sz)
				n, err := rd.Read(b)
				if n < 0 || n > sz || (err != nil && err != io.EOF) {
					bad = true
					break
				}
				lastBuf = b[:n]
				flag := "c"
				if err == io.EOF {
					flag = "e"
				}
				items = append(items, hx.Enc(b[:n])+":"+flag)
			}
			if err := rd.Close(); err != nil || bad {
				return "err"
			}
			if len(items) == 0 {
				return "rd"
			}
			return "rd " + strings.Join(items, ",")
		})
		if strings.HasPrefix(res, "rd ") {
			buf = &kept{bytes: lastBuf}
		}
		return res, buf, true
	case "mkdir":
		return p1(func(p string) string { return okErr(fs.MkdirAll(p, 0777)) })
	case "remove":
		return p1(func(p string) string { return okErr(fs.Remove(p)) })
	case "removeall":
		return p1(func(p string) string { return okErr(fs.RemoveAll(p)) })
	case "readfile":
		var data []byte
		res, _, ok = p1(func(p string) string {
			d, err := fs.ReadFile(p)
			if err != nil {
				return "err"
			}
			data = d
			return "data " + hx.Enc(d)
		})
		if ok && strings.HasPrefix(res, "data ") {
			buf = &kept{bytes: data}
		}
		return res, buf, ok
	case "readdir":
		var l []os.FileInfo
		res, _, ok = p1(func(p string) string {
			nodes, err := fs.ReadDir(p)
			if err != nil {
				return "err"
			}
			l = nodes
			return showListing(nodes)
		})
		if ok && strings.HasPrefix(res, "list") {
			buf = &kept{isList: true, listing: l}
		}
		return res, buf, ok
	case "isexist":
		return p1(func(p string) string { return tf(fs.IsExist(p)) })
	case "isfile":
		return p1(func(p string) string { return tf(fs.IsFile(p)) })
	case "isdir":
		return p1(func(p string) string { return tf(fs.IsDir(p)) })
	case "lstat":
		return p1(func(p string) string {
			info, err := fs.Lstat(p)
			if err != nil {
				return "err"
			}
			if info == nil {
				return "nil"
			}
			if info.IsDir() {
				return "stat " + hx.Enc([]byte(info.Name())) + " d"
			}
			return fmt.Sprintf("stat %s f %d", hx.Enc([]byte(info.Name())), info.Size())
		})
	case "copy":
		return p2(fs.Copy)
	case "copyfile":
		return p2(fs.CopyFile)
	case "copydir":
		return p2(fs.CopyDirectory)
	}
	return "", nil, false
}

func pathFn(fn string, b []byte) string {
	switch fn {
	case "clean":
		return "data " + hx.Enc([]byte(path.Clean(string(b))))
	case "cleanpath":
		return "data " + hx.Enc([]byte(varutil.CleanPath(string(b))))
	case "reduce":
		r, err := varutil.ReduceAbsPath(string(b))
		if err != nil {
			return "err"
		}
		return "data " + hx.Enc([]byte(r))
	}
	return "bad-op"
}

var pathAlphabet = []byte{'a', '.', '/'}

func pathEnum(w *bufio.Writer, n int, cur []byte) {
	if n == 0 {
		red := "err"
		if r, err := varutil.ReduceAbsPath(string(cur)); err == nil {
			red = hx.Enc([]byte(r))
		}
		fmt.Fprintf(w, "%s %s %s %s\n", hx.Enc(cur), hx.Enc([]byte(path.Clean(string(cur)))),
			hx.Enc([]byte(varutil.CleanPath(string(cur)))), red)
		return
	}
	for _, a := range pathAlphabet {
		pathEnum(w, n-1, append(cur, a))
	}
}

// line executes one protocol line and returns the result line.
func (s *session) line(f []string) string {
	last := s.last
	s.last = nil
	switch {
	case f[0] == "reset" && len(f) == 1:
		s.reset()
		return "ok"
	case f[0] == "new" && len(f) >= 3:
		id, err := strconv.Atoi(f[1])
		if err != nil {
			return "bad-op"
		}
		var fs FS
		res := s.exec(func() string {
			var e error
			if fs, e = newFS(s, f[2], f[3:]); e == errBadOp {
				return "bad-op"
			} else if e != nil {
				return "err"
			}
			return "ok"
		})
		if res == "ok" {
			s.fss[id] = fs
		}
		return res
	case f[0] == "view" && len(f) == 4:
		id, e1 := strconv.Atoi(f[1])
		parent, e2 := strconv.Atoi(f[2])
		p, good := dec(f[3])
		if e1 != nil || e2 != nil || !good {
			return "bad-op"
		}
		fs, ok := s.fss[parent]
		if !ok {
			return "nofs"
		}
		var child FS
		res := s.exec(func() string {
			c, err := fs.Filespace(p)
			if err != nil {
				return "err"
			}
			if c == nil {
				return "nil"
			}
			child = c
			return "ok"
		})
		if res == "ok" {
			s.fss[id] = child
		}
		return res
	case f[0] == "dump" && len(f) == 2:
		id, err := strconv.Atoi(f[1])
		if err != nil {
			return "bad-op"
		}
		fs, ok := s.fss[id]
		if !ok {
			return "nofs"
		}
		return s.exec(func() string { return dump(fs) })
	case f[0] == "keep" && len(f) == 2:
		k, err := strconv.Atoi(f[1])
		if err != nil {
			return "bad-op"
		}
		if last == nil {
			return "none"
		}
		s.slots[k] = last
		return "ok"
	case f[0] == "mutate" && len(f) == 4:
		k, e1 := strconv.Atoi(f[1])
		i, e2 := strconv.Atoi(f[2])
		b, e3 := strconv.Atoi(f[3])
		if e1 != nil || e2 != nil || e3 != nil || i < 0 || b < 0 {
			return "bad-op"
		}
		v := s.slots[k]
		if v == nil {
			return "none"
		}
		if v.isList {
			if i >= len(v.listing) {
				return "none"
			}
			v.listing[i] = v.listing[b%len(v.listing)]
			return "ok"
		}
		if i >= len(v.bytes) {
			return "none"
		}
		v.bytes[i] = byte(b)
		return "ok"
	case f[0] == "recheck" && len(f) == 2:
		k, err := strconv.Atoi(f[1])
		if err != nil {
			return "bad-op"
		}
		v := s.slots[k]
		if v == nil {
			return "none"
		}
		if v.isList {
			if p, _ := hx.Guard(func() { _ = showListing(v.listing) }); p {
				return "panic"
			}
			return showListing(v.listing)
		}
		return "data " + hx.Enc(v.bytes)
	case f[0] == "path" && len(f) == 3:
		b, err := hx.Dec(f[2])
		if err != nil {
			return "bad-op"
		}
		return pathFn(f[1], b)
	case len(f) >= 2:
		id, err := strconv.Atoi(f[1])
		if err != nil {
			return "bad-op"
		}
		fs, have := s.fss[id]
		// parse first so that a malformed line is `bad-op` whether or not the id is bound
		if !have {
			if !knownCmd(f[0], len(f)-2) {
				return "bad-op"
			}
			return "nofs"
		}
		res, buf, ok := s.call(fs, f[0], f[2:])
		if !ok {
			return "bad-op"
		}
		s.last = buf
		return res
	}
	return "bad-op"
}

func knownCmd(cmd string, nargs int) bool {
	switch cmd {
	case "write", "copy", "copyfile", "copydir":
		return nargs == 2
	case "writer", "reader":
		return nargs >= 1
	case "mkdir", "remove", "removeall", "readfile", "readdir", "isexist", "isfile", "isdir", "lstat":
		return nargs == 1
	}
	return false
}

var mutating = map[string]bool{"write": true, "writer": true, "mkdir": true, "remove": true, "removeall": true,
	"copy": true, "copyfile": true, "copydir": true}

// stats accumulated by `drive -stats <file>`: op:result histogram and per-history digests
type stats struct {
	Histogram  map[string]int `json:"histogram"`
	Histories  int            `json:"histories"`
	Nontrivial int            `json:"nontrivial"`
	Hashes     []string       `json:"hashes,omitempty"` // digests of the non-trivial histories (omitted with -nohash)
	Lines      int            `json:"lines"`
}

func drive(in io.Reader, w *bufio.Writer, statsPath string, noHash bool) {
	sc := bufio.NewScanner(in)
	sc.Buffer(make([]byte, 1<<20), 1<<28)
	s := newSession()
	st := &stats{Histogram: map[string]int{}}
	h := fnv.New64a()
	var mutOK, anyErr, open bool
	seen := map[uint64]bool{}
	finish := func() {
		if !open {
			return
		}
		st.Histories++
		if mutOK && anyErr {
			st.Nontrivial++
			if !noHash {
				seen[h.Sum64()] = true
			}
		}
		h.Reset()
		mutOK, anyErr, open = false, false, false
	}
	for sc.Scan() {
		line := sc.Text()
		if line == "" || strings.HasPrefix(line, "#") {
			continue
		}
		f := strings.Split(line, " ")
		if f[0] == "pathenum" && len(f) == 2 {
			n, _ := strconv.Atoi(f[1])
			for l := 0; l <= n; l++ {
				pathEnum(w, l, nil)
			}
			continue
		}
		if f[0] == "reset" {
			finish()
		}
		res := s.line(f)
		w.WriteString(res)
		w.WriteByte('\n')
		if statsPath != "" {
			open = true
			st.Lines++
			h.Write([]byte(line))
			h.Write([]byte{'\n'})
			kind := res
			if i := strings.IndexByte(res, ' '); i >= 0 {
				kind = res[:i]
			}
			st.Histogram[f[0]+":"+kind]++
			if kind == "err" {
				anyErr = true
			}
			if kind == "ok" && mutating[f[0]] {
				mutOK = true
			}
		}
	}
	finish()
	s.reset()
	if statsPath != "" {
		if !noHash {
			for k := range seen {
				st.Hashes = append(st.Hashes, strconv.FormatUint(k, 16))
			}
			sort.Strings(st.Hashes)
		}
		b, _ := json.Marshal(st)
		_ = os.WriteFile(statsPath, b, 0644)
	}
}
